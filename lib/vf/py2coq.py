"""py2coq -- fail-closed translator from a pure subset of Python (ast) to Gallina.

The translator is part of the trusted base (DESIGN.md 2.2 / 3.3).  Everything it
does not understand raises Unsupported: the check that asked for the translation
then reports the property as "no longer shown" instead of guessing.

Python subset and its meaning (all integers are unbounded Z):
  ints            -> Z           //,% -> Z.div, Z.modulo (floor, sign of divisor: Python's)
                                 only with a non-zero *constant* divisor, else partial (res)
  <<,>>,&,|,^,~   -> Z.shiftl, Z.shiftr, Z.land, Z.lor, Z.lxor, Z.lnot (two's complement)
                     (assumption: shift counts are non-negative where Python would run)
  **              -> Z.pow (assumption: non-negative exponent)
  bool            -> bool ; and/or/not only in boolean context
  bytes/bytearray/list/tuple of ints -> list Z     (bytes are Z in 0..255)
  tuples of mixed values -> Coq tuples
  None            -> None (option) when the expected type is option
  x[i]            -> py_index (partial: IndexError -> Raise), negative indexes wrap
  raise           -> Raise
  while           -> Fixpoint on explicit fuel; exhaustion -> Fuel (never a normal value)
  for v in <list> -> structural Fixpoint on the list
  range(a, b, s)  -> py_range a b s; a range over constants with at most 64 elements is emitted as the literal list
Functions that contain none of the partial constructs are emitted as total
functions of plain type; the others return `res T` (Ok | Raise | Fuel).

Extensions for the T-marshal layer (segment header / time helpers); each is opt-in per Fn and fails closed:
  for _ in <list>  the anonymous loop variable `_` is an ordinary variable; it is emitted as `ign_`
                   (a bare `_` would be a Coq hole).
  Fn(sinks={'write_uint_le': [(1, 'i', Z, None), (2, 'size', Z, 4)]})
                   *sink procedures*: a call statement `write_uint_le(buf, v, size=n)` has no value; its only effect
                   is on the buffer object, which is not modelled.  The translation records the listed arguments
                   (position, keyword name, type, default or None = required), in program order, in an output trace
                   `out_ : list (T1 * ... * Tn)`, initially [], and the trace is the function's result (the Python
                   function must return None: declared ret = UNIT).  What the sink does with a record (here: size
                   little-endian bytes of v) is a hand model, stated next to the theorem that uses it.  Sink calls
                   inside loops are rejected; all sinks of one Fn must record the same tuple type; the first
                   (buffer) argument is dropped without being translated.
  Fn(sources={'read_uint_le': Z})
                   *source functions*: the value returned by the k-th call site (source order) of a declared source
                   is an extra parameter `in_k` of the generated function (after the declared parameters and the
                   self_in attributes).  This models "whatever the reader returned"; it is only sound when a call
                   site runs at most once, so source calls inside loops / comprehensions are rejected, and their
                   arguments must be plain names, attributes or constants (no effects); the arguments themselves
                   are not translated (how many bytes are consumed is part of the hand model).
  Fn(ctors={'SegmentHeader': [Z, Z, B]})
                   *record constructors*: `C(a, b, c)` with positional arguments only is the tuple (a, b, c) with the
                   declared component types (the constructor must only store its arguments: hand-checked, and
                   covered by the translation validation of the callers).
  Fn(ctors={'UUID': {'keywords': [('fields', tup(Z, Z, Z, Z, Z, Z)), ('version', Z)]}})
                   keyword form: `m.UUID(fields=(...), version=1)` (exactly these keywords, no positional arguments)
                   is the tuple of the keyword values in the declared order.  What the constructor computes from
                   them (uuid.UUID: field range checks, version/variant bits) is a hand model.
  Fn(tail_from='time_low', tail_inputs=[('intervals', Z)])
                   *tail translation*: only the suffix of the function body starting at the first top-level
                   statement that assigns the name `tail_from` is translated; the listed local variables are extra
                   parameters (after the declared ones) holding their values at that program point.  The result
                   describes what the code computes from there on; the skipped prefix (e.g. float arithmetic) is
                   outside the subset and stays untranslated.  Rejected if the prefix assigns a typed parameter.
"""
import ast, os, textwrap


class Unsupported(Exception):
    pass


# --------------------------------------------------------------------------- types
Z, B, BYTES, UNIT = 'Z', 'bool', ('list', 'Z'), 'unit'


def opt(t):
    return ('option', t)


def tup(*ts):
    return ('tuple', tuple(ts))


def lst(t):
    return ('list', t)


def coq_type(t):
    if t in ('Z', 'bool', 'unit', 'nat'):
        return t
    if isinstance(t, str):
        return t
    k = t[0]
    if k == 'list':
        return '(list %s)' % coq_type(t[1])
    if k == 'option':
        return '(option %s)' % coq_type(t[1])
    if k == 'tuple':
        return '(' + ' * '.join(coq_type(x) for x in t[1]) + ')'
    raise Unsupported('type %r' % (t,))


# --------------------------------------------------------------------------- constants
class ConstEnv(object):
    """Evaluates module-level / class-level constant definitions from source by AST."""

    SAFE_FUNCS = {'min': min, 'max': max, 'sorted': sorted, 'tuple': tuple, 'int': int, 'len': len,
                  'abs': abs, 'frozenset': frozenset, 'set': set, 'list': list, 'range': range}

    def __init__(self, repo):
        self.repo = repo
        self.mods = {}

    def module(self, relpath):
        if relpath not in self.mods:
            path = os.path.join(self.repo, relpath)
            with open(path) as f:
                src = f.read()
            tree = ast.parse(src, relpath)
            self.mods[relpath] = Module(self, relpath, tree)
        return self.mods[relpath]

    def modpath(self, dotted):
        p = dotted.replace('.', '/')
        for cand in (p + '.py', p + '/__init__.py'):
            if os.path.exists(os.path.join(self.repo, cand)):
                return cand
        return None


class Module(object):
    def __init__(self, cenv, relpath, tree):
        self.cenv, self.relpath, self.tree = cenv, relpath, tree
        self.classes, self.funcs, self.assigns, self.imports = {}, {}, {}, {}
        self._collect(tree.body)
        self._cache = {}

    def _collect(self, body):
        for node in body:
            if isinstance(node, ast.ClassDef):
                self.classes[node.name] = node
            elif isinstance(node, ast.FunctionDef):
                self.funcs[node.name] = node
            elif isinstance(node, ast.Assign):
                for t in node.targets:
                    if isinstance(t, ast.Name):
                        self.assigns[t.id] = node.value
                    elif isinstance(t, ast.Tuple) and isinstance(node.value, ast.Tuple) \
                            and len(t.elts) == len(node.value.elts):
                        for a, b in zip(t.elts, node.value.elts):
                            if isinstance(a, ast.Name):
                                self.assigns[a.id] = b
            elif isinstance(node, ast.ImportFrom) and node.level == 0 and node.module:
                for a in node.names:
                    self.imports[a.asname or a.name] = (node.module, a.name)
            elif isinstance(node, ast.Try):
                self._collect(node.body)

    # class helpers
    def class_body_assign(self, cls, name):
        node = self.classes[cls]
        found = None
        for st in node.body:
            if isinstance(st, ast.Assign):
                for t in st.targets:
                    if isinstance(t, ast.Name) and t.id == name:
                        found = st.value
        return found

    def class_method(self, cls, name):
        node = self.classes[cls]
        for st in node.body:
            if isinstance(st, ast.FunctionDef) and st.name == name:
                return st
        return None

    def bases(self, cls):
        out = []
        for b in self.classes[cls].bases:
            if isinstance(b, ast.Name) and b.id in self.classes:
                out.append((self, b.id))
            elif isinstance(b, ast.Name) and b.id in self.imports:
                m, n = self.imports[b.id]
                p = self.cenv.modpath(m)
                if p:
                    out.append((self.cenv.module(p), n))
        return out

    def resolve_method(self, cls, name, depth=0):
        """(module, class, FunctionDef) following class-body aliases and base classes."""
        if depth > 10:
            raise Unsupported('method resolution too deep')
        m = self.class_method(cls, name)
        if m is not None:
            return self, cls, m
        alias = self.class_body_assign(cls, name)
        if alias is not None:
            if isinstance(alias, ast.Name):
                return self.resolve_method(cls, alias.id, depth + 1)
            raise Unsupported('class attribute %s.%s is not a method' % (cls, name))
        for (bm, bc) in self.bases(cls):
            try:
                return bm.resolve_method(bc, name, depth + 1)
            except KeyError:
                continue
        raise KeyError('%s.%s' % (cls, name))

    def class_const(self, cls, name, depth=0):
        v = self.class_body_assign(cls, name)
        if v is not None:
            return self.eval_const(v, cls)
        for (bm, bc) in self.bases(cls):
            try:
                return bm.class_const(bc, name, depth + 1)
            except KeyError:
                continue
        raise KeyError('%s.%s' % (cls, name))

    def lookup_name(self, name):
        """Module-level constant or imported constant."""
        if name in self.assigns:
            return self.eval_const(self.assigns[name], None)
        if name in self.imports:
            m, n = self.imports[name]
            p = self.cenv.modpath(m)
            if p:
                return self.cenv.module(p).lookup_name(n)
        raise KeyError(name)

    def find_class(self, name, depth=0):
        if name in self.classes:
            return self, name
        if name in self.assigns and isinstance(self.assigns[name], ast.Name) and depth < 5:
            return self.find_class(self.assigns[name].id, depth + 1)
        if name in self.imports:
            m, n = self.imports[name]
            p = self.cenv.modpath(m)
            if p and n in self.cenv.module(p).classes:
                return self.cenv.module(p), n
        raise KeyError(name)

    def eval_const(self, node, cls):
        """Evaluate a closed constant expression; raises KeyError/Unsupported when not constant."""
        if isinstance(node, ast.Constant):
            if isinstance(node.value, (int, bool, bytes, str)) or node.value is None:
                return node.value
            raise Unsupported('constant %r' % (node.value,))
        if isinstance(node, ast.Tuple):
            return tuple(self.eval_const(e, cls) for e in node.elts)
        if isinstance(node, ast.List):
            return [self.eval_const(e, cls) for e in node.elts]
        if isinstance(node, ast.Name):
            if cls is not None:
                v = self.class_body_assign(cls, node.id)
                if v is not None and v is not node:
                    return self.eval_const(v, cls)
            return self.lookup_name(node.id)
        if isinstance(node, ast.Attribute) and isinstance(node.value, ast.Name):
            base = node.value.id
            if base in ('cls', 'self') and cls is not None:
                return self.class_const(cls, node.attr)
            m, c = self.find_class(base)
            return m.class_const(c, node.attr)
        if isinstance(node, ast.UnaryOp):
            v = self.eval_const(node.operand, cls)
            if isinstance(node.op, ast.USub):
                return -v
            if isinstance(node.op, ast.Invert):
                return ~v
            if isinstance(node.op, ast.Not):
                return not v
        if isinstance(node, ast.BinOp):
            a, b = self.eval_const(node.left, cls), self.eval_const(node.right, cls)
            ops = {ast.Add: lambda: a + b, ast.Sub: lambda: a - b, ast.Mult: lambda: a * b,
                   ast.FloorDiv: lambda: a // b, ast.Mod: lambda: a % b, ast.Pow: lambda: a ** b,
                   ast.LShift: lambda: a << b, ast.RShift: lambda: a >> b, ast.BitAnd: lambda: a & b,
                   ast.BitOr: lambda: a | b, ast.BitXor: lambda: a ^ b}
            if type(node.op) in ops:
                if isinstance(node.op, ast.Pow) and (not isinstance(b, int) or b < 0 or b > 4096):
                    raise Unsupported('pow')
                return ops[type(node.op)]()
        if isinstance(node, ast.Call) and isinstance(node.func, ast.Name) and node.func.id in ConstEnv.SAFE_FUNCS:
            args = [self.eval_const(a, cls) for a in node.args]
            kw = {k.arg: self.eval_const(k.value, cls) for k in node.keywords}
            return ConstEnv.SAFE_FUNCS[node.func.id](*args, **kw)
        raise KeyError(ast.dump(node)[:80])


# --------------------------------------------------------------------------- specs
class Fn(object):
    """What to translate.

    path: file relative to repo; qual: 'func' or 'Class.method';
    name: Coq name; params: list of (pyname, type or None=ignored);
    ret: return type; fuels: Coq nat expressions (over the Coq names of params/locals), one per
    `while` in source order; state_out: list of (attr, type) written through self.<attr> and returned
    alongside the result; self_in: dict attr -> (coqname,type) of self attributes passed as params;
    externs: dict python callee -> (coq name, arg types, ret type, partial?) hand-modelled callees.
    """

    def __init__(self, path, qual, name, params, ret, fuels=(), self_in=None, state_out=None,
                 externs=None, ignore_calls=(), assume=None, sinks=None, sources=None, ctors=None,
                 tail_from=None, tail_inputs=()):
        self.path, self.qual, self.name, self.params, self.ret = path, qual, name, params, ret
        # sinks / sources / ctors: see the module docstring ("Extensions for the T-marshal layer")
        self.sinks = dict(sinks or {})
        self.sources = dict(sources or {})
        self.ctors = dict(ctors or {})
        self.tail_from = tail_from
        self.tail_inputs = list(tail_inputs)
        self.fuels = list(fuels)
        self.self_in = self_in or {}
        self.state_out = state_out or []
        self.externs = externs or {}
        self.ignore_calls = set(ignore_calls)
        # assume: {source text of a condition: bool} -- conditions decided by the environment, not by the
        # inputs (e.g. `murmur3 is not None`); each use is an explicit, documented assumption of the spec
        self.assume = dict(assume or {})


PRELUDE = "From Coq Require Import ZArith List Bool.\nFrom Verif Require Import PyBase.\n" \
          'Import ListNotations.\nLocal Open Scope Z_scope.\n'


class Translator(object):
    def __init__(self, repo, fns, imports=()):
        self.cenv = ConstEnv(repo)
        self.fns = list(fns)
        self.by_key = {}
        for f in self.fns:
            self.by_key[(f.path, f.qual)] = f
        self.partial = {}
        self.imports = list(imports)
        self._resolved = {}

    # ---- locate
    def locate(self, fn):
        if fn.name in self._resolved:
            return self._resolved[fn.name]
        mod = self.cenv.module(fn.path)
        if '.' in fn.qual:
            cls, meth = fn.qual.split('.', 1)
            if cls not in mod.classes:
                raise Unsupported('class %s not found in %s' % (cls, fn.path))
            try:
                dmod, dcls, node = mod.resolve_method(cls, meth)
            except KeyError:
                raise Unsupported('method %s not found' % fn.qual)
            r = (dmod, dcls, node, cls)
        else:
            if fn.qual not in mod.funcs:
                raise Unsupported('function %s not found in %s' % (fn.qual, fn.path))
            r = (mod, None, mod.funcs[fn.qual], None)
        self._resolved[fn.name] = r
        return r

    def callee(self, mod, cls_ctx, call):
        """Resolve a Call node to a whitelisted Fn (or extern)."""
        f = call.func
        if isinstance(f, ast.Name):
            key = (mod.relpath, f.id)
            if key in self.by_key:
                return self.by_key[key]
            if f.id in mod.imports:
                m, n = mod.imports[f.id]
                p = self.cenv.modpath(m)
                if p and (p, n) in self.by_key:
                    return self.by_key[(p, n)]
        if isinstance(f, ast.Attribute) and isinstance(f.value, ast.Name):
            base = f.value.id
            if base in ('self', 'cls') and cls_ctx:
                # dynamic dispatch from the *receiver* class
                rmod, rcls = cls_ctx
                key = (rmod.relpath, '%s.%s' % (rcls, f.attr))
                if key in self.by_key:
                    return self.by_key[key]
            else:
                try:
                    m, c = mod.find_class(base)
                    key = (m.relpath, '%s.%s' % (c, f.attr))
                    if key in self.by_key:
                        return self.by_key[key]
                except KeyError:
                    pass
        return None

    # ---- partiality analysis
    def compute_partial(self):
        for f in self.fns:
            self.partial[f.name] = False
        changed = True
        while changed:
            changed = False
            for f in self.fns:
                if self.partial[f.name]:
                    continue
                if self._is_partial(f):
                    self.partial[f.name] = True
                    changed = True

    def _is_partial(self, fn):
        mod, dcls, node, rcls = self.locate(fn)
        for n in ast.walk(node):
            if isinstance(n, (ast.Raise, ast.While, ast.Assert)):
                return True
            if isinstance(n, ast.Call) and isinstance(n.func, ast.Name) and n.func.id == 'bytearray':
                return True
            if isinstance(n, ast.Call) and isinstance(n.func, ast.Name) and n.func.id == 'int' and len(n.args) == 2:
                return True
            if isinstance(n, ast.Subscript) and not isinstance(n.slice, ast.Slice):
                return True
            if isinstance(n, ast.BinOp) and isinstance(n.op, (ast.FloorDiv, ast.Mod)):
                if self._nonzero_const(mod, dcls, n.right) is None:
                    return True
            if isinstance(n, ast.Call):
                c = self.callee(mod, (self.cenv.module(fn.path), rcls) if rcls else None, n)
                if c is not None and self.partial.get(c.name):
                    return True
                nm = self._call_name(n)
                if nm in fn.externs and fn.externs[nm][3]:
                    return True
        return False

    @staticmethod
    def _call_name(n):
        f = n.func
        if isinstance(f, ast.Name):
            return f.id
        if isinstance(f, ast.Attribute):
            return f.attr
        return None

    def _nonzero_const(self, mod, cls, node):
        try:
            v = mod.eval_const(node, cls)
        except (KeyError, Unsupported):
            return None
        if isinstance(v, int) and not isinstance(v, bool) and v != 0:
            return v
        return None

    # ---- emit
    def emit(self, header=''):
        self.compute_partial()
        out = ['(* GENERATED by verif/lib/vf/py2coq.py from the working tree -- do not edit *)',
               PRELUDE]
        for i in self.imports:
            out.append(i)
        if header:
            out.append(header)
        for f in self.fns:
            out.append(FnTranslator(self, f).translate())
        return '\n'.join(out) + '\n'


def zlit(v):
    return '(%d)' % v if v < 0 else '%d' % v


def const_to_coq(v, expected=None):
    if isinstance(v, bool):
        return ('true' if v else 'false'), B
    if isinstance(v, int):
        return zlit(v), Z
    if isinstance(v, bytes):
        return '[' + '; '.join(str(b) for b in v) + ']', BYTES
    if v is None:
        return 'None', expected or opt(Z)
    if isinstance(v, (tuple, list)) and all(isinstance(x, int) and not isinstance(x, bool) for x in v):
        return '[' + '; '.join(zlit(x) for x in v) + ']', BYTES
    raise Unsupported('constant %r' % (v,))


class FnTranslator(object):
    def __init__(self, tr, fn):
        self.tr, self.fn = tr, fn
        self.mod, self.dcls, self.node, self.rcls = tr.locate(fn)
        self.rmod = tr.cenv.module(fn.path)
        self.partial = tr.partial[fn.name]
        self.aux = []
        self.loop_no = 0
        self.tmp_no = 0
        # loops are numbered in source order; statements after an `if` are translated once per branch, so a
        # loop may be visited several times: same source loop + same environment -> same auxiliary Fixpoint
        self.while_index = {}
        for n in ast.walk(self.node):
            if isinstance(n, ast.While):
                self.while_index[id(n)] = len(self.while_index)
        self.loop_cache = {}
        # variables bound to bytearray(): .append(x) raises ValueError unless 0 <= x < 256
        self.bytearrays = set()
        for n in ast.walk(self.node):
            if isinstance(n, ast.Assign) and isinstance(n.value, ast.Call) and isinstance(n.value.func, ast.Name) \
                    and n.value.func.id == 'bytearray':
                for t in n.targets:
                    if isinstance(t, ast.Name):
                        self.bytearrays.add(t.id)
        # source call sites (Fn.sources): k-th site in source order -> parameter in_k
        self.source_sites = {}
        if fn.sources:
            sites = [n for n in ast.walk(self.node) if isinstance(n, ast.Call) and isinstance(n.func, ast.Name)
                     and n.func.id in fn.sources]
            sites.sort(key=lambda n: (n.lineno, n.col_offset))
            for lp in ast.walk(self.node):
                if isinstance(lp, (ast.For, ast.While, ast.ListComp, ast.GeneratorExp, ast.SetComp, ast.DictComp,
                                   ast.Lambda)):
                    for n in ast.walk(lp):
                        if any(n is s_ for s_ in sites):
                            raise Unsupported('%s: source call %s inside a loop/comprehension/lambda'
                                              % (fn.name, n.func.id))
            for i, n in enumerate(sites, 1):
                for a in list(n.args) + [k_.value for k_ in n.keywords]:
                    ok_arg = isinstance(a, (ast.Name, ast.Constant)) or (
                        isinstance(a, ast.Attribute) and isinstance(a.value, ast.Name))
                    if not ok_arg:
                        raise Unsupported('%s: argument of source call %s is not a plain name/attribute/constant'
                                          % (fn.name, n.func.id))
                self.source_sites[id(n)] = (i, fn.sources[n.func.id])
        # sinks (Fn.sinks): one output trace, all sinks record the same tuple type
        self.trace_type = None
        if fn.sinks:
            rts = set(tuple(t for (_p, _k, t, _d) in spec) for spec in fn.sinks.values())
            if len(rts) != 1 or not list(rts)[0]:
                raise Unsupported('%s: sinks must record one common non-empty tuple type' % fn.name)
            comps = list(rts)[0]
            self.trace_type = lst(comps[0] if len(comps) == 1 else tup(*comps))
            if fn.ret != UNIT or fn.state_out:
                raise Unsupported('%s: a function with sinks must return None (ret=UNIT) and have no state_out' % fn.name)

    # -- helpers
    def fresh(self, base='t'):
        self.tmp_no += 1
        return '%s_%d' % (base, self.tmp_no)

    def cname(self, pyname):
        if pyname == '_':
            return 'ign_'
        if pyname.startswith('in_') and pyname[3:].isdigit():
            return pyname + '_'
        return pyname if pyname not in COQ_RESERVED else pyname + '_'

    def ok(self, e):
        return '(Ok %s)' % e if self.partial else e

    def ret_type(self):
        if self.trace_type is not None:
            return self.trace_type
        t = self.fn.ret
        if self.fn.state_out:
            t = tup(t, *[ty for (_, ty) in self.fn.state_out])
        return t

    def translate(self):
        args = self.node.args
        pynames = [a.arg for a in args.args]
        if pynames and pynames[0] in ('self', 'cls'):
            pynames = pynames[1:]
        env = {}
        params = []
        if args.vararg or args.kwarg:
            # *args/**kwargs: the spec's parameter list is the call signature; all ignored
            for (n, t) in self.fn.params:
                if t is not None:
                    raise Unsupported('%s: typed parameter for *args function' % self.fn.name)
        else:
            spec_names = [n for (n, _) in self.fn.params]
            if spec_names != pynames:
                raise Unsupported('%s: parameter list changed: source %r, expected %r'
                                  % (self.fn.name, pynames, spec_names))
        for (n, t) in self.fn.params:
            if t is not None:
                env[n] = t
                params.append('(%s : %s)' % (self.cname(n), coq_type(t)))
        for attr, (cn, t) in sorted(self.fn.self_in.items()):
            env['self.' + attr] = t
            params.append('(%s : %s)' % (self.cname('self_' + attr), coq_type(t)))
        for (attr, t) in self.fn.state_out:
            if 'self.' + attr not in env:
                raise Unsupported('state_out %s must also be in self_in' % attr)
        for (i, t) in sorted(self.source_sites.values()):
            params.append('(in_%d : %s)' % (i, coq_type(t)))
        stmts = list(self.node.body)
        if self.fn.tail_from is not None:
            idx = None
            for i, st in enumerate(stmts):
                if isinstance(st, ast.Assign) and any(isinstance(t, ast.Name) and t.id == self.fn.tail_from
                                                      for t in st.targets):
                    idx = i
                    break
            if idx is None:
                raise Unsupported('%s: no top-level assignment to %s (tail_from)' % (self.fn.name, self.fn.tail_from))
            for st in stmts[:idx]:
                for n in ast.walk(st):
                    if isinstance(n, ast.Name) and isinstance(n.ctx, ast.Store) and n.id in env:
                        raise Unsupported('%s: the untranslated prefix assigns parameter %s' % (self.fn.name, n.id))
            stmts = stmts[idx:]
            for (n, t) in self.fn.tail_inputs:
                if n in env:
                    raise Unsupported('%s: tail input %s is also a parameter' % (self.fn.name, n))
                env[n] = t
                params.append('(%s : %s)' % (self.cname(n), coq_type(t)))
        elif self.fn.tail_inputs:
            raise Unsupported('%s: tail_inputs without tail_from' % self.fn.name)
        body = self.block(stmts, env, None)
        if self.trace_type is not None:
            body = 'let out_ := [] in\n' + body
        rt = coq_type(self.ret_type())
        if self.partial:
            rt = '(res %s)' % rt
        text = '\n'.join(self.aux)
        text += '\nDefinition %s %s : %s :=\n%s.\n' % (self.fn.name, ' '.join(params), rt, indent(body))
        if len(self.while_index) != len(self.fn.fuels):
            raise Unsupported('%s: %d while-loops in source but %d fuel expressions in the spec'
                              % (self.fn.name, len(self.while_index), len(self.fn.fuels)))
        return text

    # -- final value of a fall-through
    def result(self, value_expr, env):
        if self.trace_type is not None:
            return self.ok('out_')
        if self.fn.state_out:
            parts = [value_expr] + [self.var('self.' + a) for (a, _) in self.fn.state_out]
            return self.ok('(' + ', '.join(parts) + ')')
        return self.ok(value_expr)

    def var(self, key):
        if key.startswith('self.'):
            return self.cname('self_' + key[5:])
        return self.cname(key)

    # -- statements.  `k` is the continuation: None = function end (fall off = return None),
    #    or a callable env -> coq text (used for loop bodies: produce the loop state).
    def block(self, stmts, env, k):
        if not stmts:
            if k is None:
                if self.fn.ret == UNIT:
                    return self.result('tt', env)
                if isinstance(self.fn.ret, tuple) and self.fn.ret[0] == 'option':
                    return self.result('None', env)
                raise Unsupported('%s: falls off the end but return type is not unit/option' % self.fn.name)
            return k(env)
        s, rest = stmts[0], stmts[1:]
        if isinstance(s, ast.Expr) and isinstance(s.value, ast.Constant):
            return self.block(rest, env, k)  # docstring
        if isinstance(s, ast.Pass):
            return self.block(rest, env, k)
        if isinstance(s, ast.Return):
            if k is not None:
                raise Unsupported('return inside a loop')
            if s.value is None:
                if self.fn.ret == UNIT:
                    return self.result('tt', env)
                raise Unsupported('bare return')
            return self.expr_k(s.value, self.fn.ret, env, lambda e, t: self.result(e, env))
        if isinstance(s, ast.Raise):
            return 'Raise'
        if isinstance(s, ast.Assert):
            return self.cond(s.test, env, lambda: self.block(rest, env, k), lambda: 'Raise')
        if isinstance(s, ast.If):
            return self.cond(s.test, env,
                             lambda: self.block(list(s.body) + rest, dict(env), k),
                             lambda: self.block(list(s.orelse) + rest, dict(env), k))
        if isinstance(s, ast.Assign):
            if len(s.targets) != 1:
                # h1 = h2 = 0
                val = s.value
                new = [ast.Assign(targets=[t], value=val) for t in s.targets]
                return self.block(new + rest, env, k)
            return self.assign(s.targets[0], s.value, env, rest, k)
        if isinstance(s, ast.AugAssign):
            val = ast.BinOp(left=to_load(s.target), op=s.op, right=s.value)
            return self.assign(s.target, val, env, rest, k)
        if isinstance(s, ast.Expr) and isinstance(s.value, ast.Call):
            return self.call_stmt(s.value, env, rest, k)
        if isinstance(s, ast.While):
            return self.while_loop(s, env, rest, k)
        if isinstance(s, ast.For):
            return self.for_loop(s, env, rest, k)
        if isinstance(s, ast.Try):
            return self.try_stmt(s, env, rest, k)
        raise Unsupported('%s: statement %s' % (self.fn.name, type(s).__name__))

    def target_key(self, t):
        if isinstance(t, ast.Name):
            return t.id
        if isinstance(t, ast.Attribute) and isinstance(t.value, ast.Name) and t.value.id == 'self':
            key = 'self.' + t.attr
            if t.attr not in [a for (a, _) in self.fn.state_out]:
                raise Unsupported('%s: write to self.%s not declared in state_out' % (self.fn.name, t.attr))
            return key
        raise Unsupported('%s: assignment target %s' % (self.fn.name, ast.dump(t)[:60]))

    def assign(self, target, value, env, rest, k):
        if isinstance(target, ast.Tuple):
            keys = [self.target_key(t) for t in target.elts]

            def cont(e, t):
                if not (isinstance(t, tuple) and t[0] == 'tuple' and len(t[1]) == len(keys)):
                    raise Unsupported('tuple unpack of %r' % (t,))
                env2 = dict(env)
                for kk, tt in zip(keys, t[1]):
                    env2[kk] = tt
                return "let '(%s) := %s in\n%s" % (', '.join(self.var(x) for x in keys), e,
                                                    self.block(rest, env2, k))
            return self.expr_k(value, None, env, cont)
        key = self.target_key(target)
        expected = env.get(key)

        def cont(e, t):
            env2 = dict(env)
            env2[key] = t
            return 'let %s := %s in\n%s' % (self.var(key), e, self.block(rest, env2, k))
        return self.expr_k(value, expected, env, cont)

    def call_stmt(self, call, env, rest, k):
        f = call.func
        # bytearray / list mutation methods on a local
        if isinstance(f, ast.Attribute) and isinstance(f.value, ast.Name) and f.value.id in env:
            v = f.value.id
            t = env[v]
            if isinstance(t, tuple) and t[0] == 'list':
                if f.attr == 'append' and len(call.args) == 1:
                    if v in self.bytearrays:
                        return self.expr_k(call.args[0], t[1], env, lambda e, _t:
                                           'bind (py_byte_check %s) (fun _ =>\nlet %s := %s ++ [%s] in\n%s)' % (
                                               e, self.var(v), self.var(v), e, self.block(rest, env, k)))
                    return self.expr_k(call.args[0], t[1], env, lambda e, _t:
                                       'let %s := %s ++ [%s] in\n%s' % (self.var(v), self.var(v), e,
                                                                        self.block(rest, env, k)))
                if f.attr == 'reverse' and not call.args:
                    return 'let %s := rev %s in\n%s' % (self.var(v), self.var(v), self.block(rest, env, k))
                if f.attr == 'extend' and len(call.args) == 1:
                    return self.expr_k(call.args[0], t, env, lambda e, _t:
                                       'let %s := %s ++ %s in\n%s' % (self.var(v), self.var(v), e,
                                                                      self.block(rest, env, k)))
        if isinstance(f, ast.Name) and f.id in self.fn.sinks and f.id not in env:
            return self.sink_call(call, self.fn.sinks[f.id], env, rest, k)
        nm = self.tr._call_name(call)
        if nm in self.fn.ignore_calls:
            return self.block(rest, env, k)
        # call for effect on self.<state> of a translated method is not supported
        raise Unsupported('%s: call statement %s' % (self.fn.name, ast.dump(call)[:80]))

    def sink_call(self, call, spec, env, rest, k):
        """Record the declared arguments of a sink procedure call in the output trace (module docstring)."""
        if k is not None:
            raise Unsupported('%s: sink call inside a loop' % self.fn.name)
        if any(kw.arg is None for kw in call.keywords):
            raise Unsupported('%s: **kwargs in sink call' % self.fn.name)
        pos = list(call.args)
        kws = {kw.arg: kw.value for kw in call.keywords}
        allowed = set([0] + [p_ for (p_, _k, _t, _d) in spec])
        if any(i not in allowed for i in range(len(pos))) or not pos:
            raise Unsupported('%s: sink call with undeclared positional arguments' % self.fn.name)
        items = []
        for (p_, kwname, t, default) in spec:
            if p_ < len(pos):
                if kwname in kws:
                    raise Unsupported('%s: sink argument %s given twice' % (self.fn.name, kwname))
                items.append((pos[p_], t))
            elif kwname in kws:
                items.append((kws.pop(kwname), t))
            elif default is not None:
                items.append((ast.Constant(default), t))
            else:
                raise Unsupported('%s: sink argument %s missing' % (self.fn.name, kwname))
        if kws:
            raise Unsupported('%s: sink call with undeclared keyword arguments %r' % (self.fn.name, sorted(kws)))

        def go(i, acc):
            if i == len(items):
                rec = acc[0] if len(acc) == 1 else '(' + ', '.join(acc) + ')'
                return 'let out_ := out_ ++ [%s] in\n%s' % (rec, self.block(rest, env, k))
            node, t = items[i]
            return self.expr_k(node, t, env, lambda e, _t: go(i + 1, acc + [e]))
        return go(0, [])

    def try_stmt(self, s, env, rest, k):
        # idiom: try: x = next(<genexp>)  except StopIteration: <assignments>
        if (len(s.body) == 1 and isinstance(s.body[0], ast.Assign) and len(s.handlers) == 1
                and isinstance(s.handlers[0].type, ast.Name) and s.handlers[0].type.id == 'StopIteration'
                and not s.orelse and not s.finalbody):
            a = s.body[0]
            v = a.value
            if (isinstance(v, ast.Call) and isinstance(v.func, ast.Name) and v.func.id == 'next'
                    and len(v.args) == 1 and isinstance(v.args[0], ast.GeneratorExp)):
                g = v.args[0]
                if len(g.generators) == 1 and isinstance(g.elt, ast.Name) \
                        and isinstance(g.generators[0].target, ast.Name) \
                        and g.elt.id == g.generators[0].target.id:
                    comp = g.generators[0]
                    x = comp.target.id
                    key = self.target_key(a.targets[0])

                    def with_iter(it, itt):
                        if itt != BYTES:
                            raise Unsupported('next() over %r' % (itt,))
                        env2 = dict(env)
                        env2[x] = Z
                        conds = [self.pure_cond(c, env2) for c in comp.ifs] or ['true']
                        pred = '(fun %s => %s)' % (self.var(x), ' && '.join(conds))
                        env3 = dict(env)
                        env3[key] = Z
                        some = 'let %s := %s in\n%s' % (self.var(key), 'found_', self.block(rest, env3, k))
                        none = self.block(list(s.handlers[0].body) + rest, dict(env), k)
                        return 'match find %s %s with\n| Some found_ =>\n%s\n| None =>\n%s\nend' % (
                            pred, it, indent(some), indent(none))
                    return self.expr_k(comp.iter, BYTES, env, with_iter)
        raise Unsupported('%s: try statement' % self.fn.name)

    # -- loops: state transformers over the set of variables assigned in the body
    def assigned(self, stmts):
        out = []

        def add(x):
            if x not in out:
                out.append(x)
        for s in stmts:
            for n in ast.walk(s):
                if isinstance(n, (ast.Assign, ast.AugAssign)):
                    ts = n.targets if isinstance(n, ast.Assign) else [n.target]
                    for t in ts:
                        for e in (t.elts if isinstance(t, ast.Tuple) else [t]):
                            add(self.target_key(e))
                elif isinstance(n, ast.For):
                    if isinstance(n.target, ast.Name):
                        add(n.target.id)
                elif isinstance(n, ast.Expr) and isinstance(n.value, ast.Call):
                    f = n.value.func
                    if isinstance(f, ast.Attribute) and isinstance(f.value, ast.Name) \
                            and f.attr in ('append', 'reverse', 'extend'):
                        add(f.value.id)
                    if isinstance(f, ast.Name) and f.id in self.fn.sinks:
                        raise Unsupported('%s: sink call inside a loop' % self.fn.name)
                elif isinstance(n, (ast.Return, ast.Break, ast.Continue)):
                    raise Unsupported('%s: return/break/continue inside a loop' % self.fn.name)
        return out

    def loop_common(self, body, env, extra_bound=()):
        mod = [v for v in self.assigned(body) if v in env and v not in extra_bound]
        new_locals = [v for v in self.assigned(body) if v not in env and v not in extra_bound]
        # variables first assigned inside the loop are loop-local: they must not be used after it
        live = [v for v in env if v not in mod]
        return mod, new_locals, live

    def state_tuple(self, mod):
        if not mod:
            return 'tt'
        if len(mod) == 1:
            return self.var(mod[0])
        return '(' + ', '.join(self.var(v) for v in mod) + ')'

    def state_pat(self, mod):
        if not mod:
            return '_'
        if len(mod) == 1:
            return self.var(mod[0])
        return "'(" + ', '.join(self.var(v) for v in mod) + ')'

    def state_type(self, mod, env):
        if not mod:
            return 'unit'
        if len(mod) == 1:
            return coq_type(env[mod[0]])
        return '(' + ' * '.join(coq_type(env[v]) for v in mod) + ')'

    def while_loop(self, s, env, rest, k):
        if s.orelse:
            raise Unsupported('while/else')
        if not self.partial:
            raise Unsupported('internal: while in total function')
        wi = self.while_index[id(s)]
        if wi >= len(self.fn.fuels):
            raise Unsupported('%s: no fuel expression for while-loop #%d' % (self.fn.name, wi + 1))
        fuel = self.fn.fuels[wi]
        mod, new_locals, live = self.loop_common(s.body, env)
        ckey = (id(s), tuple(sorted((k_, repr(v_)) for k_, v_ in env.items())))
        cached = self.loop_cache.get(ckey)
        if cached is not None:
            lname = cached
            allv = live + mod
            call = '%s (%s) %s' % (lname, fuel, ' '.join(self.var(v) for v in allv))
            return 'bind (%s) (fun %s =>\n%s)' % (call, self.state_pat(mod), self.block(rest, env, k))
        self.loop_no += 1
        lname = '%s_loop%d' % (self.fn.name, self.loop_no)
        self.loop_cache[ckey] = lname
        allv = live + mod
        params = ' '.join('(%s : %s)' % (self.var(v), coq_type(env[v])) for v in allv)

        def recurse(env_after):
            for v in mod:
                if env_after.get(v) != env[v]:
                    raise Unsupported('%s: loop variable %s changes type' % (self.fn.name, v))
            return '%s fuel_ %s' % (lname, ' '.join(self.var(v) for v in allv))
        # reserve the aux slot first so nested loops are emitted before this one
        body_txt = self.cond(s.test, env,
                             lambda: self.block(list(s.body), dict(env), recurse),
                             lambda: 'Ok %s' % self.state_tuple(mod))
        self.aux.append('Fixpoint %s (fuel_ : nat) %s {struct fuel_} : res %s :=\n  match fuel_ with\n  | O => Fuel\n'
                        '  | S fuel_ =>\n%s\n  end.\n' % (lname, params, self.state_type(mod, env), indent(body_txt, 4)))
        call = '%s (%s) %s' % (lname, fuel, ' '.join(self.var(v) for v in allv))
        return 'bind (%s) (fun %s =>\n%s)' % (call, self.state_pat(mod), self.block(rest, env, k))

    def for_loop(self, s, env, rest, k):
        if s.orelse or not isinstance(s.target, ast.Name):
            raise Unsupported('for/else or complex target')
        x = s.target.id
        mod, new_locals, live = self.loop_common(s.body, env, extra_bound=(x,))
        ckey = (id(s), tuple(sorted((k_, repr(v_)) for k_, v_ in env.items())))
        cached = self.loop_cache.get(ckey)
        if cached is None:
            self.loop_no += 1
            lname = '%s_loop%d' % (self.fn.name, self.loop_no)
        else:
            lname = cached
        allv = live + mod
        if x in allv:
            allv.remove(x)

        def with_iter(it, itt):
            if not (isinstance(itt, tuple) and itt[0] == 'list'):
                raise Unsupported('for over %r' % (itt,))
            env_b = dict(env)
            env_b[x] = itt[1]
            params = ' '.join('(%s : %s)' % (self.var(v), coq_type(env[v])) for v in allv)

            def recurse(env_after):
                for v in mod:
                    if env_after.get(v) != env[v]:
                        raise Unsupported('%s: loop variable %s changes type' % (self.fn.name, v))
                return '%s xs_ %s' % (lname, ' '.join(self.var(v) for v in allv))
            st = self.state_type(mod, env)
            rt = 'res %s' % st if self.partial else st
            base = ('Ok %s' if self.partial else '%s') % self.state_tuple(mod)
            if cached is None:
                self.loop_cache[ckey] = lname
                body_txt = self.block(list(s.body), env_b, recurse)
                self.aux.append('Fixpoint %s (xs_ : list %s) %s {struct xs_} : %s :=\n  match xs_ with\n'
                            '  | [] => %s\n  | %s :: xs_ =>\n%s\n  end.\n'
                                % (lname, coq_type(itt[1]), params, rt, base, self.var(x), indent(body_txt, 4)))
            call = '%s %s %s' % (lname, it, ' '.join(self.var(v) for v in allv))
            env_r = dict(env)
            if self.partial:
                return 'bind (%s) (fun %s =>\n%s)' % (call, self.state_pat(mod), self.block(rest, env_r, k))
            return 'let %s := %s in\n%s' % (self.state_pat(mod), call, self.block(rest, env_r, k))
        return self.expr_k(s.iter, None, env, with_iter)

    # -- conditions (boolean context, short-circuit preserved by nesting)
    def cond(self, test, env, kt, kf):
        if self.fn.assume:
            src = ast.unparse(test)
            if src in self.fn.assume:
                return kt() if self.fn.assume[src] else kf()
        if isinstance(test, ast.BoolOp):
            vals = list(test.values)
            if isinstance(test.op, ast.And):
                if len(vals) == 1:
                    return self.cond(vals[0], env, kt, kf)
                restop = ast.BoolOp(op=ast.And(), values=vals[1:])
                return self.cond(vals[0], env, lambda: self.cond(restop, env, kt, kf), kf)
            else:
                if len(vals) == 1:
                    return self.cond(vals[0], env, kt, kf)
                restop = ast.BoolOp(op=ast.Or(), values=vals[1:])
                return self.cond(vals[0], env, kt, lambda: self.cond(restop, env, kt, kf))
        if isinstance(test, ast.UnaryOp) and isinstance(test.op, ast.Not):
            return self.cond(test.operand, env, kf, kt)
        return self.expr_k(test, None, env, lambda e, t:
                           'if %s then\n%s\nelse\n%s' % (self.truthy(e, t), indent(kt()), indent(kf())))

    def truthy(self, e, t):
        if t == B:
            return e
        if t == Z:
            return 'negb (%s =? 0)' % e
        if isinstance(t, tuple) and t[0] == 'list':
            return 'negb (py_is_nil %s)' % e
        if isinstance(t, tuple) and t[0] == 'option':
            raise Unsupported('truthiness of option')
        raise Unsupported('truthiness of %r' % (t,))

    def pure_cond(self, test, env):
        """Boolean expression without partial sub-expressions (used inside lambdas)."""
        hoisted = []
        e, t = self.expr(test, None, env, hoisted, boolctx=True)
        if hoisted:
            raise Unsupported('partial expression inside a comprehension condition')
        return self.truthy(e, t)

    # -- expressions.  expr_k hoists partial sub-expressions (left to right) as binds.
    def expr_k(self, node, expected, env, k):
        hoisted = []
        e, t = self.expr(node, expected, env, hoisted)
        e, t = self.coerce(e, t, expected)
        body = k(e, t)
        for (name, rhs) in reversed(hoisted):
            body = 'bind (%s) (fun %s =>\n%s)' % (rhs, name, body)
        return body

    def coerce(self, e, t, expected):
        if expected is None or expected == t:
            return e, t
        if isinstance(expected, tuple) and expected[0] == 'option':
            if e == 'None':
                return e, expected
            if t == expected[1]:
                return '(Some %s)' % e, expected
            if isinstance(t, tuple) and t[0] == 'option':
                return e, expected
        if isinstance(expected, tuple) and expected[0] == 'tuple' and isinstance(t, tuple) and t[0] == 'tuple':
            return e, expected  # components were coerced at construction
        if expected == B and t == Z:
            raise Unsupported('int used where bool expected')
        raise Unsupported('%s: type mismatch: have %r, want %r (%s)' % (self.fn.name, t, expected, e[:60]))

    def hoist(self, hoisted, rhs):
        if not self.partial:
            raise Unsupported('internal: partial expression in a total function')
        n = self.fresh()
        hoisted.append((n, rhs))
        return n

    def const_try(self, node):
        try:
            return self.mod.eval_const(node, self.dcls), True
        except (KeyError, Unsupported, TypeError, ValueError):
            return None, False

    def expr(self, node, expected, env, hoisted, boolctx=False):
        # local variables shadow constants
        if isinstance(node, ast.Name) and node.id in env:
            return self.var(node.id), env[node.id]
        if isinstance(node, ast.Attribute) and isinstance(node.value, ast.Name) and node.value.id == 'self' \
                and ('self.' + node.attr) in env:
            return self.var('self.' + node.attr), env['self.' + node.attr]
        if isinstance(node, ast.Constant) and node.value is None:
            return 'None', (expected if expected else opt(Z))
        if not isinstance(node, ast.Tuple) and not self.mentions_local(node, env):
            # self.X / cls.X constants must dispatch from the receiver class
            v, ok = self.const_try_recv(node)
            if ok and isinstance(v, range):
                # range() over constants: a literal list when short, otherwise the generic py_range translation
                ok = len(v) <= 64
                v = list(v)
            if ok:
                return const_to_coq(v, expected)
        if isinstance(node, ast.Tuple):
            exp_parts = expected[1] if (isinstance(expected, tuple) and expected[0] == 'tuple'
                                        and len(expected[1]) == len(node.elts)) else [None] * len(node.elts)
            parts, types = [], []
            for el, et in zip(node.elts, exp_parts):
                e, t = self.expr(el, et, env, hoisted)
                e, t = self.coerce(e, t, et)
                parts.append(e)
                types.append(t)
            if expected == BYTES:
                return '[' + '; '.join(parts) + ']', BYTES
            return '(' + ', '.join(parts) + ')', tup(*types)
        if isinstance(node, ast.List):
            parts = []
            for el in node.elts:
                e, t = self.expr(el, Z, env, hoisted)
                parts.append(e)
            return '[' + '; '.join(parts) + ']', BYTES
        if isinstance(node, ast.IfExp):
            # both arms must be total
            h1, h2, h3 = [], [], []
            c, ct = self.expr(node.test, None, env, h1, boolctx=True)
            a, at = self.expr(node.body, expected, env, h2)
            a, at = self.coerce(a, at, expected)
            b, bt = self.expr(node.orelse, expected or at, env, h3)
            b, bt = self.coerce(b, bt, expected or at)
            if h1 or h2 or h3:
                raise Unsupported('partial expression inside a conditional expression')
            return '(if %s then %s else %s)' % (self.truthy(c, ct), a, b), at
        if isinstance(node, ast.UnaryOp):
            if isinstance(node.op, ast.Not):
                e, t = self.expr(node.operand, None, env, hoisted, boolctx=True)
                return '(negb %s)' % self.truthy(e, t), B
            e, t = self.expr(node.operand, Z, env, hoisted)
            if t != Z:
                raise Unsupported('unary op on %r' % (t,))
            if isinstance(node.op, ast.USub):
                return '(- %s)' % e, Z
            if isinstance(node.op, ast.Invert):
                return '(Z.lnot %s)' % e, Z
            if isinstance(node.op, ast.UAdd):
                return e, Z
        if isinstance(node, ast.BoolOp):
            parts = []
            hs = []
            for v in node.values:
                h = []
                e, t = self.expr(v, None, env, h, boolctx=True)
                hs.append(h)
                if not boolctx and t != B:
                    raise Unsupported('and/or on non-bool in value context')
                parts.append(self.truthy(e, t))
            if any(hs[1:]):
                raise Unsupported('partial expression after a short-circuit operator in value context')
            hoisted.extend(hs[0])
            op = ' && ' if isinstance(node.op, ast.And) else ' || '
            return '(' + op.join(parts) + ')', B
        if isinstance(node, ast.Compare):
            return self.compare(node, env, hoisted)
        if isinstance(node, ast.BinOp):
            return self.binop(node, env, hoisted)
        if isinstance(node, ast.Subscript):
            return self.subscript(node, env, hoisted)
        if isinstance(node, ast.Call):
            return self.call(node, expected, env, hoisted)
        if isinstance(node, ast.ListComp):
            return self.listcomp(node, env, hoisted)
        raise Unsupported('%s: expression %s' % (self.fn.name, ast.dump(node)[:100]))

    def const_try_recv(self, node):
        """Constant evaluation where self./cls. refer to the receiver class (dynamic dispatch)."""
        try:
            if self.rcls is not None:
                return self._eval_recv(node), True
            return self.mod.eval_const(node, self.dcls), True
        except (KeyError, Unsupported, TypeError, ValueError, AttributeError):
            return None, False

    def _eval_recv(self, node):
        # names resolve in the defining module; self./cls. attributes in the receiver class
        tr = self

        class Ev(object):
            pass
        mod, dcls, rmod, rcls = self.mod, self.dcls, self.rmod, self.rcls

        def ev(n):
            if isinstance(n, ast.Attribute) and isinstance(n.value, ast.Name) and n.value.id in ('self', 'cls'):
                return rmod.class_const(rcls, n.attr)
            if isinstance(n, (ast.Constant, ast.Name)) or (isinstance(n, ast.Attribute)):
                return mod.eval_const(n, dcls)
            if isinstance(n, ast.Tuple):
                return tuple(ev(e) for e in n.elts)
            if isinstance(n, ast.UnaryOp):
                v = ev(n.operand)
                return {ast.USub: lambda: -v, ast.Invert: lambda: ~v, ast.Not: lambda: (not v),
                        ast.UAdd: lambda: v}[type(n.op)]()
            if isinstance(n, ast.BinOp):
                fake = ast.BinOp(left=ast.Constant(ev(n.left)), op=n.op, right=ast.Constant(ev(n.right)))
                return mod.eval_const(fake, dcls)
            if isinstance(n, ast.Call) and isinstance(n.func, ast.Name) and n.func.id in ConstEnv.SAFE_FUNCS:
                args = [ev(a) for a in n.args]
                kw = {k.arg: ev(k.value) for k in n.keywords}
                return ConstEnv.SAFE_FUNCS[n.func.id](*args, **kw)
            raise KeyError('not constant')
        return ev(node)

    def mentions_local(self, node, env):
        for n in ast.walk(node):
            if isinstance(n, ast.Name) and n.id in env:
                return True
            if isinstance(n, ast.Attribute) and isinstance(n.value, ast.Name) and n.value.id == 'self' \
                    and ('self.' + n.attr) in env:
                return True
            if isinstance(n, (ast.Call,)) and not (isinstance(n.func, ast.Name) and n.func.id in ConstEnv.SAFE_FUNCS):
                return True
            if isinstance(n, ast.Constant) and n.value is None:
                return True
        return False

    def compare(self, node, env, hoisted):
        operands = [node.left] + list(node.comparators)
        # evaluate operands once, left to right (chains like a <= x <= b)
        vals = []
        for oi, o in enumerate(operands):
            if isinstance(o, ast.Constant) and o.value is None:
                vals.append(('None', None))
                continue
            hint = BYTES if (oi > 0 and isinstance(node.ops[oi - 1], (ast.In, ast.NotIn))) else None
            e, t = self.expr(o, hint, env, hoisted)
            vals.append((e, t))
        parts = []
        for i, op in enumerate(node.ops):
            (a, ta), (b, tb) = vals[i], vals[i + 1]
            if isinstance(op, (ast.In, ast.NotIn)):
                if tb != BYTES or ta != Z:
                    raise Unsupported('in over %r' % (tb,))
                r = '(py_in %s %s)' % (a, b)
                parts.append(r if isinstance(op, ast.In) else '(negb %s)' % r)
                continue
            if isinstance(op, (ast.Is, ast.IsNot)):
                if b == 'None' and isinstance(ta, tuple) and ta[0] == 'option':
                    r = '(py_is_none %s)' % a
                    parts.append(r if isinstance(op, ast.Is) else '(negb %s)' % r)
                    continue
                raise Unsupported('is/is not')
            if ta == Z and tb == Z:
                sym = {ast.Eq: '=?', ast.NotEq: None, ast.Lt: '<?', ast.LtE: '<=?', ast.Gt: '>?', ast.GtE: '>=?'}
                if isinstance(op, ast.NotEq):
                    parts.append('(negb (%s =? %s))' % (a, b))
                elif type(op) in sym:
                    parts.append('(%s %s %s)' % (a, sym[type(op)], b))
                else:
                    raise Unsupported('comparison op')
                continue
            if ta == B and tb == B and isinstance(op, (ast.Eq, ast.NotEq)):
                r = '(Bool.eqb %s %s)' % (a, b)
                parts.append(r if isinstance(op, ast.Eq) else '(negb %s)' % r)
                continue
            if ta == BYTES and tb == BYTES and isinstance(op, (ast.Eq, ast.NotEq)):
                r = '(py_list_eqb %s %s)' % (a, b)
                parts.append(r if isinstance(op, ast.Eq) else '(negb %s)' % r)
                continue
            raise Unsupported('%s: comparison of %r and %r' % (self.fn.name, ta, tb))
        return ('(' + ' && '.join(parts) + ')' if len(parts) > 1 else parts[0]), B

    def binop(self, node, env, hoisted):
        a, ta = self.expr(node.left, None, env, hoisted)
        b, tb = self.expr(node.right, None, env, hoisted)
        op = node.op
        if ta == Z and tb == Z:
            simple = {ast.Add: '(%s + %s)', ast.Sub: '(%s - %s)', ast.Mult: '(%s * %s)',
                      ast.LShift: '(Z.shiftl %s %s)', ast.RShift: '(Z.shiftr %s %s)',
                      ast.BitAnd: '(Z.land %s %s)', ast.BitOr: '(Z.lor %s %s)', ast.BitXor: '(Z.lxor %s %s)',
                      ast.Pow: '(Z.pow %s %s)'}
            if type(op) in simple:
                return simple[type(op)] % (a, b), Z
            if isinstance(op, (ast.FloorDiv, ast.Mod)):
                fn = 'Z.div' if isinstance(op, ast.FloorDiv) else 'Z.modulo'
                if self.tr._nonzero_const(self.mod, self.dcls, node.right) is not None:
                    return '(%s %s %s)' % (fn, a, b), Z
                pf = 'py_div' if isinstance(op, ast.FloorDiv) else 'py_mod'
                return self.hoist(hoisted, '%s %s %s' % (pf, a, b)), Z
        if isinstance(ta, tuple) and ta[0] == 'list' and ta == tb and isinstance(op, ast.Add):
            return '(%s ++ %s)' % (a, b), ta
        raise Unsupported('%s: binary op %s on %r, %r' % (self.fn.name, type(op).__name__, ta, tb))

    def subscript(self, node, env, hoisted):
        v, tv = self.expr(node.value, None, env, hoisted)
        if not (isinstance(tv, tuple) and tv[0] == 'list'):
            raise Unsupported('subscript of %r' % (tv,))
        sl = node.slice
        if isinstance(sl, ast.Slice):
            if sl.lower is None and sl.upper is None and sl.step is not None:
                st, ok = self.const_try(sl.step)
                if ok and st == -1:
                    return '(rev %s)' % v, tv
            if sl.step is None:
                lo = self.expr(sl.lower, Z, env, hoisted)[0] if sl.lower is not None else None
                hi = self.expr(sl.upper, Z, env, hoisted)[0] if sl.upper is not None else None
                return '(py_slice %s %s %s)' % (v, '(Some %s)' % lo if lo else 'None',
                                                '(Some %s)' % hi if hi else 'None'), tv
            raise Unsupported('slice with step')
        i, ti = self.expr(sl, Z, env, hoisted)
        if ti != Z:
            raise Unsupported('index type')
        if tv[1] != Z:
            raise Unsupported('index into list of %r' % (tv[1],))
        return self.hoist(hoisted, 'py_index %s %s' % (v, i)), Z

    def listcomp(self, node, env, hoisted):
        if len(node.generators) != 1 or node.generators[0].ifs or not isinstance(node.generators[0].target, ast.Name):
            raise Unsupported('comprehension shape')
        g = node.generators[0]
        it, itt = self.expr(g.iter, None, env, hoisted)
        if not (isinstance(itt, tuple) and itt[0] == 'list'):
            raise Unsupported('comprehension over %r' % (itt,))
        env2 = dict(env)
        env2[g.target.id] = itt[1]
        h = []
        e, t = self.expr(node.elt, None, env2, h)
        if h:
            raise Unsupported('partial expression in comprehension')
        return '(map (fun %s => %s) %s)' % (self.var(g.target.id), e, it), lst(t)

    def call(self, node, expected, env, hoisted):
        f = node.func
        nm = self.tr._call_name(node)
        if node.keywords and not all(k.arg for k in node.keywords):
            raise Unsupported('**kwargs call')
        # builtins
        if isinstance(f, ast.Name) and f.id not in env:
            if f.id in ('abs',) and len(node.args) == 1:
                e, t = self.expr(node.args[0], Z, env, hoisted)
                return '(Z.abs %s)' % e, Z
            if f.id in ('min', 'max') and len(node.args) == 2 and not node.keywords:
                a, _ = self.expr(node.args[0], Z, env, hoisted)
                b, _ = self.expr(node.args[1], Z, env, hoisted)
                return '(Z.%s %s %s)' % (f.id, a, b), Z
            if f.id == 'len' and len(node.args) == 1:
                e, t = self.expr(node.args[0], None, env, hoisted)
                if not (isinstance(t, tuple) and t[0] == 'list'):
                    raise Unsupported('len of %r' % (t,))
                return '(Z.of_nat (length %s))' % e, Z
            if f.id == 'int' and len(node.args) == 2:
                # idiom: int(''.join("%02x" % i for i in <bytes>), 16)  ==  big-endian bytes -> integer
                a0, a1 = node.args
                if (isinstance(a1, ast.Constant) and a1.value == 16 and isinstance(a0, ast.Call)
                        and isinstance(a0.func, ast.Attribute) and a0.func.attr == 'join'
                        and isinstance(a0.func.value, ast.Constant) and a0.func.value.value == ''
                        and len(a0.args) == 1 and isinstance(a0.args[0], ast.GeneratorExp)):
                    g = a0.args[0]
                    if (len(g.generators) == 1 and not g.generators[0].ifs and isinstance(g.generators[0].target, ast.Name)
                            and isinstance(g.elt, ast.BinOp) and isinstance(g.elt.op, ast.Mod)
                            and isinstance(g.elt.left, ast.Constant) and g.elt.left.value == '%02x'
                            and isinstance(g.elt.right, ast.Name) and g.elt.right.id == g.generators[0].target.id):
                        e, t = self.expr(g.generators[0].iter, BYTES, env, hoisted)
                        if t != BYTES:
                            raise Unsupported('hex-join idiom over %r' % (t,))
                        # int('', 16) raises ValueError for an empty byte string
                        return self.hoist(hoisted, 'py_be_to_int %s' % e), Z
                raise Unsupported('int(x, base) call shape')
            if f.id == 'int' and len(node.args) == 1:
                e, t = self.expr(node.args[0], None, env, hoisted)
                if t == Z:
                    return e, Z
                if t == B:
                    return '(if %s then 1 else 0)' % e, Z
                raise Unsupported('int() of %r' % (t,))
            if f.id in ('bytes', 'bytearray', 'tuple', 'list'):
                if not node.args:
                    return '[]', (expected if isinstance(expected, tuple) and expected[0] == 'list' else BYTES)
                if len(node.args) == 1:
                    e, t = self.expr(node.args[0], None, env, hoisted)
                    if isinstance(t, tuple) and t[0] == 'list':
                        return e, t
                raise Unsupported('%s() call shape' % f.id)
            if f.id == 'range':
                args = [self.expr(a, Z, env, hoisted)[0] for a in node.args]
                if len(args) == 1:
                    args = ['0', args[0], '1']
                elif len(args) == 2:
                    args = args + ['1']
                if len(args) != 3:
                    raise Unsupported('range arity')
                return '(py_range %s %s %s)' % tuple(args), BYTES
            if f.id == 'bool' and len(node.args) == 1:
                e, t = self.expr(node.args[0], None, env, hoisted, boolctx=True)
                return self.truthy(e, t), B
        # x.bit_length(), int.bit_length(x)
        if isinstance(f, ast.Attribute) and f.attr == 'bit_length':
            if isinstance(f.value, ast.Name) and f.value.id == 'int' and len(node.args) == 1:
                e, t = self.expr(node.args[0], Z, env, hoisted)
                return '(py_bit_length %s)' % e, Z
            if not node.args:
                e, t = self.expr(f.value, Z, env, hoisted)
                if t != Z:
                    raise Unsupported('bit_length of %r' % (t,))
                return '(py_bit_length %s)' % e, Z
        # source call sites: the value read is a parameter of the generated function
        if id(node) in self.source_sites:
            idx, t = self.source_sites[id(node)]
            return 'in_%d' % idx, t
        # record constructors: a tuple of the (positional) arguments
        if nm in self.fn.ctors and isinstance(self.fn.ctors[nm], dict) and (
                (isinstance(f, ast.Name) and f.id not in env) or
                (isinstance(f, ast.Attribute) and isinstance(f.value, ast.Name) and f.value.id not in env)):
            kwspec = self.fn.ctors[nm].get('keywords') or []
            if node.args or sorted(k.arg for k in node.keywords) != sorted(n for (n, _t) in kwspec) or not kwspec:
                raise Unsupported('%s: constructor %s call shape (keywords)' % (self.fn.name, nm))
            kws = {k.arg: k.value for k in node.keywords}
            parts, types = [], []
            for (kn, kt) in kwspec:
                e, t = self.expr(kws[kn], kt, env, hoisted)
                e, t = self.coerce(e, t, kt)
                parts.append(e)
                types.append(kt)
            return '(' + ', '.join(parts) + ')', tup(*types)
        if isinstance(f, ast.Name) and f.id in self.fn.ctors and f.id not in env \
                and not isinstance(self.fn.ctors[f.id], dict):
            types = self.fn.ctors[f.id]
            if node.keywords or len(node.args) != len(types):
                raise Unsupported('%s: constructor %s call shape' % (self.fn.name, f.id))
            parts = []
            for a, at in zip(node.args, types):
                e, t = self.expr(a, at, env, hoisted)
                e, t = self.coerce(e, t, at)
                parts.append(e)
            return '(' + ', '.join(parts) + ')', tup(*types)
        # externs (hand-modelled callees)
        if nm in self.fn.externs:
            cn, atypes, rt, part = self.fn.externs[nm]
            if len(atypes) != len(node.args) or node.keywords:
                raise Unsupported('extern %s arity' % nm)
            args = []
            for a, at in zip(node.args, atypes):
                e, t = self.expr(a, at, env, hoisted)
                e, t = self.coerce(e, t, at)
                args.append(e)
            ctext = '%s %s' % (cn, ' '.join(args)) if args else cn
            if part:
                return self.hoist(hoisted, ctext), rt
            return '(%s)' % ctext, rt
        # translated callees
        callee = self.tr.callee(self.mod, (self.rmod, self.rcls) if self.rcls else None, node)
        if callee is not None:
            if callee.state_out or callee.self_in:
                raise Unsupported('call to stateful method %s' % callee.name)
            typed = [(n, t) for (n, t) in callee.params]
            pos = list(node.args)
            kws = {k.arg: k.value for k in node.keywords}
            args = []
            for i, (pn, pt) in enumerate(typed):
                if i < len(pos):
                    a = pos[i]
                elif pn in kws:
                    a = kws.pop(pn)
                else:
                    raise Unsupported('%s: missing argument %s in call to %s' % (self.fn.name, pn, callee.name))
                if pt is None:
                    continue
                e, t = self.expr(a, pt, env, hoisted)
                e, t = self.coerce(e, t, pt)
                args.append(e)
            if len(pos) > len(typed) or kws:
                raise Unsupported('%s: extra arguments in call to %s' % (self.fn.name, callee.name))
            ctext = '%s %s' % (callee.name, ' '.join(args)) if args else callee.name
            if self.tr.partial[callee.name]:
                return self.hoist(hoisted, ctext), callee.ret
            return '(%s)' % ctext, callee.ret
        raise Unsupported('%s: call %s' % (self.fn.name, ast.dump(node.func)[:80]))


def to_load(t):
    if isinstance(t, ast.Name):
        return ast.Name(id=t.id, ctx=ast.Load())
    if isinstance(t, ast.Attribute):
        return ast.Attribute(value=t.value, attr=t.attr, ctx=ast.Load())
    if isinstance(t, ast.Subscript):
        return ast.Subscript(value=t.value, slice=t.slice, ctx=ast.Load())
    raise Unsupported('augmented assignment target')


def indent(s, n=2):
    return textwrap.indent(s, ' ' * n)


COQ_RESERVED = {'at', 'end', 'in', 'fun', 'match', 'with', 'let', 'if', 'then', 'else', 'return', 'forall',
                'exists', 'fix', 'cofix', 'Type', 'Set', 'Prop', 'as', 'for', 'where', 'using', 'mod', 'val',
                'length', 'rev', 'map', 'find', 'bind', 'res', 'Ok', 'Raise', 'Fuel', 'nth', 'app', 'fuel_',
                'xs_', 'found_', 'tt', 'unit', 'bool', 'true', 'false', 'nat', 'list', 'option', 'Some', 'None',
                'S', 'O', 'Z', 'N', 'fst', 'snd', 'negb', 'andb', 'orb', 'bytes', 'last', 'max', 'min', 'pos',
                'out_', 'ign_'}


def emit_consts(repo, items, header=''):
    """items: (coq name, file, 'NAME' | 'Class.ATTR').  Integer / int-tuple / bytes constants only."""
    cenv = ConstEnv(repo)
    out = ['(* GENERATED by verif/lib/vf/py2coq.py (constants) from the working tree -- do not edit *)', PRELUDE]
    if header:
        out.append(header)
    for (cn, path, ref) in items:
        mod = cenv.module(path)
        try:
            if '.' in ref:
                cls, attr = ref.split('.', 1)
                if cls not in mod.classes:
                    raise KeyError(cls)
                v = mod.class_const(cls, attr)
            else:
                v = mod.lookup_name(ref)
        except KeyError as e:
            raise Unsupported('constant %s (%s) not found: %s' % (ref, path, e))
        if isinstance(v, (set, frozenset)):
            v = sorted(v)
        if isinstance(v, (tuple, list)) and all(isinstance(x, str) for x in v):
            body = '[' + '; '.join('"%s"%%string' % x.replace('"', '""') for x in v) + ']'
            if 'Require Coq.Strings.String.' not in out:
                out.insert(2, 'Require Coq.Strings.String.')
            out.append('Definition %s : list Coq.Strings.String.string := %s.' % (cn, body))
            continue
        e, t = const_to_coq(v)
        out.append('Definition %s : %s := %s.' % (cn, coq_type(t), e))
    return '\n'.join(out) + '\n'
