"""C38: build cqlengine models from a JSON spec, run operations with a recording `execute`, capture routing keys."""
import datetime, decimal, uuid

# cqlengine column class -> (CQL type name, value pool builder)
KEY_TYPES = ['Integer', 'BigInt', 'SmallInt', 'TinyInt', 'VarInt', 'Text', 'Ascii', 'Blob', 'Boolean', 'UUID', 'TimeUUID',
             'Inet', 'Date', 'Time', 'DateTime', 'Decimal', 'Double', 'Float']
_RANGE = {'Integer': 31, 'BigInt': 63, 'SmallInt': 15, 'TinyInt': 7}
_seq = [0]
_installed = [False]
RECORD = []


def install():
    if _installed[0]:
        return
    from vf.impl import import_cluster
    import_cluster()
    from cassandra.cqlengine import query as Q

    class FakeCluster(object):
        protocol_version = 4

    def fake_execute(s, params=None, consistency_level=None, timeout=None, connection=None):
        RECORD.append({'q': str(s.query_string), 'rk': None if s.routing_key is None else list(bytes(s.routing_key)), 'ks': s.keyspace})
        return []
    Q.conn.execute = fake_execute
    Q.conn.get_cluster = lambda connection=None: FakeCluster()
    _installed[0] = True


def gen_value(rng, t):
    if t in _RANGE:
        b = _RANGE[t]
        return ['int', rng.choice([0, 1, -1, 2**b - 1, -2**b, rng.randint(-2**b, 2**b - 1)])]
    if t == 'VarInt':
        return ['int', rng.choice([0, -1, 128, 2**70, rng.randint(-10**25, 10**25)])]
    if t == 'Text':
        return ['str', rng.choice(['a', 'abc', u'\xe9t\xe9', u'€', u'\U0001f600x', 'k' * 40])]
    if t == 'Ascii':
        return ['str', rng.choice(['A', 'key', 'z' * 20])]
    if t == 'Blob':
        return ['bytes', bytes(rng.randrange(256) for _ in range(rng.choice([1, 2, 5, 16, 300]))).hex()]
    if t == 'Boolean':
        return ['bool', rng.random() < 0.5]
    if t in ('UUID', 'TimeUUID'):
        return ['uuid', '%032x' % (rng.getrandbits(128) & ~(0xf << 76) | (1 << 76))]
    if t == 'Inet':
        return ['str', rng.choice(['1.2.3.4', '10.0.0.%d' % rng.randrange(256), '::1', '2001:db8::1'])]
    if t == 'Date':
        return ['date', rng.choice([0, 1, 19000, rng.randrange(0, 40000)])]
    if t == 'Time':
        return ['time', rng.choice([0, 1, rng.randrange(86400 * 10**9)])]
    if t == 'DateTime':
        return ['ts', rng.choice([0, 946684800000, rng.randrange(946684800000, 1900000000000)])]
    if t == 'Decimal':
        return ['dec', rng.choice(['0', '1.10', '-3.14159', '1E+5', '-0.001'])]
    if t == 'Double':
        return ['float', rng.choice([0.0, 1.5, -2.25, 1e300, rng.random()]).hex()]
    if t == 'Float':
        return ['float', rng.choice([0.0, 1.5, -2.25, float(rng.randint(-2**20, 2**20)) / 64]).hex()]
    raise ValueError(t)


def pyval(v):
    if v is None:
        return None
    k, x = v
    if k in ('int', 'str', 'bool'):
        return x
    if k == 'bytes':
        return bytes.fromhex(x)
    if k == 'float':
        return float.fromhex(x)
    if k == 'uuid':
        return uuid.UUID(hex=x)
    if k == 'date':
        return datetime.date(1970, 1, 1) + datetime.timedelta(days=x)
    if k == 'time':
        return datetime.time(x // 3600000000000 % 24, x // 60000000000 % 60, x // 1000000000 % 60, x // 1000 % 1000000)
    if k == 'ts':
        return datetime.datetime(1970, 1, 1) + datetime.timedelta(milliseconds=x)
    if k == 'dec':
        return decimal.Decimal(x)
    raise ValueError(v)


def make_column(d):
    from cassandra.cqlengine import columns
    kw = {}
    if d.get('pk'):
        kw['partition_key'] = True
    if d.get('prim'):
        kw['primary_key'] = True
    if d.get('dbf'):
        kw['db_field'] = d['dbf']
    return getattr(columns, d['type'])(**kw)


def build_model(spec):
    """spec: {'base': [coldef...] | None, 'own': [coldef...]}; coldef = {'name','type','pk','prim','dbf'}"""
    from cassandra.cqlengine.models import Model
    _seq[0] += 1
    base = Model
    if spec.get('mixins'):
        # several abstract mixins; the classes (and their columns) are DEFINED in spec['mixin_def_order'], but LISTED as
        # bases in the order of spec['mixins'] -- column instantiation order then differs from the order cqlengine processes them
        made = {}
        for k in spec['mixin_def_order']:
            attrs = {'__abstract__': True, '__keyspace__': 'ks'}
            for d in spec['mixins'][k]:
                attrs[d['name']] = make_column(d)
            made[k] = type('VMixin%d_%d' % (_seq[0], k), (Model,), attrs)
        attrs = {'__keyspace__': 'ks', '__table_name__': 'tb%d' % _seq[0]}
        for d in spec['own']:
            attrs[d['name']] = make_column(d)
        return type('VModel%d' % _seq[0], tuple(made[k] for k in range(len(spec['mixins']))), attrs)
    if spec.get('base'):
        attrs = {'__abstract__': True, '__keyspace__': 'ks'}
        for d in spec['base']:
            attrs[d['name']] = make_column(d)
        base = type('VBase%d' % _seq[0], (Model,), attrs)
    attrs = {'__keyspace__': 'ks', '__table_name__': 'tb%d' % _seq[0]}
    for d in spec['own']:
        attrs[d['name']] = make_column(d)
    return type('VModel%d' % _seq[0], (base,), attrs)


def all_defs(spec):
    """column definitions in the order ModelMetaClass processes them: inherited (bases in LISTED order), then own"""
    inh = list(spec.get('base') or [])
    for m in spec.get('mixins') or []:
        inh += m
    return inh + spec['own']


def final_columns(spec):
    """name -> coldef that is in effect (own overrides base), in first-declaration order; and the partition key names in table order"""
    order, eff, pk = [], {}, []
    for d in all_defs(spec):
        if d['name'] not in eff:
            order.append(d['name'])
        eff[d['name']] = d
    return order, eff


def serialize_key(model, name, v, pv=4):
    """Cassandra's serialization of the column value: the CQL type named by the column's db_type, applied to the database value"""
    from cassandra.cqltypes import lookup_casstype_simple, _cqltypes
    col = model._columns[name]
    return list(_cqltypes[col.db_type].serialize(col.to_database(pyval(v)), pv))


def run_op(model, op):
    """op: {'kind': create|select|update|delete|save|inst_update|inst_delete, 'where': [[name, opname, value]], 'set': [[name, value]]}
    -> {'stmts': [recorded...], 'err': None | 'ExcName: msg'}"""
    del RECORD[:]
    err = None
    try:
        kind = op['kind']
        if kind == 'create':
            model.create(**dict((n, pyval(v)) for n, v in op['set']))
        elif kind in ('select', 'update', 'delete'):
            qs = model.objects
            for n, o, v in op['where']:
                key = n if o == 'eq' else '%s__%s' % (n, o)
                qs = qs.filter(**{key: [pyval(x) for x in v] if o == 'in' else pyval(v)})
            if kind == 'select':
                list(qs.allow_filtering())
            elif kind == 'update':
                qs.update(**dict((n, pyval(v)) for n, v in op['set']))
            else:
                qs.delete()
        else:
            inst = model(**dict((n, pyval(v)) for n, v in op['set']))
            if kind == 'save':
                inst.save()
            elif kind == 'inst_delete':
                inst.delete()
            else:
                inst.save()
                del RECORD[:]
                for n, v in op['set2']:
                    setattr(inst, n, pyval(v))
                inst.update()
    except Exception as e:
        err = '%s: %s' % (type(e).__name__, str(e)[:160])
    return {'stmts': list(RECORD), 'err': err}


def create_table_pk(model):
    """partition key column names (db names) in the order CREATE TABLE would declare them"""
    import re
    from cassandra.cqlengine.management import _get_create_table
    m = re.search(r'PRIMARY KEY \(\(([^)]*)\)', _get_create_table(model))
    return [x.strip().strip('"') for x in m.group(1).split(',')] if m else None
