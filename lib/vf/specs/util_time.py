"""Translation whitelist for the integer code of cassandra/util.py used by C34.

Time.hour / minute / second / nanosecond   properties over self.nanosecond_time (floor division / modulo by constants)
Time._from_timestamp                       range check + store (self.nanosecond_time is state_out)
uuid_from_time                             only the integer TAIL, from `time_low = intervals & 0xffffffff` on, with
                                           `intervals` as an input and under the assumption that node and clock_seq are
                                           given (the `is None` branches draw random bits: outside the subset).
NOT translated (outside the subset, stated in docs/T_marshal.md): the float prefix of uuid_from_time
(`seconds * 1e6`, `int(time_arg * 1e6)`, `int(microseconds * 10)`), unix_time_from_uuid1 (`/ 1e7` is float division),
Time._from_timestring (time.strptime, str.split), Time._from_time (attributes of a datetime.time), Time.__init__
(isinstance dispatch), datetime/calendar helpers.  uuid.UUID(fields=..., version=1) is a keyword-form record
constructor: the generated function returns ((time_low, time_mid, time_hi_version, clock_seq_hi_variant,
clock_seq_low, node), 1); uuid.UUID itself is hand-modelled in Model/UuidFields.v.
"""
from ..py2coq import Fn, Z, UNIT, tup

U = 'cassandra/util.py'
NT = {'nanosecond_time': ('nanosecond_time', Z)}


def fns():
    return [
        Fn(U, 'Time.hour', 'time_hour', [], Z, self_in=NT),
        Fn(U, 'Time.minute', 'time_minute', [], Z, self_in=NT),
        Fn(U, 'Time.second', 'time_second', [], Z, self_in=NT),
        Fn(U, 'Time.nanosecond', 'time_nanosecond', [], Z, self_in=NT),
        Fn(U, 'Time._from_timestamp', 'time_from_timestamp', [('t', Z)], UNIT, self_in=NT,
           state_out=[('nanosecond_time', Z)]),
        Fn(U, 'uuid_from_time', 'uuid_from_time_tail', [('time_arg', None), ('node', Z), ('clock_seq', Z)],
           tup(tup(Z, Z, Z, Z, Z, Z), Z),
           tail_from='time_low', tail_inputs=[('intervals', Z)],
           assume={'clock_seq is None': False, 'node is None': False},
           ctors={'UUID': {'keywords': [('fields', tup(Z, Z, Z, Z, Z, Z)), ('version', Z)]}}),
    ]


def consts():
    return [('TIME_MICRO', U, 'Time.MICRO'), ('TIME_MILLI', U, 'Time.MILLI'), ('TIME_SECOND', U, 'Time.SECOND'),
            ('TIME_MINUTE', U, 'Time.MINUTE'), ('TIME_HOUR', U, 'Time.HOUR'), ('TIME_DAY', U, 'Time.DAY')]
