P = 'cassandra/policies.py'
I = 'cassandra/__init__.py'
CL = ['ANY', 'ONE', 'TWO', 'THREE', 'QUORUM', 'ALL', 'LOCAL_QUORUM', 'EACH_QUORUM', 'SERIAL', 'LOCAL_SERIAL', 'LOCAL_ONE']
WT = ['SIMPLE', 'BATCH', 'UNLOGGED_BATCH', 'COUNTER', 'BATCH_LOG', 'CAS', 'VIEW', 'CDC']


def items():
    out = [('RETRY', P, 'RetryPolicy.RETRY'), ('RETHROW', P, 'RetryPolicy.RETHROW'), ('IGNORE', P, 'RetryPolicy.IGNORE'),
           ('RETRY_NEXT_HOST', P, 'RetryPolicy.RETRY_NEXT_HOST')]
    out += [('CL_' + n, I, 'ConsistencyLevel.' + n) for n in CL]
    out += [('WT_' + n, I, 'WriteType.' + n) for n in WT]
    return out
