"""Translation whitelist for the integer code of cassandra/segment.py (used by C06).

compute_crc24       nested for-loops over range(); CRC24_INIT / CRC24_POLY are inlined by the translator and also
                    emitted as named constants (consts()) so that the proofs can state laws in terms of them.
SegmentHeader.segment_length, SegmentCodec.encode_header / decode_header: the pure-integer bit layout.
  - `self.compression` (truthiness of compressor and decompressor) and `self.header_length` are inputs (self_in);
    the relation header_length = 5 if compression else 3 is SegmentCodec.header_length, translated separately.
  - encode_header writes through write_uint_le(buffer, value, size=n): a *sink*; the generated function returns the
    trace [(value, n); ...] of those calls.  Hand model of the sink: n little-endian bytes of value.
  - decode_header reads through read_uint_le(buffer, n): a *source*; the values read are parameters in_1 (header
    word) and in_2 (crc) of the generated function.  SegmentHeader(...) is the tuple of its three arguments.
"""
from ..py2coq import Fn, Z, B, UNIT, tup

S = 'cassandra/segment.py'

WRITE_UINT_LE = [(1, 'i', Z, None), (2, 'size', Z, 4)]


def fns():
    return [
        Fn(S, 'compute_crc24', 'compute_crc24', [('data', Z), ('length', Z)], Z),
        Fn(S, 'SegmentHeader.segment_length', 'segment_length', [], Z,
           self_in={'payload_length': ('payload_length', Z),
                    'uncompressed_payload_length': ('uncompressed_payload_length', Z)}),
        Fn(S, 'SegmentCodec.header_length', 'header_length', [], Z, self_in={'compression': ('compression', B)}),
        Fn(S, 'SegmentCodec.header_length_with_crc', 'header_length_with_crc', [], Z,
           self_in={'compression': ('compression', B)}),
        Fn(S, 'SegmentCodec.encode_header', 'encode_header',
           [('buffer', None), ('payload_length', Z), ('uncompressed_length', Z), ('is_self_contained', B)], UNIT,
           self_in={'compression': ('compression', B), 'header_length': ('header_length', Z)},
           sinks={'write_uint_le': WRITE_UINT_LE}),
        Fn(S, 'SegmentCodec.decode_header', 'decode_header', [('buffer', None)], tup(Z, Z, B),
           self_in={'compression': ('compression', B), 'header_length': ('header_length', Z)},
           sources={'read_uint_le': Z}, ctors={'SegmentHeader': [Z, Z, B]}),
    ]


def consts():
    return [('CRC24_INIT', S, 'CRC24_INIT'), ('CRC24_POLY', S, 'CRC24_POLY'), ('CRC24_LENGTH', S, 'CRC24_LENGTH'),
            ('CRC32_LENGTH', S, 'CRC32_LENGTH'),
            ('MAX_PAYLOAD_LENGTH', S, 'Segment.MAX_PAYLOAD_LENGTH'),
            ('COMPRESSED_HEADER_LENGTH', S, 'SegmentCodec.COMPRESSED_HEADER_LENGTH'),
            ('UNCOMPRESSED_HEADER_LENGTH', S, 'SegmentCodec.UNCOMPRESSED_HEADER_LENGTH'),
            ('FLAG_OFFSET', S, 'SegmentCodec.FLAG_OFFSET')]
