"""Translation whitelist for the built-in retry policies (C23, also used by C16)."""
from ..py2coq import Fn, Z, B, opt, tup

P = 'cassandra/policies.py'
DEC = tup(Z, opt(Z))

READ = [('query', None), ('consistency', Z), ('required_responses', Z), ('received_responses', Z),
        ('data_retrieved', B), ('retry_num', Z)]
WRITE = [('query', None), ('consistency', Z), ('write_type', Z), ('required_responses', Z),
         ('received_responses', Z), ('retry_num', Z)]
UNAV = [('query', None), ('consistency', Z), ('required_replicas', Z), ('alive_replicas', Z), ('retry_num', Z)]
REQERR = [('query', None), ('consistency', Z), ('error', None), ('retry_num', Z)]
IGN = lambda ps: [(n, None) for (n, _) in ps]

CLASSES = ['RetryPolicy', 'FallthroughRetryPolicy', 'DowngradingConsistencyRetryPolicy', 'NeverRetryPolicy']


def fns():
    out = [Fn('cassandra/__init__.py', 'ConsistencyLevel.is_serial', 'ConsistencyLevel_is_serial', [('cl', Z)], B),
           Fn(P, 'DowngradingConsistencyRetryPolicy._pick_consistency', 'Downgrading_pick_consistency',
              [('num_responses', Z)], DEC)]
    for cls, short in (('RetryPolicy', 'Default'), ('FallthroughRetryPolicy', 'Fallthrough'),
                       ('DowngradingConsistencyRetryPolicy', 'Downgrading'), ('NeverRetryPolicy', 'Never')):
        for meth, params in (('on_read_timeout', READ), ('on_write_timeout', WRITE), ('on_unavailable', UNAV),
                             ('on_request_error', REQERR)):
            star = cls in ('FallthroughRetryPolicy',) or (cls == 'NeverRetryPolicy' and meth != 'on_request_error')
            out.append(Fn(P, '%s.%s' % (cls, meth), '%s_%s' % (short, meth), IGN(params) if star else params, DEC))
    return out
