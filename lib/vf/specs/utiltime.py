"""Translation whitelist for cassandra.util.Time field arithmetic (C34)."""
from ..py2coq import Fn, Z, UNIT

P = 'cassandra/util.py'
NT = {'nanosecond_time': ('self_nanosecond_time', Z)}


def fns():
    return [Fn(P, 'Time.hour', 'time_hour', [], Z, self_in=NT),
            Fn(P, 'Time.minute', 'time_minute', [], Z, self_in=NT),
            Fn(P, 'Time.second', 'time_second', [], Z, self_in=NT),
            Fn(P, 'Time.nanosecond', 'time_nanosecond', [], Z, self_in=NT),
            Fn(P, 'Time._from_timestamp', 'time_from_timestamp', [('t', Z)], UNIT, self_in=NT,
               state_out=[('nanosecond_time', Z)])]
