from ..py2coq import Fn, Z, B

I = 'cassandra/__init__.py'
PREDS = ['uses_int_query_flags', 'uses_prepare_flags', 'uses_prepared_metadata', 'uses_error_code_map',
         'uses_keyspace_flag', 'has_continuous_paging_support', 'has_continuous_paging_next_pages',
         'has_checksumming_support']


def fns():
    out = [Fn(I, 'ProtocolVersion.get_lower_supported', 'get_lower_supported', [('previous_version', Z)], Z)]
    for p in PREDS:
        out.append(Fn(I, 'ProtocolVersion.' + p, 'pv_' + p, [('version', Z)], B))
    out.append(Fn('cassandra/cluster.py', 'Cluster.protocol_downgrade', 'protocol_downgrade',
                  [('host_endpoint', None), ('previous_version', Z)], 'unit',
                  self_in={'_protocol_version_explicit': ('self__protocol_version_explicit', B),
                           'protocol_version': ('self_protocol_version', Z)},
                  state_out=[('protocol_version', Z)], ignore_calls=['warning']))
    return out


def consts():
    return [('SUPPORTED_VERSIONS', I, 'ProtocolVersion.SUPPORTED_VERSIONS'),
            ('BETA_VERSIONS', I, 'ProtocolVersion.BETA_VERSIONS'),
            ('MIN_SUPPORTED', I, 'ProtocolVersion.MIN_SUPPORTED'),
            ('MAX_SUPPORTED', I, 'ProtocolVersion.MAX_SUPPORTED')] + \
           [('PV_' + n, I, 'ProtocolVersion.' + n) for n in ('V1', 'V2', 'V3', 'V4', 'V5', 'V6', 'DSE_V1', 'DSE_V2')]
