"""Translation whitelist for the integer codecs of cassandra/marshal.py (used by C01/C02)."""
from ..py2coq import Fn, Z, BYTES, tup, lst

M = 'cassandra/marshal.py'


def fns():
    return [
        Fn(M, 'bit_length', 'bit_length', [('n', Z)], Z),
        Fn(M, 'encode_zig_zag', 'encode_zig_zag', [('n', Z)], Z),
        Fn(M, 'decode_zig_zag', 'decode_zig_zag', [('n', Z)], Z),
        Fn(M, 'varint_pack', 'varint_pack', [('big', Z)], BYTES,
           fuels=['S (Z.to_nat (Z.log2 (Z.abs big) + 9))']),
        Fn(M, 'varint_unpack', 'varint_unpack', [('term', BYTES)], Z),
        Fn(M, 'uvint_pack', 'uvint_pack', [('val', Z)], BYTES, fuels=['S (Z.to_nat (Z.log2 (Z.abs val_) + 2))']),
        Fn(M, 'uvint_unpack', 'uvint_unpack', [('bytes', BYTES)], tup(Z, Z)),
        Fn(M, 'vints_pack', 'vints_pack', [('values', BYTES)], BYTES, fuels=['S (Z.to_nat (Z.log2 (Z.abs v) + 2))']),
        Fn(M, 'vints_unpack', 'vints_unpack', [('term', BYTES)], BYTES, fuels=['S (length term)', '9%nat']),
    ]
