from ..py2coq import Fn, Z, BYTES, tup

M = 'cassandra/murmur3.py'


def fns():
    return [
        Fn(M, 'rotl64', 'rotl64', [('x', Z), ('r', Z)], Z),
        Fn(M, 'fmix', 'fmix', [('k', Z)], Z),
        Fn(M, 'truncate_int64', 'truncate_int64', [('x', Z)], Z),
        Fn(M, '_murmur3', 'murmur3_py', [('data', BYTES)], Z,
           externs={'body_and_tail': ('body_and_tail', [BYTES], tup(BYTES, BYTES, Z), False)}),
    ]
