from ..py2coq import Fn, Z, BYTES, tup

M = 'cassandra/murmur3.py'


def fns():
    return [
        Fn(M, 'rotl64', 'rotl64', [('x', Z), ('r', Z)], Z),
        Fn(M, 'fmix', 'fmix', [('k', Z)], Z),
        Fn(M, 'truncate_int64', 'truncate_int64', [('x', Z)], Z),
        Fn(M, '_murmur3', 'murmur3_py', [('data', BYTES)], Z,
           externs={'body_and_tail': ('body_and_tail', [BYTES], tup(BYTES, BYTES, Z), False)}),
    ]


def token_fns():
    """Murmur3Token.hash_fn: `murmur3` is the module-level name bound to cmurmur3.murmur3 or _murmur3
    (cassandra/murmur3.py falls back to _murmur3, so it is never None: assumption recorded here)."""
    return fns() + [
        Fn('cassandra/metadata.py', 'Murmur3Token.hash_fn', 'murmur3_hash_fn', [('key', BYTES)], Z,
           externs={'murmur3': ('murmur3_py', [BYTES], Z, True)}, assume={'murmur3 is not None': True}),
    ]


def bytes_token_fns():
    return [Fn('cassandra/metadata.py', 'BytesToken.hash_fn', 'bytes_hash_fn', [('key', BYTES)], BYTES)]
