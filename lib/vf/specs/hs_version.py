"""Translation whitelist for C47: the protocol-version predicate that decides checksummed framing."""
from ..py2coq import Fn, Z, B


def fns():
    return [Fn('cassandra/__init__.py', 'ProtocolVersion.has_checksumming_support', 'has_checksumming_support',
               [('version', Z)], B)]
