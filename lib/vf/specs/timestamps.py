from ..py2coq import Fn, Z

def fns():
    return [Fn('cassandra/timestamps.py', 'MonotonicTimestampGenerator._next_timestamp', 'next_timestamp',
               [('now', Z), ('last', Z)], Z, self_in={'last': ('self_last', Z)}, state_out=[('last', Z)],
               ignore_calls=['_maybe_warn'])]
