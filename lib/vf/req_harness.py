"""C03 harness: cases (JSON-able dicts) -> real driver messages -> bytes; cases -> Gallina terms of Model/Request.v.

A case:  {'pv':int, 'comp':bool, 'tracing':bool, 'beta':bool, 'stream':int, 'payload':[[key, val|None],...],
          'kind':'QUERY'|..., <fields of the kind>}
Byte strings are stored as hex text, or 'NNxCOUNT' (hex byte repeated) for the large boundary shapes.
Fields the driver receives as `str` are stored as the hex of their UTF-8 encoding (decoded again for the driver).
"""
import re

VERSIONS = [1, 2, 3, 4, 5, 6, 0x41, 0x42]
KINDS = ['STARTUP', 'OPTIONS', 'AUTH_RESPONSE', 'CREDENTIALS', 'QUERY', 'PREPARE', 'EXECUTE', 'BATCH', 'REGISTER',
         'REVISE_REQUEST']


# ------------------------------------------------------------------ byte-string literals
def bj(b):
    """bytes -> JSON text"""
    if len(b) >= 64 and len(set(b)) == 1:
        return '%02xx%d' % (b[0], len(b))
    return b.hex()


def unbj(s):
    m = re.match(r'^([0-9a-f]{2})x(\d+)$', s)
    if m:
        return bytes([int(m.group(1), 16)]) * int(m.group(2))
    return bytes.fromhex(s)


def _lit(b):
    chunks = []
    for i in range(0, len(b), 7):
        ch = b[i:i + 7]
        chunks.append(str(int.from_bytes(ch + b'\x00' * (7 - len(ch)), 'big')))
    return 'ub %d [%s]%%uint63' % (len(b), '; '.join(chunks))


def coq_bytes(b):
    """bytes -> Gallina term of type `bytes` (list Z): 7 bytes per primitive-int literal (elaborates ~40x faster than
    Z or string literals); long runs of one byte become `rep b n`."""
    if not b:
        return '[]'
    parts, i, n = [], 0, len(b)
    lit = bytearray()
    while i < n:
        j = i
        while j < n and b[j] == b[i]:
            j += 1
        if j - i >= 48:
            if lit:
                parts.append(_lit(bytes(lit)))
                lit = bytearray()
            parts.append('rep %d %d' % (b[i], j - i))
        else:
            lit.extend(b[i:j])
        i = j
    if lit:
        parts.append(_lit(bytes(lit)))
    if len(parts) == 1:
        return '(%s)' % parts[0]
    return '(' + ' ++ '.join(parts) + ')'


def zl(v):
    return '(%d)' % v if v < 0 else '%d' % v


def copt(v, f):
    return 'None' if v is None else '(Some %s)' % f(v)


def cbool(b):
    return 'true' if b else 'false'


def clist(l, f):
    return '[' + '; '.join(f(x) for x in l) + ']'


def cval(v):
    if v is None:
        return 'VNull'
    if v == 'UNSET':
        return 'VUnset'
    return '(VBytes %s)' % coq_bytes(unbj(v))


def cb(s):
    return coq_bytes(unbj(s))


def cpair(kv):
    return '(%s, %s)' % (cb(kv[0]), cb(kv[1]))


def cqmsg(c, params, keyspace):
    cpo = c.get('cpo')
    return ('{| q_params := %s; q_cl := %s; q_serial := %s; q_fetch := %s; q_paging_state := %s; q_timestamp := %s; '
            'q_skip_meta := %s; q_cpo := %s; q_keyspace := %s |}' % (
                copt(params, lambda l: clist(l, cval)), zl(c['cl']), copt(c.get('serial'), zl), copt(c.get('fetch'), zl),
                copt(c.get('paging_state'), cb), copt(c.get('timestamp'), zl), cbool(c.get('skip_meta', False)),
                copt(cpo, lambda o: '{| cp_unit_bytes := %s; cp_max_pages := %s; cp_pps := %s; cp_queue := %s |}' % (
                    cbool(o['unit_bytes']), zl(o['max_pages']), zl(o['pps']), zl(o['queue']))),
                copt(keyspace, cb)))


def coq_request(c):
    k = c['kind']
    if k == 'STARTUP':
        return '(Startup %s %s)' % (cb(c['cqlversion']), clist(c['options'], cpair))
    if k == 'OPTIONS':
        return 'Options'
    if k == 'AUTH_RESPONSE':
        return '(AuthResponse %s)' % cb(c['response'])
    if k == 'CREDENTIALS':
        return '(Credentials %s)' % clist(c['creds'], cpair)
    if k == 'QUERY':
        return '(Query %s %s)' % (cb(c['query']), cqmsg(c, None, c.get('keyspace')))
    if k == 'PREPARE':
        return '(Prepare %s %s)' % (cb(c['query']), copt(c.get('keyspace'), cb))
    if k == 'EXECUTE':
        return '(Execute %s %s %s)' % (cb(c['query_id']), copt(c.get('result_metadata_id'), cb), cqmsg(c, c.get('params'), None))
    if k == 'BATCH':
        qs = clist(c['queries'], lambda q: '(BQ %s %s %s)' % (cbool(q[0]), cb(q[1]), clist(q[2], cval)))
        return '(Batch %s %s %s %s %s %s)' % (zl(c['batch_type']), qs, zl(c['cl']), copt(c.get('serial'), zl),
                                              copt(c.get('timestamp'), zl), copt(c.get('keyspace'), cb))
    if k == 'REGISTER':
        return '(Register %s)' % clist(c['events'], cb)
    if k == 'REVISE_REQUEST':
        return '(Revise %s %s %s)' % (zl(c['op_type']), zl(c['op_id']), zl(c['next_pages']))
    raise ValueError(k)


def coq_envelope(c):
    pl = clist(c.get('payload') or [], lambda kv: '(%s, %s)' % (cb(kv[0]), copt(kv[1], cb)))
    return '{| e_tracing := %s; e_payload := %s; e_beta := %s; e_stream := %s |}' % (
        cbool(c.get('tracing')), pl, cbool(c.get('beta')), zl(c.get('stream', 0)))


def coq_check(c, impl):
    """Gallina term `check_case ...` : Z for case c and the implementation's result (bytes or None)."""
    return 'check_case %s %s %s %s %s' % (zl(c['pv']), cbool(c.get('comp')), coq_envelope(c), coq_request(c),
                                          copt(impl, coq_bytes))


# ------------------------------------------------------------------ the real driver
class _BT(object):
    def __init__(self, value):
        self.value = value


def toy_compress(b):
    return b'\x5a' + bytes(reversed(b))


def s_(h):
    return unbj(h).decode('utf8')


def _val(v):
    from cassandra.protocol import _UNSET_VALUE
    if v is None:
        return None
    if v == 'UNSET':
        return _UNSET_VALUE
    return unbj(v)


def build_message(c):
    from cassandra import protocol as P
    from vf.impl import import_cluster
    k = c['kind']
    cpo = None
    if c.get('cpo') is not None:
        CPO = import_cluster().ContinuousPagingOptions
        o = c['cpo']
        cpo = CPO(page_unit=CPO.PagingUnit.BYTES if o['unit_bytes'] else CPO.PagingUnit.ROWS, max_pages=o['max_pages'],
                  max_pages_per_second=o['pps'], max_queue_size=max(2, o['queue']))
        cpo.max_queue_size = o['queue']
    ps = c.get('paging_state')
    ps = None if ps is None else unbj(ps)
    ks = c.get('keyspace')
    ks = None if ks is None else s_(ks)
    if k == 'STARTUP':
        m = P.StartupMessage(cqlversion=s_(c['cqlversion']), options=dict((s_(a), s_(b)) for a, b in c['options']))
    elif k == 'OPTIONS':
        m = P.OptionsMessage()
    elif k == 'AUTH_RESPONSE':
        m = P.AuthResponseMessage(unbj(c['response']))
    elif k == 'CREDENTIALS':
        m = P.CredentialsMessage(dict((s_(a), s_(b)) for a, b in c['creds']))
    elif k == 'QUERY':
        m = P.QueryMessage(s_(c['query']), c['cl'], c.get('serial'), c.get('fetch'), ps, c.get('timestamp'), cpo, ks)
    elif k == 'PREPARE':
        m = P.PrepareMessage(query=s_(c['query']), keyspace=ks)
    elif k == 'EXECUTE':
        params = c.get('params')
        params = None if params is None else [_val(v) for v in params]
        rm = c.get('result_metadata_id')
        m = P.ExecuteMessage(unbj(c['query_id']), params, c['cl'], c.get('serial'), c.get('fetch'), ps, c.get('timestamp'),
                             skip_meta=c.get('skip_meta', False), continuous_paging_options=cpo,
                             result_metadata_id=None if rm is None else unbj(rm))
    elif k == 'BATCH':
        qs = [(q[0], unbj(q[1]) if q[0] else s_(q[1]), [_val(v) for v in q[2]]) for q in c['queries']]
        m = P.BatchMessage(_BT(c['batch_type']), qs, c['cl'], c.get('serial'), c.get('timestamp'), ks)
    elif k == 'REGISTER':
        m = P.RegisterMessage([s_(e) for e in c['events']])
    elif k == 'REVISE_REQUEST':
        m = P.ReviseRequestMessage(c['op_type'], c['op_id'], c['next_pages'])
    else:
        raise ValueError(k)
    m.tracing = bool(c.get('tracing'))
    pl = c.get('payload')
    if pl:
        m.update_custom_payload(dict((s_(a), None if b is None else unbj(b)) for a, b in pl))
    return m


def impl_encode(c):
    """-> (bytes or None, exception class name or None): the real _ProtocolHandler.encode_message"""
    from cassandra.protocol import _ProtocolHandler
    m = build_message(c)
    try:
        return _ProtocolHandler.encode_message(m, c.get('stream', 0), c['pv'], toy_compress if c.get('comp') else None,
                                               bool(c.get('beta'))), None
    except Exception as e:     # any exception = "raised" (mapped to a small enum for the evidence)
        return None, type(e).__name__


# ------------------------------------------------------------------ generators
def H(s):
    return bj(s.encode('utf8') if isinstance(s, str) else s)


STRS = ['', 'a', 'ks', 'system', 'kéy', '\U0001f600x', 'a' * 255, 'b' * 256]
BIG_STRS = ['a' * 65535, 'a' * 65536]
CLS = [0, 1, 4, 6, 10]
SERIALS = [8, 9]
FETCHES = [5000, 1, 2 ** 31 - 1]
TIMESTAMPS = [0, 1, 1600000000000000, 2 ** 63 - 1]
TS_EDGE = [-1, -2 ** 63, 2 ** 63, 2 ** 64 - 1, 2 ** 64, -2 ** 63 - 1]
STREAMS = [0, 1, 127, -1, -128, 128, 300, 32767, -32768, 32768, -32769, -129]


def rbytes(rng, n):
    return bytes(rng.randrange(256) for _ in range(n))


def gen_value(rng, allow_unset=True, big=False):
    r = rng.random()
    if r < 0.15:
        return None
    if r < 0.3 and allow_unset:
        return 'UNSET'
    if r < 0.4:
        return ''
    if big and r < 0.43:
        return bj(b'x' * 70000)
    return bj(rbytes(rng, rng.choice([1, 2, 4, 8, 16, 20])))


def gen_values(rng, pv, big=False):
    n = rng.choice([0, 0, 1, 2, 3, 5])
    return [gen_value(rng, allow_unset=(pv >= 4 or rng.random() < 0.1), big=big) for _ in range(n)]


def gen_envelope(rng, c, plain=0.5):
    pv = c['pv']
    c.update({'comp': False, 'tracing': False, 'beta': False, 'stream': 0, 'payload': []})
    if rng.random() < plain:
        return c
    c['comp'] = rng.random() < 0.3
    c['tracing'] = rng.random() < 0.4
    c['beta'] = rng.random() < 0.3
    c['stream'] = rng.choice(STREAMS) if rng.random() < 0.5 else rng.randrange(0, 128)
    if rng.random() < (0.5 if pv >= 4 else 0.15):
        n = rng.choice([1, 1, 2, 3])
        keys = rng.sample(['k', 'key2', '', 'ké', 'graph-source'], n)
        c['payload'] = [[H(k), rng.choice([None, '', bj(rbytes(rng, rng.choice([1, 3, 9])))])] for k in keys]
    return c


def gen_cpo(rng):
    return {'unit_bytes': rng.random() < 0.3, 'max_pages': rng.choice([0, 1, 4, 2 ** 31 - 1]),
            'pps': rng.choice([0, 3, 100]), 'queue': rng.choice([2, 4, 9])}


def query_like(rng, pv, kind, bits, edge=False):
    """bits: presence of (serial, fetch, paging_state, timestamp, cpo, keyspace[QUERY only])"""
    c = {'pv': pv, 'kind': kind, 'cl': rng.choice(CLS)}
    if bits[0]:
        c['serial'] = rng.choice(SERIALS)
    if bits[1]:
        c['fetch'] = rng.choice(FETCHES)
    if bits[2]:
        c['paging_state'] = bj(rbytes(rng, rng.choice([1, 2, 7, 30])))
    if bits[3]:
        c['timestamp'] = rng.choice(TIMESTAMPS + (TS_EDGE if edge else []))
    if bits[4]:
        c['cpo'] = gen_cpo(rng)
    if kind == 'QUERY':
        c['query'] = H(rng.choice(['SELECT * FROM t', 'a', '', 'INSERT INTO t (k) VALUES (é)']))
        if bits[5]:
            c['keyspace'] = H(rng.choice(STRS))
    else:
        c['query_id'] = bj(rbytes(rng, rng.choice([16, 16, 1, 0])))
        c['params'] = gen_values(rng, pv)
        c['skip_meta'] = rng.random() < 0.3
        if pv >= 5 and pv != 0x41 and rng.random() < 0.95:
            c['result_metadata_id'] = bj(rbytes(rng, rng.choice([16, 16, 0, 3])))
        elif rng.random() < 0.1:
            c['result_metadata_id'] = bj(rbytes(rng, 16))
    return c


def gen_batch(rng, pv, serial, ts, ks, edge=False):
    c = {'pv': pv, 'kind': 'BATCH', 'batch_type': rng.choice([0, 1, 2]), 'cl': rng.choice(CLS), 'queries': []}
    for _ in range(rng.choice([0, 1, 1, 2, 3])):
        if rng.random() < 0.5:
            c['queries'].append([False, H(rng.choice(['INSERT INTO t (k) VALUES (?)', 'q', 'UPDATE t SET v=é'])), gen_values(rng, pv)])
        else:
            c['queries'].append([True, bj(rbytes(rng, rng.choice([16, 16, 2]))), gen_values(rng, pv)])
    if serial:
        c['serial'] = rng.choice(SERIALS)
    if ts:
        c['timestamp'] = rng.choice(TIMESTAMPS + (TS_EDGE if edge else []))
    if ks is not None:
        c['keyspace'] = H(ks)
    return c


def gen_simple(rng, pv, kind):
    c = {'pv': pv, 'kind': kind}
    if kind == 'STARTUP':
        c['cqlversion'] = H(rng.choice(['3.0.0', '3.4.5', '']))
        opts = [['DRIVER_NAME', 'DataStax Python Driver'], ['DRIVER_VERSION', '3.29.0']]
        if rng.random() < 0.5:
            opts.append(['COMPRESSION', rng.choice(['lz4', 'snappy'])])
        if rng.random() < 0.3:
            opts.append(['NO_COMPACT', 'true'])
        if rng.random() < 0.2:
            opts.insert(rng.randrange(len(opts) + 1), ['CQL_VERSION', '9.9.9'])
        if rng.random() < 0.2:
            opts = []
        c['options'] = [[H(a), H(b)] for a, b in opts]
    elif kind == 'AUTH_RESPONSE':
        c['response'] = bj(rng.choice([b'', b'\x00user\x00pass', rbytes(rng, 40)]))
    elif kind == 'CREDENTIALS':
        c['creds'] = [[H(a), H(b)] for a, b in rng.choice([[], [['username', 'u'], ['password', 'pé']]])]
    elif kind == 'PREPARE':
        c['query'] = H(rng.choice(['SELECT * FROM t WHERE k=?', '', 'x']))
    elif kind == 'REGISTER':
        evs = ['TOPOLOGY_CHANGE', 'STATUS_CHANGE', 'SCHEMA_CHANGE']
        c['events'] = [H(e) for e in rng.sample(evs, rng.choice([0, 1, 2, 3]))]
    elif kind == 'REVISE_REQUEST':
        c['op_type'] = rng.choice([1, 2, 2, 3])
        c['op_id'] = rng.choice([0, 1, 77, 32767, -1])
        c['next_pages'] = rng.choice([0, 1, 5, -1, 2 ** 31 - 1])
    return c


def option_names(c):
    """present optional parts of a case (for keys, distribution, the non-triviality rule)"""
    out = [n for n in ('serial', 'fetch', 'paging_state', 'timestamp', 'cpo', 'keyspace', 'result_metadata_id')
           if c.get(n) is not None]
    if c.get('payload'):
        out.append('payload')
    for n in ('tracing', 'beta', 'comp'):
        if c.get(n):
            out.append(n)
    return out
