"""Drive a REAL cassandra.connection.Connection (no socket), a REAL HostConnection (fake session/host), REAL
ResponseFuture._query/_on_timeout fragments and the REAL ConnectionHeartbeat.run body, one model step at a time.

A history is a list of actions; an action may carry nested actions that are executed at the points where the source
really is outside every lock (inside a callback, between send_msg's flag tests and its registration, between
_on_timeout's pop and its orphan region, ...): that is how another thread's steps are interleaved deterministically.
After EVERY model step the observable state of the real object is snapshotted (a "check point"); the model is run over
the same op list inside Coq and compared at each point (lib/vf/conn_corr.py).
"""
import struct, threading
from collections import deque
from threading import Lock, Event

from vf.impl import import_cluster

cluster_mod = import_cluster()
import cassandra.connection as cconn
from cassandra.connection import (Connection, ConnectionShutdown, ConnectionBusy, ConnectionException, HeartbeatFuture,
                                  ConnectionHeartbeat)
from cassandra.pool import HostConnection, NoConnectionsAvailable
from cassandra.policies import HostDistance
from cassandra.cluster import ResponseFuture
from cassandra.protocol import QueryMessage, ProtocolHandler, ErrorMessage
from cassandra import OperationTimedOut


def frame(stream, opcode, body, version=4):
    if version >= 3:
        return struct.pack('>BBhBi', 0x80 | version, 0, stream, opcode, len(body)) + body
    return struct.pack('>BBbBi', 0x80 | version, 0, stream, opcode, len(body)) + body      # v1/v2: one-byte stream id


def body_for(d):
    if d == 'DFail':
        return 0x08, b''                                  # RESULT without a kind: decoder raises
    if d == 'DProto':
        msg = b'bad'
        return 0x00, struct.pack('>iH', 0x000A, len(msg)) + msg   # ERROR ProtocolException
    if d == 'DErr':
        msg = b'boom'
        return 0x00, struct.pack('>iH', 0x0000, len(msg)) + msg   # ERROR ServerError
    if d == 'DSupported':
        st = lambda x: struct.pack('>H', len(x)) + x
        return 0x06, (struct.pack('>H', 2) + st(b'CQL_VERSION') + struct.pack('>H', 1) + st(b'3.4.5')
                      + st(b'COMPRESSION') + struct.pack('>H', 0))
    if d in ('CpPage', 'CpLast'):
        fl = 0x40000000 | (0x80000000 if d == 'CpLast' else 0)
        st = lambda x: struct.pack('>H', len(x)) + x
        # ROWS, flags (global table spec), colcount 1, paging seq, ks, table, column name, type int, rowcount 0
        return 0x08, (struct.pack('>iIii', 2, fl | 0x0001, 1, 1) + st(b'ks') + st(b't') + st(b'c') + struct.pack('>H', 9)
                      + struct.pack('>i', 0))
    return 0x08, struct.pack('>i', 1)                     # RESULT void


MODEL_DEC = {'DOk': 'DOk', 'DFail': 'DFail', 'DProto': 'DProto', 'DErr': 'DOk', 'DSupported': 'DOk', 'CpPage': 'DOk',
             'CpLast': 'DLast'}


class FakeHost(object):
    def __init__(self):
        self.endpoint = cconn.DefaultEndPoint('127.0.0.1')
        self.address = '127.0.0.1'
        self.is_up = True

    def __str__(self):
        return 'fakehost'


class FakeCluster(object):
    connect_to_remote_hosts = True

    def __init__(self, h):
        self.h = h
        self.downs = 0
        self.failures = 0
        self.connection_class = None
        self.control_connection = None

    def connection_factory(self, endpoint, on_orphaned_stream_released=None):
        return self.h._make_conn(on_orphaned_stream_released)

    raise_once = False

    def signal_connection_failure(self, host, exc, is_host_addition=False):
        self.failures += 1
        if self.raise_once:
            # e.g. the executor / scheduler behind Cluster.signal_connection_failure is shutting down, or a listener throws
            self.raise_once = False
            raise RuntimeError('signal_connection_failure raised (executor shutting down)')
        return False

    def on_down(self, host, is_host_addition=False):
        self.downs += 1


class HookPools(dict):
    """session._pools: ResponseFuture._on_timeout reads it between its pop and its orphan region"""
    def __init__(self, h):
        dict.__init__(self)
        self.h = h

    def get(self, k, default=None):
        return self.h._on_pools_get(dict.get(self, k, default))


class FakeSession(object):
    keyspace = None
    row_factory = None

    def __init__(self, h):
        self.cluster = FakeCluster(h)
        self._pools = HookPools(h)
        self.submitted = []

    def submit(self, fn, *a, **kw):
        self.submitted.append((fn, a, kw))
        return (fn, a, kw)          # a live session returns a task handle (None means: shut down, nothing will run)


class SyncThread(object):
    """stands for threading.Thread inside cassandra.connection when the error-callback thread branch is exercised:
    runs the target at start() so that the history stays deterministic"""
    def __init__(self, target=None, name=None, args=(), kwargs=None):
        self.target, self.args, self.kwargs, self.daemon = target, args, kwargs or {}, True

    def start(self):
        self.target(*self.args, **self.kwargs)


def make_conn_class():
    class NoSockConnection(Connection):
        h = None

        # --- hook points: attributes the source reads exactly where it is outside every lock ---
        @property
        def _requests(self):
            h = self.h
            if h is not None:
                h._on_requests_read()
            return self.__dict__['_requests_real']

        @_requests.setter
        def _requests(self, v):
            self.__dict__['_requests_real'] = v

        @property
        def _socket_writable(self):
            h = self.h
            if h is not None:
                h._on_writable_read()
            return self.__dict__['_sw_real']

        @_socket_writable.setter
        def _socket_writable(self, v):
            self.__dict__['_sw_real'] = v

        @property
        def max_request_id(self):
            h = self.h
            if h is not None:
                h._on_maxid_read()
            return self.__dict__['_mri_real']

        @max_request_id.setter
        def max_request_id(self, v):
            self.__dict__['_mri_real'] = v

        @property
        def in_flight(self):
            h = self.h
            v = self.__dict__.get('_inf_real', 0)          # the value this thread has read ...
            if h is not None and h.inflight_hook is not None:
                h._on_inflight_read(self)                   # ... then another thread runs, if no lock keeps it out
            return v

        @in_flight.setter
        def in_flight(self, v):
            self.__dict__['_inf_real'] = v

        def push(self, data):
            self.h.pushed += 1
            self.h._on_push(self)

        def close(self):
            # the pattern shared by every reactor's close() (asyncore, libev, asyncio, twisted, gevent, eventlet);
            # lib/vf/conn_audit.py checks the reactors still follow it
            h = self.h
            h._before_close()
            with self.lock:
                already = self.is_closed
                if not already:
                    self.is_closed = True
            h._after_close_flag()
            if already:
                return
            if not self.is_defunct:
                self.error_all_requests(ConnectionShutdown("Connection to %s was closed" % self.endpoint))
                self.connected_event.set()

        def send_msg(self, msg, request_id, cb, *a, **kw):
            return self.h._send_msg(self, msg, request_id, cb, a, kw)

        def process_msg(self, header, body):
            return self.h._process_msg(self, header, body)

        def defunct(self, exc):
            return self.h._defunct(self, exc)

        def error_all_cp_sessions(self, exc):
            r = Connection.error_all_cp_sessions(self, exc)
            self.h.emit('ErrCp')
            self.h.checkpoint()
            return r

        def error_all_requests(self, exc):
            return self.h._error_all_requests(self, exc)

        def get_request_id(self):
            self.h._on_get_request_id(self)
            rid = Connection.get_request_id(self)
            self.h._after_get_request_id(rid)
            return rid

        def reset_idle(self):
            h = self.h
            Connection.reset_idle(self)
            if h is not None:
                h.inflight_hook = None
            if h is not None and h.in_hb_round:
                if h.hb_waited_ok:
                    h.hb_waited_ok = False
                    h.owed_tokens.discard(h.hb_tok)
                    h.emit('HbDone')
                else:
                    h.emit('HbSkipBusy')
                h.checkpoint()

    return NoSockConnection


class HPool(HostConnection):
    h = None

    def return_connection(self, connection, stream_was_orphaned=False):
        h = self.h
        if h.busy_pending is not None:
            i, h.busy_pending = h.busy_pending, None
            if i in connection.request_ids:
                h.emit('IdRelease %d' % i)
        if not stream_was_orphaned:
            notify = h.in_hb_notify and not h.cb_stack      # called by ConnectionHeartbeat.run itself, not by a request's handler
            h.emit('OwnerReturn' if notify else 'ReturnConn')
            if notify:
                h.event([12])
        try:
            return HostConnection.return_connection(self, connection, stream_was_orphaned)
        finally:
            h.checkpoint()


class Harness(object):
    def __init__(self, n_init=4, max_in_flight=4, thr=2, thread_threshold=None, control=False, protocol_version=4):
        self.n_init, self.mif, self.thr = n_init, max_in_flight, thr
        self.control, self.protocol_version = control, protocol_version
        self.raising = set()              # handlers that raise when they are told about the connection failure
        self.prepare_delivered = []
        self.auto_tok = 5000
        self.points = []
        self.pending = []
        self.events = []
        self.pushed = 0
        self.pm = None
        self.in_nested = 0
        self.send_hook = None
        self.to_ctx = None
        self.defunct_depth = 0
        self.swap_emitted = True
        self.in_hb_notify = False
        self.atomic_send = False
        self.next_token = None
        self.feeding = None
        self.maxid_hook = None
        self.unlocked_getid = []          # call sites that called get_request_id without holding the lock
        self.getid_site = None
        self.tokens = {}                  # token -> dict(id=, fut=, kind=)
        self.cb_counts = {}               # token -> [deliveries, excs, shutdowns]
        self.held = {}                    # token -> id (borrowed, not yet sent)
        self.wire = []                    # streams with a request the server has not answered yet (FIFO per stream)
        self.cp_sessions = {}             # stream -> (sess token, session)
        self.cp_events = {}               # sess token -> [pages, errors]
        self.problems = []                # harness-level surprises (exceptions escaping the real code)
        self.misrouted = []               # (stream, callback token, token of the request the response answers)
        self.owed_tokens = set()          # callbacks invoked / sends refused whose in_flight unit is not yet handed back
        self.cb_stack = []
        self._borrow_stack = []
        self.nonbenign = False
        self.in_query = False
        self.quiescent_points = []
        self.race_exercised = False
        self.in_push_hook = 0
        self.wfr_ctx = None
        self.wfr_results = []             # (responses returned by wait_for_responses, stream ids the messages were sent on)
        self.foreign_drops = []           # (timed-out request, stream, token of the foreign handler it removed)
        self.inflight_hook = None
        self.traffic = False              # a frame was processed since the last heartbeat round
        self.hb_race_ran = 0
        self.hb_stale_waits = 0
        self.hb_early_wakes = 0
        self.in_hb_round = False
        self.hb_waited_ok = False
        self.hb_seq = 0
        self.hb_tok = None
        self.Conn = make_conn_class()
        self.Conn.h = None
        self.session = FakeSession(self)
        self.host = FakeHost()
        self.thread_threshold = thread_threshold
        HPool.h = self
        self.pool = HPool(self.host, HostDistance.LOCAL, self.session)
        self.pool.h = self
        self.conn = self.pool._connection
        self.session._pools[self.host] = self.pool
        self.pool_live = True
        self.checkpoint_enabled = True
        self.points.append(([], self.snap()))      # the state the REAL constructor produced

    # ------------------------------------------------------------------ construction
    def _make_conn(self, on_released):
        C = self.Conn
        c = C.__new__(C)
        c.h = None
        if self.mif is not None:
            c.max_in_flight = self.mif
        # the REAL constructor builds the free-id deque / highest_request_id / max_request_id
        Connection.__init__(c, host='127.0.0.1', protocol_version=self.protocol_version, on_orphaned_stream_released=on_released)
        real = list(c.request_ids)
        if self.n_init is not None and self.n_init < len(real):
            # start from fewer pre-allocated ids (so that the grow path is reached with few requests): keep the first
            # n_init ids and keep the constructor's own relation between the deque and highest_request_id
            drop = len(real) - self.n_init
            c.request_ids = deque(real[:self.n_init])
            c.highest_request_id = c.highest_request_id - drop
        self.n_init_eff = len(c.request_ids)
        if self.thr is not None:
            c.orphaned_threshold = self.thr
        self.thr_eff = c.orphaned_threshold
        c.is_control_connection = self.control
        c.h = self
        return c

    def model_init(self):
        return '(init %d %d %d)' % (self.n_init_eff, self.conn.__dict__['_mri_real'], self.thr_eff)

    # ------------------------------------------------------------------ recording
    def emit(self, *ops):
        self.pending.extend(ops)

    def event(self, code):
        self.events.append(list(code))

    def snap(self):
        c = self.conn
        return {'free': list(c.request_ids), 'highest': c.highest_request_id,
                'reqs': sorted(c.__dict__['_requests_real'].keys()), 'orphans': sorted(c.orphaned_request_ids),
                'in_flight': c.in_flight, 'thr': bool(c.orphaned_threshold_reached), 'defunct': bool(c.is_defunct),
                'closed': bool(c.is_closed), 'msg': bool(c.msg_received),
                'cps': sorted(c._continuous_paging_sessions.keys()),
                'events': [list(e) for e in self.events], 'held': sorted(self.held.values())}

    def checkpoint(self):
        if not self.pending:
            return
        self.points.append((self.pending, self.snap()))
        self.pending = []

    def nested(self, actions):
        if not actions:
            return
        if self.conn.lock._is_owned():
            self.problems.append('nested actions requested while the connection lock is held')
            return
        self.in_nested += 1
        try:
            for a in actions:
                self.do(a)
        finally:
            self.in_nested -= 1

    # ------------------------------------------------------------------ callbacks handed to the real code
    def make_cb(self, tok, inner, nested_in_cb):
        h = self

        def cb(resp):
            cnt = h.cb_counts.setdefault(tok, [0, 0, 0])
            pm = h.pm
            if isinstance(resp, ConnectionShutdown):
                if not h.swap_emitted:
                    h.emit('ErrSwap')
                    h.swap_emitted = True
                h.emit('ErrCall')
                h.event([3, tok])
                cnt[2] += 1
            elif pm is not None and not pm['popped']:
                pm['popped'] = True
                if isinstance(resp, Exception) and not isinstance(resp, ErrorMessage):
                    h.emit('RecvPop %d DFail' % pm['i'])
                    h.event([2, tok])
                    cnt[1] += 1
                elif pm['proto']:
                    h.emit('RecvDeliver')
                    h.event([1, pm['i'], tok])
                    pm['delivered'] = True
                    cnt[0] += 1
                else:
                    h.emit('RecvPop %d %s' % (pm['i'], pm['d']))
                    h.event([1, pm['i'], tok])
                    pm['delivered'] = True
                    cnt[0] += 1
            else:
                h.problems.append('callback %r invoked outside any modelled step with %r' % (tok, resp))
                return
            if cnt[0] and h.answering is not None and not (isinstance(resp, Exception) and not isinstance(resp, ErrorMessage)) and h.answering != tok and cnt[2] == 0:
                h.misrouted.append((pm['i'] if pm else -1, tok, h.answering))
            h.owed_tokens.add(tok)
            h.checkpoint()
            saved, h.pm = h.pm, (dict(h.pm, frozen=True) if h.pm else None)
            h.cb_stack.append(tok)
            if h.tokens.get(tok, {}).get('kind') == 'prepare':
                h.prepare_delivered.append(tok)
            try:
                if inner is not None:
                    try:
                        inner(resp)
                    except Exception as e:      # process_msg would swallow it ("Callback handler errored"): never silently
                        h.problems.append('the driver-side callback of request %r raised %r' % (tok, e))
                        raise
                if h.tokens.get(tok, {}).get('kind') == 'wfr':
                    # ResponseWaiter.got_response: `with self.connection.lock: self.connection.in_flight -= 1`
                    h.emit('ReturnConn')
                    h.owed_tokens.discard(tok)
                    h.checkpoint()
                h.nested(nested_in_cb)
            finally:
                h.cb_stack.pop()
                h.pm = saved
            if tok in h.raising and isinstance(resp, (ConnectionShutdown, ErrorMessage)):
                # (a user errback that throws: also when it is handed the server's error message, e.g. the ProtocolException)
                raise RuntimeError('handler %r raises when told about the failure' % (tok,))
        cb.tok = tok
        return cb

    # ------------------------------------------------------------------ hooks called from the real code
    def _on_requests_read(self):
        pm = self.pm
        if pm is not None and not pm.get('frozen') and not pm['begun_done']:
            pm['begun_done'] = True
            self.checkpoint()
            saved, self.pm = self.pm, dict(pm, frozen=True)
            try:
                self.nested(pm['nested'].get('begun'))
            finally:
                self.pm = saved

    def _on_writable_read(self):
        sh = self.send_hook
        if sh is not None and not sh['done']:
            sh['done'] = True
            if self.conn.__dict__['_sw_real'] and not self.atomic_send:
                self.emit('SendCheck %d' % sh['id'])
                sh['check_emitted'] = True
                self.checkpoint()
                self.send_hook = None
                try:
                    self.nested(sh['nested'])
                finally:
                    self.send_hook = sh

    def _on_push(self, conn):
        """the message is on the wire: the node may answer before the sending thread executes its next statement"""
        sh = self.send_hook
        if sh is None or not sh['nested_push'] or self.atomic_send or self.pm is not None or conn.lock._is_owned():
            return
        i, tok = sh['id'], sh['tok']
        if i in conn.__dict__['_requests_real']:
            sh['reg_emitted'] = True          # send_msg registered the handler before it pushed (the order the model assumes)
            self.emit('SendReg %d %d' % (i, tok))
            self.event([0, i, tok])
        sh['on_wire'] = True
        self.wire.append((i, tok))
        self.tokens.setdefault(tok, {})['id'] = i
        self.checkpoint()
        self.send_hook = None
        self.in_push_hook += 1
        try:
            self.nested(sh['nested_push'])
        finally:
            self.in_push_hook -= 1
            self.send_hook = sh

    def _on_inflight_read(self, conn):
        ih, self.inflight_hook = self.inflight_hook, None
        if conn.lock._is_owned():
            return          # the reader holds the lock: a borrower's locked increment cannot run here
        # another thread (a borrower) runs its locked region between this read and the following write
        self.hb_race_ran += 1
        for a in ih['nested']:
            self.do(a)

    def _on_maxid_read(self):
        mh = self.maxid_hook
        if mh is not None and not mh['done'] and mh.get('armed'):
            mh['done'] = True
            if not self.conn.lock._is_owned():
                self.maxid_hook = None
                mh['ran'] = True
                for a in mh['nested']:
                    self.do(a)

    def _on_get_request_id(self, conn):
        w = self.wfr_ctx
        if w is not None and self.getid_site == 'wait_for_responses' and not w['round_open']:
            w['round_open'] = True
            self.emit('WaitIds %d' % (w['n'] - len(w['sent'])))
        if not conn.lock._is_owned():
            self.unlocked_getid.append(self.getid_site or 'unknown')
        mh = self.maxid_hook
        if mh is not None:
            mh['armed'] = True

    def _after_get_request_id(self, rid):
        w = self.wfr_ctx
        if w is not None and self.getid_site == 'wait_for_responses':
            self.event([8, rid])

    def _on_pools_get(self, pool):
        tc = self.to_ctx
        if tc is not None and not tc['fired']:
            tc['fired'] = True
            self.emit('TimeoutPop %d %s' % (tc['i'], 'true' if tc['live'] else 'false'))
            self.event([14, tc['tok']])
            self.checkpoint()
            self.to_ctx = None
            try:
                self.nested(tc['nested'])
            finally:
                self.to_ctx = tc
            return pool if tc['live'] else None
        return pool

    def _send_msg(self, conn, msg, request_id, cb, a, kw):
        tok = self.next_token
        if tok is None:
            self.auto_tok += 1
            tok = self.auto_tok
            self.tokens[tok] = {'kind': 'wfr' if self.wfr_ctx is not None else 'auto'}
            if self.wfr_ctx is not None:
                self.wfr_ctx['round_open'] = False
                self.wfr_ctx['sent'].append((request_id, tok))
        nested_cb = self.next_nested_cb
        self.next_token = None
        wrapped = self.make_cb(tok, cb, nested_cb)
        if self.atomic_send or self.getid_site == 'set_keyspace_async':
            self.event([8, request_id])
        sh = {'id': request_id, 'tok': tok, 'done': False, 'nested': self.next_nested_send or [], 'check_emitted': False,
              'nested_push': self.next_nested_push or [], 'reg_emitted': False, 'on_wire': False}
        self.next_nested_send = None
        self.next_nested_push = None
        self.send_hook = sh
        self.held.pop(tok, None)
        try:
            n = Connection.send_msg(conn, msg, request_id, wrapped, *a, **kw)
        except ConnectionShutdown:
            self.send_hook = None
            if not self.atomic_send:
                if not sh['check_emitted']:
                    self.emit('SendCheck %d' % request_id)
                    self.event([6, request_id])
                    if not self.in_query:
                        self.owed_tokens.add(tok)
                else:   # the flags changed between the tests and ... cannot happen: the tests come first
                    self.problems.append('ConnectionShutdown after the flag tests passed')
            else:
                self.event([6, request_id])
            raise
        except ConnectionBusy:
            self.send_hook = None
            if not self.atomic_send:
                self.emit('SendCheck %d' % request_id)
            self.event([7, request_id])
            if self.in_query:
                self.busy_pending = request_id
            else:
                self.nonbenign = True
            raise
        self.send_hook = None
        if not sh['reg_emitted']:
            if not self.atomic_send:
                self.emit('SendReg %d %d' % (request_id, tok))
            self.event([0, request_id, tok])
        if not sh['on_wire']:
            self.wire.append((request_id, tok))
        self.tokens.setdefault(tok, {})['id'] = request_id
        return n

    next_nested_cb = None
    next_nested_push = None
    busy_pending = None
    answering = None
    next_nested_send = None

    def _process_msg(self, conn, header, body):
        self.traffic = True
        if header.stream < 0:
            self.emit('RecvPush')
            try:
                return Connection.process_msg(conn, header, body)
            finally:
                self.checkpoint()
        f = self.feeding or {'d': 'DOk', 'nested': {}}
        outer = self.pm
        self.pm = {'i': header.stream, 'd': MODEL_DEC[f['d']], 'popped': False, 'proto': False, 'delivered': False,
                   'begun_done': False, 'nested': f.get('nested') or {}}
        self.emit('RecvBegin %d' % header.stream)
        if header.stream in conn._continuous_paging_sessions:
            self.pm['begun_done'] = True
        try:
            Connection.process_msg(conn, header, body)
        finally:
            pm, self.pm = self.pm, outer
            if not pm['popped']:
                self.emit('RecvPop %d %s' % (pm['i'], pm['d']))
            elif pm['delivered']:
                self.emit('RecvEnd')
            self.checkpoint()

    def _defunct(self, conn, exc):
        pm = self.pm
        if pm is not None and not pm.get('frozen') and not pm['popped'] and not pm['proto'] and pm['begun_done']:
            pm['proto'] = True
            self.emit('RecvPop %d DProto' % pm['i'])
            self.checkpoint()
        was = conn.is_defunct or conn.is_closed
        self.defunct_depth += 1
        self.defunct_pending = not was
        try:
            r = Connection.defunct(conn, exc)
        finally:
            self.defunct_depth -= 1
        if was:
            self.emit('DefunctFlag')
            self.checkpoint()
        return r

    defunct_pending = False

    def _before_close(self):
        if self.defunct_pending:
            self.defunct_pending = False
            self.emit('DefunctFlag')
            self.checkpoint()
            self.nested(self.next_nested_defunct)
            self.next_nested_defunct = None

    next_nested_defunct = None

    def _after_close_flag(self):
        self.emit('Close')
        self.checkpoint()

    def _error_all_requests(self, conn, exc):
        saved = self.swap_emitted
        self.swap_emitted = False
        old_thread, old_thr = cconn.Thread, Connection.CALLBACK_ERR_THREAD_THRESHOLD
        if self.thread_threshold is not None:
            cconn.Thread = SyncThread
            Connection.CALLBACK_ERR_THREAD_THRESHOLD = self.thread_threshold
        try:
            r = Connection.error_all_requests(conn, exc)
        finally:
            cconn.Thread, Connection.CALLBACK_ERR_THREAD_THRESHOLD = old_thread, old_thr
            if not self.swap_emitted:
                self.emit('ErrSwap')
            self.swap_emitted = saved
            self.checkpoint()
        return r

    # ------------------------------------------------------------------ actions
    def new_future(self):
        rf = ResponseFuture.__new__(ResponseFuture)
        rf.session = self.session
        rf._callback_lock = Lock()
        rf._event = Event()
        rf._errbacks, rf._callbacks, rf._errors = [], [], {}
        rf.message = QueryMessage(query='SELECT 1', consistency_level=1)
        rf.prepared_statement = None
        rf._metrics = None
        rf.attempted_hosts = []
        rf._timer = None
        rf._current_host = self.host
        rf.timeout = None
        rf.query = None
        rf.query_plan = iter(())
        return rf

    def do(self, a):
        getattr(self, 'a_' + a['a'])(a)

    def run(self, actions):
        from vf import conn_corr
        for a in actions:
            self.do(a)
            self.checkpoint()
            if self.points and conn_corr.quiescent(self):
                self.quiescent_points.append((len(self.points) - 1, a['a']))

    def pool_has_conn(self):
        return self.pool._connection is self.conn and not self.pool.is_shutdown

    def a_query(self, a):
        """real ResponseFuture._query: borrow_connection + send_msg (+ return_connection on failure)"""
        if not self.pool_has_conn():
            return
        r = a['r']
        rf = self.new_future()
        self.tokens[r] = {'fut': rf, 'kind': 'query'}
        self._arm_borrow(r)
        self.next_token, self.next_nested_cb, self.next_nested_send = r, a.get('in_cb'), a.get('after_check')
        self.next_nested_push = a.get('at_push')
        inner = lambda *args: None        # _query binds (connection, pool) in front of the response for a caller-supplied cb
        self.in_query = True
        try:
            rid = rf._query(self.host, cb=inner)
        finally:
            self.in_query = False
        self._disarm_borrow(r, sent=rid is not None)
        # rf._req_id is whatever the REAL _query left there (nothing is set by the harness)
        self.next_token = None
        self.checkpoint()

    def _arm_borrow(self, r):
        self._borrow_r = r
        self._orig_borrow = self.pool.borrow_connection
        h = self

        def borrow(timeout):
            h.getid_site = 'borrow_connection'
            try:
                conn, rid = HostConnection.borrow_connection(h.pool, -1)
            except NoConnectionsAvailable:
                h.emit('Borrow')
                h.event([9])
                h.checkpoint()
                raise
            except AssertionError:
                h.emit('Borrow')
                h.event([10])
                h.checkpoint()
                raise
            finally:
                h.getid_site = None
            h.emit('Borrow')
            h.event([8, rid])
            h.held[r] = rid
            h.checkpoint()
            return conn, rid
        self._borrow_stack.append(self.pool.__dict__.get('borrow_connection'))
        self.pool.borrow_connection = borrow

    def _disarm_borrow(self, r, sent):
        prev = self._borrow_stack.pop()
        if prev is None:
            del self.pool.__dict__['borrow_connection']
        else:
            self.pool.borrow_connection = prev

    def a_borrow(self, a):
        if not self.pool_has_conn():
            return
        r = a['r']
        self._arm_borrow(r)
        try:
            self.pool.borrow_connection(-1)
        except (NoConnectionsAvailable, AssertionError):
            pass
        finally:
            self._disarm_borrow(r, False)
        self.tokens[r] = {'kind': 'manual'}

    def a_send(self, a):
        r = a['r']
        if r not in self.held:
            return
        rid = self.held[r]
        self.next_token, self.next_nested_cb, self.next_nested_send = r, a.get('in_cb'), a.get('after_check')
        self.next_nested_push = a.get('at_push')
        try:
            self.conn.send_msg(QueryMessage(query='SELECT 1', consistency_level=1), rid, lambda resp: None)
        except (ConnectionShutdown, ConnectionBusy):
            pass
        self.next_token = None
        self.checkpoint()

    def a_return(self, a):
        """the borrower gives its in_flight unit back (ResponseFuture._set_result does this inside the callback)"""
        r = a.get('r')
        if r is None and self.cb_stack:
            r = self.cb_stack[-1]
        if r not in self.owed_tokens or self.tokens.get(r, {}).get('kind') == 'prepare':
            return       # the unit of a re-PREPARE is handed back by the real _execute_after_prepare (a_run_tasks)
        self.owed_tokens.discard(r)
        self.pool.return_connection(self.conn)

    @property
    def owed(self):
        return len(self.owed_tokens)

    def a_respond(self, a):
        i = a['i']
        if self.conn.is_defunct:
            return      # reactors stop reading a defunct connection (and process_io_buffer no longer goes past a frame header then)
        if self.to_ctx is None and self.in_nested and getattr(self, '_in_timeout', 0):
            self.race_exercised = True       # a response processed between _on_timeout's pop and its orphan region
        ent = [w for w in self.wire if w[0] == i]
        if i in self.conn._continuous_paging_sessions:
            self.answering = None
        elif ent:
            self.wire.remove(ent[0])
            self.answering = ent[0][1]
        else:
            return
        op, body = body_for(a.get('d', 'DOk'))
        self.feeding = {'d': a.get('d', 'DOk'), 'nested': {'begun': a.get('begun')}}
        try:
            self.conn._iobuf.write(frame(i, op, body, self.protocol_version))
            self.conn.process_io_buffer()
        finally:
            self.feeding = None
        self.checkpoint()

    def a_reprepare(self, a):
        """inside the callback of an EXECUTE answered with UNPREPARED: the REAL ResponseFuture._reprepare (borrow + send PREPARE;
        its callback is session.submit(self._execute_after_prepare, host, connection, pool))"""
        if not self.cb_stack or not self.pool_has_conn():
            return
        r = self.cb_stack[-1]
        rf = self.tokens.get(r, {}).get('fut')
        if rf is None or self.tokens[r].get('kind') != 'query':
            return
        from cassandra.protocol import PrepareMessage
        r2 = a['r2']
        self.tokens[r2] = {'kind': 'prepare', 'fut': rf, 'parent': r}
        self._arm_borrow(r2)
        self.next_token, self.next_nested_cb, self.next_nested_send = r2, None, None
        self.in_query = True
        try:
            rf._reprepare(PrepareMessage(query='SELECT 1'), self.host, self.conn, self.pool)
        finally:
            self.in_query = False
            self._disarm_borrow(r2, False)
            self.next_token = None
        self.checkpoint()

    def pending_tasks(self):
        return [t for t in self.session.submitted if getattr(t[0], '__name__', '') == '_execute_after_prepare']

    def a_run_tasks(self, a):
        """the session executor runs the queued REAL _execute_after_prepare(host, connection, pool, response) tasks"""
        for t in self.pending_tasks():
            self.session.submitted.remove(t)
            tok = self.prepare_delivered.pop(0) if self.prepare_delivered else None
            fn, args, kw = t
            try:
                fn(*args, **kw)
            finally:
                # the handler of the re-PREPARE has finished: a unit it did not hand back is leaked
                self.owed_tokens.discard(tok)
            self.checkpoint()

    def a_wait_for_responses(self, a):
        """the REAL Connection.wait_for_responses(*msgs): its busy-wait sleep runs a['spin'] (other actors freeing capacity), the
        final waiter.deliver() is answered by feeding the responses in a['answer_order'] (indices into msgs)"""
        import threading
        c = self.conn
        if c.is_defunct or c.is_closed:
            return
        n = a['n']
        h = self
        w = {'n': n, 'sent': [], 'round_open': False, 'spin': list(a.get('spin') or []), 'spins': 0}
        real_time, real_event = cconn.time, cconn.Event

        class TimeProxy(object):
            def time(self_):
                return real_time.time()

            def sleep(self_, t):
                w['spins'] += 1
                w['round_open'] = False
                h.checkpoint()
                if w['spin']:
                    h.do(w['spin'].pop(0))
                elif w['spins'] > 50:
                    raise RuntimeError('wait_for_responses spins without capacity coming back')

        class HookEvent(threading.Event):
            def wait(self_, timeout=None):
                if h.wfr_ctx is w and not self_.is_set():
                    order = a.get('answer_order') or list(range(len(w['sent'])))
                    for k in order:
                        if k < len(w['sent']):
                            h.a_respond({'a': 'respond', 'i': w['sent'][k][0], 'd': 'DOk'})
                return threading.Event.wait(self_, 0)
        self.wfr_ctx = w
        self.getid_site = 'wait_for_responses'
        cconn.time, cconn.Event = TimeProxy(), HookEvent
        res = None
        try:
            msgs = [QueryMessage(query='SELECT %d' % k, consistency_level=1) for k in range(n)]
            res = c.wait_for_responses(*msgs, timeout=10.0)
        except Exception as e:
            self.wfr_results.append({'error': repr(e), 'sent': [x[0] for x in w['sent']]})
        finally:
            cconn.time, cconn.Event = real_time, real_event
            self.wfr_ctx = None
            self.getid_site = None
        if res is not None:
            self.wfr_results.append({'streams_of_results': [getattr(r, 'stream_id', None) for r in res], 'sent': [x[0] for x in w['sent']]})
        self.checkpoint()

    def a_push_event(self, a):
        """a server-pushed EVENT frame (stream -1, STATUS_CHANGE UP) through the real process_io_buffer / process_msg"""
        if self.conn.is_closed or self.conn.is_defunct:
            return
        st = lambda x: struct.pack('>H', len(x)) + x
        body = st(b'STATUS_CHANGE') + st(b'UP') + bytes([4, 10, 0, 0, 9]) + struct.pack('>i', 9042)
        self.conn._iobuf.write(frame(-1, 0x0C, body, self.protocol_version))
        self.conn.process_io_buffer()
        self.checkpoint()

    def a_respond_tok(self, a):
        """answer the request with token r (on whatever stream it was sent)"""
        ent = [w for w in self.wire if w[1] == a['r']]
        if ent:
            self.a_respond({'a': 'respond', 'i': ent[0][0], 'd': a.get('d', 'DOk')})

    def a_timeout(self, a):
        r = a['r']
        t = self.tokens.get(r) or {}
        rf = t.get('fut')
        if rf is None:
            if t.get('id') is None:
                return
            rf = self.new_future()
            rf._connection, rf._req_id = self.conn, t['id']
            t['fut'] = rf
        if getattr(rf, '_req_id', None) is None or rf._connection is None:
            return
        i = rf._req_id
        ent = self.conn.__dict__['_requests_real'].get(i)
        live = a.get('live', True)
        self.to_ctx = {'i': i, 'tok': ent[0].tok if ent else None, 'live': live, 'fired': False, 'nested': a.get('after_pop')}
        mine_live = [t for t, d in self.tokens.items() if d.get('fut') is rf and any(w[1] == t for w in self.wire)]
        if ent is not None and self.tokens.get(ent[0].tok, {}).get('fut') is not rf and mine_live:
            # (only when request r is legitimately still pending -- it has a retried / re-prepared message on the wire; a timer
            #  firing after its request completed is cancelled in the driver and is explored here only for the model comparison)
            # the timeout of request r is about to drop the handler of ANOTHER request that is outstanding on that stream
            self.foreign_drops.append((r, i, ent[0].tok))
        if self.pm is not None and self.pm.get('i') == i:
            self.race_exercised = True       # _on_timeout run between process_msg's orphan test and its pop
        self._in_timeout = getattr(self, '_in_timeout', 0) + 1
        try:
            rf._on_timeout()
        finally:
            self._in_timeout -= 1
            tc, self.to_ctx = self.to_ctx, None
        if not tc['fired']:
            self.emit('TimeoutPop %d %s' % (i, 'true' if live else 'false'))
            self.event([13])
        elif live:
            self.emit('TimeoutOrphan %d' % i)
        self.checkpoint()

    def a_defunct(self, a):
        self.next_nested_defunct = a.get('after_flag')
        self.conn.defunct(Exception('injected failure'))
        self.checkpoint()

    def a_close(self, a):
        self.conn.close()
        self.checkpoint()

    def a_set_writable(self, a):
        self.conn._socket_writable = bool(a['b'])
        self.emit('SetWritable %s' % ('true' if a['b'] else 'false'))
        self.checkpoint()

    def a_set_keyspace(self, a):
        c = self.conn
        if not (c.in_flight < c.__dict__['_mri_real']):
            return       # the real method would spin on the lock
        r = a['r']
        self.tokens[r] = {'kind': 'setks'}
        self.next_token, self.next_nested_cb, self.next_nested_send = r, a.get('in_cb'), a.get('after_check')
        self.emit('SetKsLock', 'SetKsGetId')
        self.getid_site = 'set_keyspace_async'
        self.maxid_hook = {'done': False, 'nested': a.get('in_getid') or [], 'armed': False} if a.get('in_getid') else None
        try:
            c.set_keyspace_async('ks%d' % r, lambda conn, err: None)
        except (ConnectionShutdown, ConnectionBusy):
            pass
        finally:
            self.getid_site = None
            self.maxid_hook = None
        self.next_token = None
        self.checkpoint()

    def a_cp_new(self, a):
        """called from inside a delivery callback: ResponseFuture._set_result -> new_continuous_paging_session"""
        pm = self.pm
        if pm is None or not pm.get('frozen') or not pm.get('delivered', True):
            return
        i = pm['i']
        if i in self.conn._continuous_paging_sessions:
            return
        sess = self.conn.new_continuous_paging_session(i, ProtocolHandler.decode_message, lambda n, r: [], None)
        tok = a['sess']
        self.cp_sessions[i] = (tok, sess)
        self.cp_events[tok] = [0, 0]
        h = self
        real_on_message, real_on_error = sess.on_message, sess.on_error

        def on_message(result):
            pmm = h.pm
            if pmm is not None and not pmm['popped']:
                pmm['popped'] = True
                pmm['delivered'] = True
                h.emit('RecvPop %d %s' % (pmm['i'], pmm['d']))
                h.event([4, tok])
                h.cp_events[tok][0] += 1
                h.checkpoint()
            real_on_message(result)

        def on_error(err):
            h.event([5, tok])
            h.cp_events[tok][1] += 1
            real_on_error(err)
        sess.on_message, sess.on_error = on_message, on_error
        self.emit('CpNew %d' % tok)
        self.checkpoint()

    def a_hb_send(self, a):
        """HeartbeatFuture.__init__ on its own (the full round is a_hb_round)"""
        r = a['r']
        self.tokens[r] = {'kind': 'hb'}
        self.next_token, self.next_nested_cb = r, a.get('in_cb')
        self.atomic_send = True
        self.getid_site = 'HeartbeatFuture'
        before = len(self.events)
        try:
            f = HeartbeatFuture(self.conn, self.pool)
            self.tokens[r]['hbf'] = f
            if f._exception is not None and not self.conn.__dict__['_requests_real']:
                pass
        except Exception as e:
            self.tokens[r]['hb_exc'] = e
            f = None
        finally:
            self.atomic_send = False
            self.getid_site = None
            self.next_token = None
        self.emit('HbSend %d' % r)
        if f is not None and f._exception is not None and len(self.events) == before:
            self.event([11])
        self.checkpoint()
        return f

    def a_hb_round(self, a):
        """the body of ConnectionHeartbeat.run for ONE round, thread never started, waits scripted"""
        from vf import conn_hb
        self.hb_race = a.get('race_borrow')
        try:
            conn_hb.run_round([self], [a.get('reply', 'supported')])
        finally:
            self.hb_race = None

    hb_race = None
