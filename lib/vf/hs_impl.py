"""C47 harness: drive the REAL handshake code of cassandra.connection.Connection with no socket.

A harness connection is a subclass of a real reactor connection class (AsyncioConnection / TwistedConnection):
  * __init__  : Connection.__init__ only (no socket, no watcher), then the real _send_options_message()
  * push      : records the bytes handed to the transport
  * close     : the reactor's REAL close() (asyncio: its _close coroutine is run on a private, never-threaded
                loop that the harness pumps; twisted: module-level `reactor` replaced by an immediate stub)
Replies are decoded message OBJECTS delivered through the real Connection.process_msg on the stream of the
pending request (the request's decoder is replaced by one returning the object), so the real callback
registered by send_msg (_handle_options_response / _handle_startup_response / _handle_auth_response) runs.
"""
import asyncio, struct, zlib

from cassandra import connection as C
from cassandra import ProtocolVersion
from cassandra.auth import PlainTextAuthenticator
from cassandra.marshal import int32_pack, int32_unpack
from cassandra.protocol import (SupportedMessage, ReadyMessage, AuthenticateMessage, AuthChallengeMessage,
                                AuthSuccessMessage, ServerError, ProtocolException, BadCredentials, ResultMessage)
from cassandra.segment import SegmentCodec

NAMES = ['lz4', 'snappy', 'zstd', 'deflate']          # ids 0..3 ; snappy = 1 (the id the v5 rule refers to)
NAME_ID = dict((n, i) for i, n in enumerate(NAMES))


def _mk_codec(tag):
    def comp(b):
        return int32_pack(len(b)) + tag + zlib.compress(bytes(b))

    def decomp(b):
        return zlib.decompress(bytes(b[4 + len(tag):]))
    comp.codec_name = decomp.codec_name = None
    return comp, decomp


TOY = {}
for _n in NAMES:
    _c, _d = _mk_codec(_n[:1].encode())
    _c.codec_name = _d.codec_name = _n
    TOY[_n] = (_c, _d)


class patched_codecs(object):
    """locally_supported_compressions := toy codecs for the given names (ordered); segment_codec_lz4 := toy lz4."""
    def __init__(self, local_names):
        self.local = list(local_names)

    def __enter__(self):
        self.saved = list(C.locally_supported_compressions.items())
        self.saved_seg = C.segment_codec_lz4
        C.locally_supported_compressions.clear()
        for n in self.local:
            C.locally_supported_compressions[n] = TOY[n]
        C.segment_codec_lz4 = SegmentCodec(*TOY['lz4'])
        return self

    def __exit__(self, *a):
        C.locally_supported_compressions.clear()
        for k, v in self.saved:
            C.locally_supported_compressions[k] = v
        C.segment_codec_lz4 = self.saved_seg


# ---------------------------------------------------------------------------------- harness classes
_classes = {}
_loop = [None]
_saved_reactor = []


class _Stub(object):
    def __init__(self, **kw):
        self.__dict__.update(kw)


class _SnapEvent(object):
    """connected_event wrapper: set() snapshots what a waiter (Connection.factory) would read at that very moment"""
    def __init__(self, conn):
        import threading
        self._e = threading.Event()
        self._conn = conn
        self.snaps = []

    def set(self):
        self.snaps.append(err_tag(self._conn.last_error))
        self._e.set()

    def is_set(self):
        return self._e.is_set()

    def wait(self, timeout=None):
        return self._e.wait(timeout)

    def clear(self):
        self._e.clear()


def _init(self, **kw):
    C.Connection.__init__(self, 'verif-host', **kw)
    self.connected_event = _SnapEvent(self)
    self._snaps_seen = 0
    self.sent = []
    self._send_options_message()


def _push(self, data):
    self.sent.append(bytes(data))


def get_class(flavour):
    if flavour in _classes:
        return _classes[flavour]
    if flavour == 'asyncio':
        from cassandra.io.asyncioreactor import AsyncioConnection
        if _loop[0] is None:
            _loop[0] = asyncio.new_event_loop()

        def init(self, **kw):
            self._write_watcher = self._read_watcher = None
            self._socket = None
            _init(self, **kw)
        cls = type('HSAsyncio', (AsyncioConnection,), {'__init__': init, 'push': _push, '_loop': _loop[0]})
    elif flavour == 'twisted':
        from cassandra.io import twistedreactor as T

        def init(self, **kw):
            self.transport = _Stub(connector=_Stub(disconnect=lambda: None))
            self.connector = None
            _init(self, **kw)
        cls = type('HSTwisted', (T.TwistedConnection,), {'__init__': init, 'push': _push})
    else:
        raise ValueError(flavour)
    _classes[flavour] = cls
    return cls


_factory_classes = {}


def run_factory(cfg, local, replies):
    """the REAL Connection.factory() on the harness class: the connection is constructed by factory itself, the scripted
    replies arrive (synchronously, as a very fast server) before factory starts waiting; timeout 0.
    -> 'ready' when factory returned the connection, else the class tag of what it raised ('timeout' for OperationTimedOut)"""
    from cassandra import OperationTimedOut
    fl = cfg['flavour']
    if fl not in _factory_classes:
        base = get_class(fl)

        def finit(self, endpoint, **kw):
            base.__init__(self, **kw)
            for r in type(self)._script:
                deliver(self, r)
        _factory_classes[fl] = type('HSFactory' + fl, (base,), {'__init__': finit, '_script': ()})
    cls = _factory_classes[fl]
    cls._script = tuple(replies)
    auth = {'none': None, 'sasl': PlainTextAuthenticator('u', 'p'), 'dict': {'username': 'u', 'password': 'p'}}[cfg['auth']]
    with patched_codecs([NAMES[i] for i in local]):
        try:
            conn = cls.factory('verif-host', 0, authenticator=auth, compression=cfg['compression'],
                               protocol_version=cfg['version'], allow_beta_protocol_version=cfg['version'] == 6)
            out = 'ready'
        except OperationTimedOut:
            out = 'timeout'
        except Exception as e:          # whatever factory raises for a failed connect attempt
            out = err_tag(e) if err_tag(e) != 'exception' else 'exception:' + type(e).__name__
    pump()
    return out


class patched_reactors(object):
    """twistedreactor.reactor -> immediate stub for the duration of a harness run."""
    def __enter__(self):
        try:
            from cassandra.io import twistedreactor as T
            self.T, self.saved = T, T.reactor
            T.reactor = _Stub(callFromThread=lambda f, *a, **k: f(*a, **k))
        except ImportError:
            self.T = None
        return self

    def __exit__(self, *a):
        if self.T is not None:
            self.T.reactor = self.saved
        if _loop[0] is not None:
            pump()


def pump():
    loop = _loop[0]
    if loop is None:
        return
    for _ in range(4):
        loop.run_until_complete(asyncio.sleep(0))
        if not asyncio.all_tasks(loop):
            break


def shutdown():
    if _loop[0] is not None:
        pump()
        _loop[0].close()
        _loop[0] = None
        _classes.pop('asyncio', None)


# ---------------------------------------------------------------------------------- configuration, replies
def make_conn(cfg):
    """cfg = {'flavour','auth': 'none'|'sasl'|'dict', 'compression': True|False|name, 'version': int}"""
    auth = {'none': None, 'sasl': PlainTextAuthenticator('u', 'p'), 'dict': {'username': 'u', 'password': 'p'}}[cfg['auth']]
    return get_class(cfg['flavour'])(authenticator=auth, compression=cfg['compression'],
                                     protocol_version=cfg['version'], allow_beta_protocol_version=cfg['version'] == 6)


def make_reply(r):
    """r = [kind, arg]: the decoded object the real decoder would have produced."""
    k = r[0]
    if k == 'supported':
        return SupportedMessage(cql_versions=['3.4.5'], options={'COMPRESSION': [NAMES[i] for i in r[1]]})
    if k == 'ready':
        return ReadyMessage()
    if k == 'authenticate':
        return AuthenticateMessage(authenticator='org.apache.cassandra.auth.PasswordAuthenticator')
    if k == 'challenge':
        return AuthChallengeMessage(challenge=b'PLAIN-START' if r[1] == 'good' else b'what?')
    if k == 'auth_success':
        return AuthSuccessMessage(token=b'')
    if k == 'error':
        cls = {'auth': BadCredentials, 'server': ServerError, 'protocol': ProtocolException}[r[1]]
        return cls(cls.error_code, 'verif %s error' % r[1], None)
    if k == 'unexpected':
        return ResultMessage(kind=1)
    raise ValueError(r)


def deliver(conn, r):
    k = r[0]
    if k == 'disconnect':          # the peer closed the socket: reactors call self.close()
        conn.close()
    elif k == 'sockerr':           # recv/send raised: reactors call self.defunct(err)
        conn.defunct(OSError(104, 'Connection reset by peer'))
    else:
        obj = make_reply(r)
        if conn._requests:
            sid = max(conn._requests)
            cb, _dec, md = conn._requests[sid]
            conn._requests[sid] = (cb, (lambda *a, **kw: obj), md)
        else:
            sid = 0
        conn.process_msg(C._Frame(conn.protocol_version, 0, sid, obj.opcode, 9, 9), b'')
    if conn.is_closed and not getattr(conn, '_hs_pumped', False):
        conn._hs_pumped = True
        pump()            # asyncio flavour: run the scheduled _close() coroutine now


# ---------------------------------------------------------------------------------- observation
OPC = {0x01: 'startup', 0x05: 'options', 0x0F: 'auth_response', 0x04: 'credentials'}


def parse_frame(b, version):
    """a plain CQL frame -> (opcode name, compressed flag, body) or None"""
    if len(b) < 8 or (b[0] & 0x7f) != version:
        return None
    if version >= 3:
        if len(b) < 9:
            return None
        flags, _stream, op, ln = struct.unpack('>BhBi', b[1:9])
        body = b[9:]
    else:
        flags, _stream, op, ln = struct.unpack('>BbBi', b[1:8])
        body = b[8:]
    if ln != len(body):
        return None
    return OPC.get(op, 'op%d' % op), bool(flags & 0x01), body


def parse_sent(b, version):
    """-> dict(kind, compressed (frame flag), checksummed (segment-wrapped), seg_compressed (5-byte segment header),
    startup_compression (name or None))"""
    f = parse_frame(b, version)
    out = {'checksummed': False, 'seg_compressed': False}
    if f is None:
        # segment: try the uncompressed header layout (3 bytes + crc24), then the compressed one (5 + crc24)
        got = None
        for hl, comp in ((3, False), (5, True)):
            if len(b) < hl + 3 + 4:
                continue
            hdr = int.from_bytes(b[:hl], 'little')
            plen = hdr & 0x1ffff
            if hl + 3 + plen + 4 != len(b):
                continue
            payload = b[hl + 3: hl + 3 + plen]
            if comp:
                ulen = (hdr >> 17) & 0x1ffff
                if ulen > 0:
                    payload = TOY['lz4'][1](int32_pack(ulen) + payload)
            inner = parse_frame(payload, version)
            if inner is not None:
                got = (inner, comp)
                break
        if got is None:
            return {'kind': 'unparsed', 'compressed': False, 'checksummed': False, 'seg_compressed': False, 'startup_compression': None}
        f, comp = got
        out = {'checksummed': True, 'seg_compressed': comp}
    kind, cflag, body = f
    out['kind'], out['compressed'] = kind, cflag
    out['startup_compression'] = None
    if kind == 'startup':
        if cflag:
            body = zlib.decompress(body[5:])
        n = struct.unpack('>H', body[:2])[0]
        pos, opts = 2, {}
        for _ in range(n):
            kl = struct.unpack('>H', body[pos:pos + 2])[0]
            key = body[pos + 2:pos + 2 + kl].decode()
            pos += 2 + kl
            vl = struct.unpack('>H', body[pos:pos + 2])[0]
            opts[key] = body[pos + 2:pos + 2 + vl].decode()
            pos += 2 + vl
        out['startup_compression'] = opts.get('COMPRESSION')
    return out


def err_tag(e):
    """small enum of the class of last_error"""
    if e is None:
        return 'none'
    from cassandra import AuthenticationFailed, UnsupportedOperation
    if isinstance(e, AuthenticationFailed):
        return 'auth_failed'
    if isinstance(e, C.ConnectionShutdown):
        return 'conn_shutdown'
    if isinstance(e, C.ConnectionException):
        return 'conn_exception'
    if isinstance(e, C.ProtocolError):
        return 'protocol_error'
    if isinstance(e, ProtocolException):
        return 'server_protocol_exception'
    if isinstance(e, UnsupportedOperation):
        return 'unsupported_operation'
    if isinstance(e, KeyError):
        return 'key_error'
    if isinstance(e, OSError):
        return 'os_error'
    return 'exception'


def observe(conn, nsent_before):
    new = [parse_sent(b, conn.protocol_version) for b in conn.sent[nsent_before:]]
    name = lambda f: getattr(f, 'codec_name', 'unknown') if f is not None else None
    snaps = conn.connected_event.snaps[conn._snaps_seen:]
    conn._snaps_seen = len(conn.connected_event.snaps)
    return {
        'wake_snaps': snaps,      # class of last_error at each connected_event.set() of this step
        'sent': new,
        'compressor': name(conn.compressor), 'decompressor': name(conn.decompressor),
        'checksumming': bool(conn._is_checksumming_enabled),
        'seg_lz4': bool(conn._is_checksumming_enabled and getattr(conn, '_segment_codec', None) is C.segment_codec_lz4),
        'connected': conn.connected_event.is_set(),
        'defunct': bool(conn.is_defunct), 'closed': bool(conn.is_closed),
        'last_error': err_tag(conn.last_error),
        'pending': len(conn._requests),
        # what Connection.factory would do right now: return the connection as ready?
        'reported_ready': bool(conn.connected_event.is_set() and not conn.last_error),
    }


def run_case(cfg, local, replies):
    """-> list of observations: index 0 after construction (OPTIONS sent), then one per reply"""
    with patched_codecs([NAMES[i] for i in local]):
        conn = make_conn(cfg)
        obs = [observe(conn, 0)]
        for r in replies:
            n = len(conn.sent)
            deliver(conn, r)
            obs.append(observe(conn, n))
    return obs
