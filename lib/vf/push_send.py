"""C11, protocol v5 send path: real Connection.send_msg of real QueryMessages from two threads on a connection with
checksumming enabled (real _enable_checksumming), switched at source-line granularity inside cassandra/connection.py by
vf.detsched; what push() receives is decoded with the driver's SegmentCodec and compared with what each message encodes
to when sent alone.  Also the shared-mutable-state audit of send_msg.
"""
import ast, io, os, struct


def make_conn(version=5):
    from cassandra.connection import Connection

    class SendConn(Connection):
        def __init__(self):
            Connection.__init__(self, 'verif-host', protocol_version=version, allow_beta_protocol_version=(version == 6))
            self.sent = []
            self._enable_checksumming()          # what READY / AUTHENTICATE do on v5 (C47)

        def push(self, data):
            self.sent.append(bytes(data))

        def close(self):
            self.is_closed = True
    return SendConn()


def message(t, i, size):
    from cassandra.protocol import QueryMessage
    return QueryMessage("SELECT /* thread %d message %d */ %s" % (t, i, 'x' * size), 1)


def sid(t, i):
    return 16 * t + i + 1


def reference(spec, version=5):
    """bytes each message is pushed as when it is the only sender: {stream id: bytes}"""
    ref = {}
    for t, sizes in enumerate(spec):
        for i, n in enumerate(sizes):
            c = make_conn(version)
            c.send_msg(message(t, i, n), sid(t, i), lambda *a: None)
            ref[sid(t, i)] = c.sent[0]
    return ref


def decode_segments(data):
    """the driver's SegmentCodec over a byte stream -> [(payload, is_self_contained)] (raises on CRC mismatch / truncation)"""
    from cassandra.connection import segment_codec_no_compression as codec
    buf = io.BytesIO(data)
    out = []
    while buf.tell() < len(data):
        if len(data) - buf.tell() < codec.header_length_with_crc:
            raise ValueError('truncated segment header')
        h = codec.decode_header(buf)
        if len(data) - buf.tell() < h.payload_length + 4:
            raise ValueError('truncated segment')
        seg = codec.decode(buf, h)
        out.append((seg.payload, bool(seg.is_self_contained)))
    return out


def frames_of(payload):
    pos, frames = 0, []
    while pos < len(payload):
        if len(payload) - pos < 9:
            raise ValueError('truncated frame header')
        _v, _fl, stream, op, ln = struct.unpack('>BBhBi', payload[pos:pos + 9])
        if pos + 9 + ln > len(payload):
            raise ValueError('truncated frame body')
        frames.append((stream, op, payload[pos:pos + 9 + ln]))
        pos += 9 + ln
    return frames


def reassemble(segments):
    """what a v5 peer does with the segment stream: a self-contained segment holds whole frames; a run of non-self-contained
    segments holds ONE frame whose length is in its header.  -> (list of (stream, opcode, frame bytes), failure or None)"""
    frames, pending = [], b''
    for payload, sc in segments:
        if sc:
            if pending:
                return frames, ('interleaved', 'a self-contained segment (another request) arrived inside the run of non-self-contained segments '
                                'of a large request (%d of its bytes received so far)' % len(pending))
            frames += frames_of(payload)
        else:
            pending += payload
            if len(pending) >= 9:
                ln = struct.unpack('>i', pending[5:9])[0]
                if len(pending) > 9 + ln:
                    return frames, ('interleaved', 'segments of two large requests are mixed')
                if len(pending) == 9 + ln:
                    frames += frames_of(pending)
                    pending = b''
    if pending:
        return frames, ('truncated', 'a large request is incomplete: %d bytes of its segments arrived' % len(pending))
    return frames, None


def decode_stream(data, version=5):
    """-> list of (stream id, opcode, frame length) or raises"""
    frames, fail = reassemble(decode_segments(data))
    if fail:
        raise ValueError(fail[1])
    return [(s, op, len(b)) for s, op, b in frames]


def reference_frames(spec, version=5):
    """the CQL frame of every message as the protocol encoder produces it: {stream id: frame bytes}"""
    from cassandra.protocol import ProtocolHandler
    ref = {}
    for t, sizes in enumerate(spec):
        for i, n in enumerate(sizes):
            ref[sid(t, i)] = ProtocolHandler.encode_message(message(t, i, n), sid(t, i), version, compressor=None,
                                                            allow_beta_protocol_version=(version == 6))
    return ref


def run_schedule(spec, schedule, version=5):
    """two (or more) threads, thread t sends its messages in order; returns (pushed list, errors)"""
    from vf import detsched
    conn = make_conn(version)

    def body(t):
        def f():
            for i, n in enumerate(spec[t]):
                conn.send_msg(message(t, i, n), sid(t, i), lambda *a: None)
        return f
    r = detsched.Run([body(t) for t in range(len(spec))], ['cassandra/connection.py'], schedule).run()
    return conn.sent, [repr(e) for e in r.errors if e is not None], len(r.trace)


def oracle(spec, ref, pushed, version=5, frames_ref=None):
    """the statement on what reached push(), read as a v5 peer reads it (pushes concatenated in the order push() was called,
    which is the order both reactors write them): every request whole, exactly once, per-thread order -> (class, detail) or None"""
    frames_ref = frames_ref or reference_frames(spec, version)
    try:
        segs = decode_segments(b''.join(pushed))
    except Exception as e:
        return ('garbled', 'the pushed bytes are not a valid segment stream: %s: %s' % (type(e).__name__, e))
    try:
        frames, fail = reassemble(segs)
    except Exception as e:
        return ('garbled', 'segment payloads do not reassemble into frames: %s: %s' % (type(e).__name__, e))
    if fail:
        return fail
    seen = []
    for s, _op, b in frames:
        if s not in frames_ref:
            return ('foreign', 'unknown stream id %d on the wire' % s)
        if b != frames_ref[s]:
            return ('garbled', 'the frame on stream %d differs from the request that was sent' % s)
        if s in seen:
            return ('duplicated', 'the request on stream %d (thread %d, message %d) was written twice' % (s, (s - 1) // 16, (s - 1) % 16))
        seen.append(s)
    for t, sizes in enumerate(spec):
        mine = [s for s in seen if (s - 1) // 16 == t]
        want = [sid(t, i) for i in range(len(sizes))]
        if sorted(mine) != want:
            missing = [x for x in want if x not in mine]
            return ('lost', 'thread %d: request(s) on stream(s) %r never written' % (t, missing))
        if mine != want:
            return ('reordered', 'thread %d: streams written in order %r' % (t, mine))
    return None


# ------------------------------------------------------------------------------------------ audit
ALLOWED_READS = {'is_defunct', 'is_closed', '_socket_writable', 'endpoint', 'protocol_version', 'compressor',
                 'allow_beta_protocol_version', '_is_checksumming_enabled', '_segment_codec', 'push', '_requests', 'lock'}


def audit_send_msg(repo):
    """send_msg runs in many application threads without a lock: outside `with self.lock` it may only read the
    configuration attributes above, register the request in _requests, and assemble segments in a buffer that is a LOCAL
    freshly created in the call.  Returns a list of problems."""
    src = open(os.path.join(repo, 'cassandra/connection.py')).read()
    tree = ast.parse(src)
    fn = None
    for n in ast.walk(tree):
        if isinstance(n, ast.ClassDef) and n.name == 'Connection':
            for m in n.body:
                if isinstance(m, ast.FunctionDef) and m.name == 'send_msg':
                    fn = m
    if fn is None:
        return ['Connection.send_msg not found']
    probs = []
    locked = set()
    for n in ast.walk(fn):
        if isinstance(n, ast.With):
            for it in n.items:
                e = it.context_expr
                if isinstance(e, ast.Attribute) and isinstance(e.value, ast.Name) and e.value.id == 'self' and e.attr == 'lock':
                    for sub in ast.walk(n):
                        locked.add(id(sub))
    fresh = set()          # local names bound to a fresh io.BytesIO() / BytesIO()
    for n in ast.walk(fn):
        if isinstance(n, ast.Assign) and len(n.targets) == 1 and isinstance(n.targets[0], ast.Name) and isinstance(n.value, ast.Call):
            f = n.value.func
            name = f.attr if isinstance(f, ast.Attribute) else getattr(f, 'id', None)
            if name == 'BytesIO' and not n.value.args:
                fresh.add(n.targets[0].id)
    for n in ast.walk(fn):
        if id(n) in locked:
            continue
        if isinstance(n, ast.Attribute) and isinstance(n.value, ast.Name) and n.value.id == 'self' and n.attr not in ALLOWED_READS:
            probs.append('send_msg uses per-connection state self.%s outside a lock (line %d)' % (n.attr, n.lineno))
        if isinstance(n, (ast.Assign, ast.AugAssign)):
            ts = n.targets if isinstance(n, ast.Assign) else [n.target]
            for t in ts:
                if isinstance(t, ast.Attribute) and isinstance(t.value, ast.Name) and t.value.id == 'self':
                    probs.append('send_msg assigns self.%s outside a lock (line %d)' % (t.attr, n.lineno))
        if isinstance(n, ast.Call) and isinstance(n.func, ast.Attribute) and n.func.attr == 'encode':
            recv = n.func.value
            if isinstance(recv, ast.Attribute) and recv.attr == '_segment_codec':
                b = n.args[0] if n.args else None
                if not (isinstance(b, ast.Name) and b.id in fresh):
                    probs.append('segments are assembled in a buffer that is not a fresh local io.BytesIO() (line %d)' % n.lineno)
    # one request = ONE push(): the reactors keep the bytes of one push() contiguous, nothing else
    pushes = [n for n in ast.walk(fn) if isinstance(n, ast.Call) and isinstance(n.func, ast.Attribute) and n.func.attr == 'push'
              and isinstance(n.func.value, ast.Name) and n.func.value.id == 'self']
    in_loop = set()
    for n in ast.walk(fn):
        if isinstance(n, (ast.For, ast.While)):
            for sub in ast.walk(n):
                in_loop.add(id(sub))
    if len(pushes) != 1 or any(id(c) in in_loop for c in pushes):
        probs.append('send_msg hands a request to push() in %d call site(s)%s: the segments of one request must go out in ONE push()'
                     % (len(pushes), ' inside a loop' if any(id(c) in in_loop for c in pushes) else ''))
    return sorted(set(probs))
