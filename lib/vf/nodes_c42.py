"""C42: drive the real ControlConnection._refresh_node_list_and_token_map over sequences of system.local /
system.peers(_v2) snapshots on a never-connected Cluster; Python oracle of the statement; Gallina literals."""
import re, uuid
from vf import nodes_harness as H

CONTROL = (100, 9042)
PARTITIONER = 'org.apache.cassandra.dht.Murmur3Partitioner'


def addr(n):
    return '10.0.0.%d' % n


def addr_id(a):
    if a in ('0.0.0.0', '::'):
        return 0
    return int(a.rsplit('.', 1)[1])


def dc_name(n, kind='dc'):
    return None if n is None else '%s%d' % (kind, n)


def name_id(s):
    if s is None or s == '':
        return None
    return int(re.sub(r'^\D+', '', s))


def hid(n):
    return None if n is None else uuid.UUID(int=0xabc00000 + n)


def hid_id(u):
    return None if u is None else u.int - 0xabc00000


# ---------------------------------------------------------------------------------------------- rows -> results
V1_ALL = ['peer', 'data_center', 'host_id', 'preferred_ip', 'rack', 'release_version', 'rpc_address', 'schema_version', 'tokens']
V2_ALL = ['peer', 'peer_port', 'data_center', 'host_id', 'native_address', 'native_port', 'preferred_ip', 'preferred_port', 'rack',
          'release_version', 'schema_version', 'tokens']
LOCAL_ALL = ['key', 'bootstrapped', 'broadcast_address', 'cluster_name', 'cql_version', 'data_center', 'host_id', 'listen_address',
             'partitioner', 'rack', 'release_version', 'rpc_address', 'schema_version', 'tokens']


def columns_of(query):
    m = re.match(r'\s*SELECT\s+(.*?)\s+FROM\s+(\S+)', query, re.I | re.S)
    cols, table = m.group(1).strip(), m.group(2)
    if cols == '*':
        cols = V2_ALL if table.endswith('peers_v2') else (V1_ALL if 'peers' in table else LOCAL_ALL)
    else:
        cols = [c.strip() for c in cols.split(',')]
    return list(cols), table


def miss(row, v):
    """representation of a missing text value: null or the empty string"""
    return '' if (v is None and row.get('empty_str')) else v


def peer_dict(row):
    a = row['addr']
    if a is None:
        a_s = None
    elif a == 0:
        a_s = '::' if row.get('bind6') else '0.0.0.0'
    else:
        a_s = addr(a)
    toks = row['tokens']
    return {'peer': None if row['peer'] is None else addr(row['peer']), 'peer_port': 7000,
            'rpc_address': a_s, 'native_address': a_s, 'native_transport_address': a_s, 'native_port': row['port'],
            'host_id': hid(row['host_id']), 'data_center': miss(row, dc_name(row['dc'])), 'rack': miss(row, dc_name(row['rack'], 'r')),
            'tokens': None if toks is None else [str(t) for t in toks], 'release_version': '4.0.0',
            'schema_version': H.version_uuid(1), 'preferred_ip': None, 'preferred_port': None}


def local_dict(loc):
    toks = loc['tokens']
    return {'key': 'local', 'bootstrapped': 'COMPLETED', 'cluster_name': 'vf', 'cql_version': '3.4.5',
            'data_center': dc_name(loc['dc']), 'rack': dc_name(loc['rack'], 'r'), 'host_id': hid(loc['host_id']),
            'partitioner': PARTITIONER if loc['partitioner'] else None, 'release_version': '4.0.0',
            'rpc_address': addr(CONTROL[0]), 'broadcast_address': addr(CONTROL[0]), 'listen_address': addr(CONTROL[0]),
            'schema_version': H.version_uuid(1), 'tokens': None if toks is None else [str(t) for t in toks]}


def result_for(query, step):
    cols, table = columns_of(query)
    if 'peers' in table:
        rows = [peer_dict(r) for r in step['peers']]
    else:
        rows = [] if step['local'] is None else [local_dict(step['local'])]
    return H.FakeResult(cols, [[r.get(c) for c in cols] for r in rows])


# ---------------------------------------------------------------------------------------------- driving
def observe_hosts(cl):
    return [[addr_id(h.endpoint.address), h.endpoint.port, name_id(h.datacenter), name_id(h.rack), hid_id(h.host_id)]
            for h in cl.metadata.all_hosts()]


def canon_event(ev):
    k = ev[0]
    if k in ('lbp_up', 'lbp_down', 'lbp_add', 'l_add'):
        return [k, addr_id(ev[1]), ev[2], name_id(ev[3]), name_id(ev[4])]
    if k in ('lbp_remove', 'l_remove', 'l_up', 'l_down'):
        return [k, addr_id(ev[1]), ev[2]]
    return list(ev)


def run_impl(case):
    """returns the list of per-step observations: hosts after (all_hosts order), notifications in order, partitioner set"""
    C = H.mods()
    from cassandra.connection import DefaultEndPoint
    from cassandra.pool import Host
    from cassandra.policies import SimpleConvictionPolicy
    log = []
    cl = H.make_cluster(addr(CONTROL[0]), log=log, token_metadata_enabled=case['token_meta'])
    try:
        cc = cl.control_connection
        cc._uses_peers_v2 = case['v2']
        md = cl.metadata
        for a, port, dc, rack, h_id in case['init']:
            h = Host(DefaultEndPoint(addr(a), port), SimpleConvictionPolicy, dc_name(dc), dc_name(rack, 'r'))
            h.host_id = hid(h_id)
            h.release_version = '4.0.0'
            h.set_up()
            md._hosts[h.endpoint] = h
        cl.profile_manager.populate(cl, md.all_hosts())
        orig_rebuild = md.rebuild_token_map

        def rebuild(partitioner, token_map):
            log.append(('rebuild', partitioner, [[addr_id(h.endpoint.address), h.endpoint.port, [int(t) for t in toks]]
                                                 for h, toks in token_map.items()]))
            return orig_rebuild(partitioner, token_map)
        md.rebuild_token_map = rebuild
        cur = {}

        def script(conn, msgs, timeout):
            return [result_for(m.query, cur['step']) for m in msgs]
        conn = H.FakeConnection(DefaultEndPoint(addr(CONTROL[0]), CONTROL[1]), script)
        if case.get('live'):
            # a live control connection: Cluster.on_remove -> ControlConnection.on_remove re-enters the refresh (nested, forced)
            cc._connection = conn
            cc.reconnect = lambda: log.append(('reconnect',))
        out = []
        for step in case['steps']:
            cur['step'] = step
            del log[:]
            err = None
            try:
                if step.get('preloaded'):
                    sel_peers = cc._get_peers_query(cc.PeersQueryType.PEERS, conn)
                    sel_local = cc._SELECT_LOCAL if case['token_meta'] else cc._SELECT_LOCAL_NO_TOKENS
                    pre = (result_for(sel_peers, step), result_for(sel_local, step))
                    cc._refresh_node_list_and_token_map(conn, preloaded_results=pre, force_token_rebuild=step['force'])
                else:
                    cc._refresh_node_list_and_token_map(conn, force_token_rebuild=step['force'])
            except Exception as e:
                err = '%s: %s' % (type(e).__name__, e)
            out.append({'hosts': observe_hosts(cl), 'events': [canon_event(e) for e in log],
                        'partitioner': md.partitioner is not None, 'error': err,
                        'token_owner': None if md.token_map is None else sorted(
                            [t.value, addr_id(h.endpoint.address), h.endpoint.port] for t, h in md.token_map.token_to_host_owner.items())})
        return out
    finally:
        H.dispose_cluster(cl)


# ---------------------------------------------------------------------------------------------- oracle (the statement)
def row_address(r):
    a = r['addr']
    return a if a not in (None, 0) else r['peer']


def row_valid(r, token_meta):
    """has an address, a host id, a datacenter, a rack and (when token metadata is fetched) tokens"""
    return (row_address(r) is not None and r['host_id'] is not None and r['dc'] is not None and r['rack'] is not None
            and (not token_meta or bool(r['tokens'])))


def row_endpoint(r):
    p = r['port']
    return (row_address(r), p if (p is not None and p > 0) else 9042)


def adjacent(events, a, b):
    return any(events[i] == a and events[i + 1] == b for i in range(len(events) - 1))


def check_step(case, before, built_before, step, obs):
    """before: hosts observed before the step; built_before: assignment the token map was last built from (None: never).
    Returns (problems [(key, what)], built_after)."""
    bad = []
    tm = case['token_meta']
    if obs['error']:
        bad.append(('refresh.error', 'refresh raised %s' % obs['error']))
        return bad, built_before
    bmap = {(h[0], h[1]): h for h in before}
    amap = {(h[0], h[1]): h for h in obs['hosts']}
    if len(amap) != len(obs['hosts']):
        bad.append(('exact.duplicate-host', 'all_hosts() lists an endpoint twice'))
    valid_rows = [r for r in step['peers'] if row_valid(r, tm)]
    peers_eps = set(row_endpoint(r) for r in valid_rows)
    local = step['local']
    # --- exactly the control node plus every valid distinct peer
    others_after = set(amap) - {CONTROL}
    if others_after != peers_eps - {CONTROL}:
        extra, missing = sorted(others_after - peers_eps), sorted(peers_eps - {CONTROL} - others_after)
        bad.append(('exact.' + ('missing-peer' if missing else 'extra-host'),
                    'hosts after refresh: missing %r, unexpected %r' % (missing, extra)))
    if CONTROL in bmap and CONTROL not in amap:
        bad.append(('exact.control-removed' + ('.no-local-row' if local is None else ''),
                    'the control node was removed from the metadata by the refresh'))
    # --- the records mirror the first source row of each endpoint
    sources = []
    if local is not None:
        sources.append((CONTROL, local['dc'], local['rack'], local['host_id']))
    for r in valid_rows:
        sources.append((row_endpoint(r), r['dc'], r['rack'], r['host_id']))
    first = {}
    for e, dc, rack, h_id in sources:
        first.setdefault(e, (dc, rack, h_id))
    for e, h in amap.items():
        if e in first and (e != CONTROL or CONTROL in bmap) and (h[2], h[3], h[4]) != first[e]:
            bad.append(('exact.record-differs', 'host %r has dc/rack/host_id %r, the tables say %r' % (e, h[2:], first[e])))
    # --- announced once / removed once
    ev = obs['events']
    for e in set(amap) | set(bmap) | peers_eps:
        n_ladd = sum(1 for x in ev if x[0] == 'l_add' and (x[1], x[2]) == e)
        n_padd = sum(1 for x in ev if x[0] == 'lbp_add' and (x[1], x[2]) == e)
        n_lrem = sum(1 for x in ev if x[0] == 'l_remove' and (x[1], x[2]) == e)
        n_prem = sum(1 for x in ev if x[0] == 'lbp_remove' and (x[1], x[2]) == e)
        new = e in amap and e not in bmap
        gone = e in bmap and e not in amap
        if (n_ladd, n_padd) != ((1, 1) if new else (0, 0)):
            bad.append(('added-once.' + ('missing' if new and n_ladd == 0 else 'spurious-or-repeated'),
                        'host %r %s: listener on_add x%d, policy on_add x%d' % (e, 'is new' if new else 'is not new', n_ladd, n_padd)))
        if (n_lrem, n_prem) != ((1, 1) if gone else (0, 0)):
            bad.append(('removed-once.' + ('missing' if gone and n_lrem == 0 else 'spurious-or-repeated'),
                        'host %r %s: listener on_remove x%d, policy on_remove x%d' % (e, 'vanished' if gone else 'did not vanish', n_lrem, n_prem)))
    # --- datacenter / rack changes reach the load-balancing policies
    for e in set(amap) & set(bmap):
        old, new = bmap[e], amap[e]
        if (old[2], old[3]) != (new[2], new[3]):
            if not adjacent(ev, ['lbp_down', e[0], e[1], old[2], old[3]], ['lbp_up', e[0], e[1], new[2], new[3]]):
                bad.append(('location.not-announced', 'host %r moved %r -> %r without policy on_down(old)/on_up(new)' % (e, old[2:4], new[2:4])))
    # --- token map rebuilt whenever membership or tokens changed
    built_after = built_before
    rebuilds = [x for x in ev if x[0] == 'rebuild']
    if rebuilds:
        built_after = {(a, p): toks for a, p, toks in rebuilds[-1][2]}
    if local is not None and local['partitioner'] and CONTROL in bmap:
        want = {}
        if tm and local['tokens']:
            want[CONTROL] = list(local['tokens'])
        seen = {CONTROL}
        for r in valid_rows:
            e = row_endpoint(r)
            if e in seen:
                continue
            seen.add(e)
            if tm and r['tokens']:
                want[e] = list(r['tokens'])
        membership_changed = set(amap) != set(bmap)
        if (membership_changed or built_before != want) and built_after != want:
            if membership_changed:
                key = 'token.stale.membership-changed'
            elif built_before is None:
                key = 'token.stale.never-built'
            else:
                key = 'token.stale.tokens-only-change'
            bad.append((key, 'token map not rebuilt: built from %r, the tables now say %r' % (
                None if built_before is None else sorted(built_before.items()), sorted(want.items()))))
    return bad, built_after


def check_case(case, obs):
    """returns [(step index, key, what)]"""
    out = []
    before = [list(h) for h in case['init']]
    built = None
    for i, (step, o) in enumerate(zip(case['steps'], obs)):
        bad, built = check_step(case, before, built, step, o)
        out.extend((i, k, w) for k, w in bad)
        before = o['hosts']
    return out


# ---------------------------------------------------------------------------------------------- Gallina literals
def zl(v):
    return '(%d)' % v if v < 0 else '%d' % v


def oz(v):
    return 'None' if v is None else '(Some %s)' % zl(v)


def olist(v):
    return 'None' if v is None else '(Some [%s])' % '; '.join(zl(t) for t in v)


def g_ep(a, p):
    return '(%s, %s)' % (zl(a), zl(p))


def g_row(r):
    return '(Rw %s %s %s %s %s %s %s)' % (oz(r['peer']), oz(r['addr']), oz(r['port']), oz(r['host_id']), oz(r['dc']), oz(r['rack']),
                                        olist(r['tokens']))


def g_local(l, token_meta):
    if l is None:
        return 'None'
    toks = l['tokens'] if token_meta else None        # _SELECT_LOCAL_NO_TOKENS does not fetch them
    return '(Some (Lr %s %s %s %s %s))' % (oz(l['dc']), oz(l['rack']), oz(l['host_id']), 'true' if l['partitioner'] else 'false', olist(toks))


def g_rows(step, token_meta):
    rows = []
    for r in step['peers']:
        if not token_meta:
            r = dict(r, tokens=None)
        if r.get('port') is not None and not step.get('_v2', True):
            r = dict(r, port=None)
        rows.append(g_row(r))
    return '[%s]' % '; '.join(rows)


def g_hosts(hs):
    return '[%s]' % '; '.join('(%s, Hs %s %s %s)' % (g_ep(h[0], h[1]), oz(h[2]), oz(h[3]), oz(h[4])) for h in hs)


EV = {'lbp_up': 'ELbpUp', 'lbp_down': 'ELbpDown', 'lbp_add': 'ELbpAdd', 'l_add': 'EListenerAdd'}


def g_event(e):
    k = e[0]
    if k in EV:
        return '%s %s %s %s' % (EV[k], g_ep(e[1], e[2]), oz(e[3]), oz(e[4]))
    if k == 'lbp_remove':
        return 'ELbpRemove %s' % g_ep(e[1], e[2])
    if k == 'l_remove':
        return 'EListenerRemove %s' % g_ep(e[1], e[2])
    if k == 'rebuild':
        return 'ERebuild [%s]' % '; '.join('(%s, [%s])' % (g_ep(a, p), '; '.join(zl(t) for t in toks)) for a, p, toks in e[2])
    return 'ELbpRemove (-1, -1)'      # anything else (l_up / l_down): never equal to the model


def g_case(case, obs):
    cfg = '(Build_config %s %s 9042)' % (g_ep(*CONTROL), 'true' if case['token_meta'] else 'false')
    st0 = '(Build_state %s false None)' % g_hosts(case['init'])
    steps = '[%s]' % '; '.join('(%s, Build_snapshot %s %s)' % ('true' if s['force'] else 'false', g_local(s['local'], case['token_meta']),
                                                             g_rows(dict(s, _v2=case['v2']), case['token_meta'])) for s in case['steps'])
    seen = '[%s]' % '; '.join('(%s, [%s], %s)' % (g_hosts(o['hosts']), '; '.join(g_event(e) for e in o['events']),
                                                 'true' if o['partitioner'] else 'false') for o in obs)
    return '%s %s %s %s %s' % ('run_live_eqb' if case.get('live') else 'run_eqb', cfg, st0, steps, seen)
