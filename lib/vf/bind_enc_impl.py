"""C39: drive the real AES256ColumnEncryptionPolicy + BoundStatement.bind + ResultMessage.recv_results_rows."""
import datetime, decimal, io, struct, uuid

# (name, policy type name or None if not encryptable through the policy, cqltypes factory)
SIMPLE = ['int', 'bigint', 'smallint', 'tinyint', 'varint', 'text', 'ascii', 'varchar', 'blob', 'boolean', 'double', 'float',
          'uuid', 'timeuuid', 'inet', 'date', 'time', 'timestamp', 'decimal']
COLLECTIONS = ['list<int>', 'set<text>', 'map<text,int>']


def cqltype(name):
    from cassandra import cqltypes as T
    if name == 'list<int>':
        return T.ListType.apply_parameters([T.Int32Type])
    if name == 'set<text>':
        return T.SetType.apply_parameters([T.UTF8Type])
    if name == 'map<text,int>':
        return T.MapType.apply_parameters([T.UTF8Type, T.Int32Type])
    return T._cqltypes[name]


INT_RANGE = {'int': 31, 'bigint': 63, 'smallint': 15, 'tinyint': 7}


def gen_value(rng, t):
    """JSON-able tagged value"""
    if t in INT_RANGE:
        b = INT_RANGE[t]
        return ['int', rng.choice([0, 1, -1, 2**b - 1, -2**b, rng.randint(-2**b, 2**b - 1)])]
    if t == 'varint':
        return ['int', rng.choice([0, -1, 127, 128, -129, 2**64, -2**70, rng.randint(-10**30, 10**30)])]
    if t in ('text', 'varchar'):
        pool = ['', 'a', 'abc', u'é', u'€ x', u'\U0001f600', 'x' * 15, 'y' * 16, 'z' * 17, 'w' * 33]
        return ['str', rng.choice(pool)]
    if t == 'ascii':
        return ['str', rng.choice(['', 'A', 'hello', 'p' * 16, 'q' * 31])]
    if t == 'blob':
        n = rng.choice([0, 1, 15, 16, 17, 31, 32, 33, 48, 100])
        return ['bytes', bytes(rng.randrange(256) for _ in range(n)).hex()]
    if t == 'boolean':
        return ['bool', rng.random() < 0.5]
    if t == 'double':
        return ['float', rng.choice([0.0, -0.0, 1.5, -2.25, 1e300, 5e-324, float('inf'), rng.random()]).hex()]
    if t == 'float':
        return ['float', rng.choice([0.0, 1.5, -2.25, 0.15625, float('inf'), float(rng.randint(-2**20, 2**20)) / 64]).hex()]
    if t in ('uuid', 'timeuuid'):
        return ['uuid', '%032x' % (rng.getrandbits(128) & ~(0xf << 76) | (1 << 76))]
    if t == 'inet':
        return ['str', rng.choice(['1.2.3.4', '0.0.0.0', '255.255.255.255', '::1', '2001:db8::1', '10.0.0.%d' % rng.randrange(256)])]
    if t == 'date':
        return ['date', rng.choice([0, 1, 2**31, 2**31 - 1, 2**31 + 19000, rng.randrange(2**32)])]
    if t == 'time':
        return ['time', rng.choice([0, 1, 86399999999999, rng.randrange(86400 * 10**9)])]
    if t == 'timestamp':
        return ['ts', rng.choice([0, 1, 946684800000, 1600000000123, rng.randrange(946684800000, 1900000000000)])]
    if t == 'decimal':
        return ['dec', rng.choice(['0', '1.10', '-3.14159', '1E+5', '12345678901234567890.123', '-0.001'])]
    if t == 'list<int>':
        return ['list', [['int', rng.randint(-5, 5)] for _ in range(rng.randint(0, 3))]]
    if t == 'set<text>':
        return ['set', sorted(set(rng.choice(['a', 'b', 'cc', '']) for _ in range(rng.randint(0, 3))))]
    if t == 'map<text,int>':
        return ['map', sorted(dict((rng.choice(['k', 'l', 'm']), rng.randint(-3, 3)) for _ in range(rng.randint(0, 3))).items())]
    raise ValueError(t)


def pyval(v):
    if v is None:
        return None
    from cassandra import util
    k, x = v
    if k in ('int', 'str', 'bool'):
        return x
    if k == 'bytes':
        return bytes.fromhex(x)
    if k == 'float':
        return float.fromhex(x)
    if k == 'uuid':
        return uuid.UUID(hex=x)
    if k == 'date':
        return util.Date(x - 2**31)
    if k == 'time':
        return util.Time(x)
    if k == 'ts':
        return datetime.datetime(1970, 1, 1) + datetime.timedelta(milliseconds=x)
    if k == 'dec':
        return decimal.Decimal(x)
    if k == 'list':
        return [pyval(e) for e in x]
    if k == 'set':
        return util.sortedset(x)      # deterministic element order on the wire (a plain set serializes in hash order)
    if k == 'map':
        return dict((a, b) for a, b in x)
    raise ValueError(v)


def canon(x):
    """canonical, comparable, JSON-able form of a decoded / original Python value"""
    if x is None:
        return None
    if isinstance(x, bool):
        return ['bool', x]
    if isinstance(x, float):
        return ['float', x.hex()]
    if isinstance(x, int):
        return ['int', x]
    if isinstance(x, bytes):
        return ['bytes', x.hex()]
    if isinstance(x, str):
        return ['str', x]
    if isinstance(x, uuid.UUID):
        return ['uuid', x.hex]
    if isinstance(x, decimal.Decimal):
        return ['dec', str(x.as_tuple())]
    if isinstance(x, datetime.datetime):
        return ['ts', repr(x)]
    if isinstance(x, dict) or type(x).__name__ == 'OrderedMapSerializedKey':
        return ['map', sorted([canon(k), canon(v)] for k, v in x.items())]
    if isinstance(x, (set, frozenset)) or type(x).__name__ == 'SortedSet':
        return ['set', sorted(canon(e) for e in x)]
    if isinstance(x, (list, tuple)):
        return ['list', [canon(e) for e in x]]
    return [type(x).__name__, str(x)]


def aes_cbc_decrypt_raw(key, iv, ct):
    """independent use of the trusted library: raw AES-256-CBC decryption, no unpadding"""
    from cryptography.hazmat.primitives.ciphers import Cipher, algorithms, modes
    d = Cipher(algorithms.AES(key), modes.CBC(iv)).decryptor()
    return d.update(ct) + d.finalize()


def col_desc(case, i):
    """(keyspace, table, name) of column i: its own, as every bind marker / result column carries it"""
    c = case['cols'][i]
    return (c.get('ks', 'ks'), c.get('tb', 'tb'), c.get('name', 'c%d' % i))


def make_policy(case, iv, skip=()):
    from cassandra.policies import ColDesc
    from cassandra.column_encryption.policies import AES256ColumnEncryptionPolicy
    pol = AES256ColumnEncryptionPolicy(iv=iv)
    for i, c in enumerate(case['cols']):
        if c['key'] is not None and i not in skip:
            if i in (case.get('rereg') or []):
                # registered a first time with placeholder settings (other key, plaintext type blob), then again with the real ones
                pol.add_column(ColDesc(*col_desc(case, i)), b'\xee' * 32, 'blob')
            pol.add_column(ColDesc(*col_desc(case, i)), bytes.fromhex(c['key']), c['type'])
    return pol


class _NoSchema(object):
    keyspaces = {}


def prepared(case, meta, pv, pol):
    """the statement as Session.prepare builds it: PreparedStatement.from_message on the PREPARED response's bind metadata and
    partition-key indexes ([] = none given: protocol v3, or the key is not fully bound)"""
    from cassandra.query import PreparedStatement
    pk = list(case.get('pk_indexes') or []) if pv >= 4 else []
    return PreparedStatement.from_message(b'qid', meta, pk, _NoSchema(), 'q', 'ks', pv, meta, None, pol)


def result_class(handler):
    """the RESULT message class of the protocol handler under test: 'pure' | 'cython' | 'cython-lazy'"""
    import cassandra.protocol as P
    if handler == 'pure':
        return P._ProtocolHandler.message_types_by_opcode[P.ResultMessage.opcode]
    h = P.ProtocolHandler if handler == 'cython' else P.LazyProtocolHandler
    if not P.HAVE_CYTHON or h is None or h is P._ProtocolHandler:
        raise RuntimeError('compiled protocol handler not available')
    return h.message_types_by_opcode[P.ResultMessage.opcode]


def _string(x):
    b = x.encode('utf-8')
    return struct.pack('>H', len(b)) + b


def _short_bytes(b):
    return struct.pack('>H', len(b)) + b


def _type(t):
    """[option] of the native protocol for a cqltypes class (what the server puts into result metadata)"""
    from cassandra.protocol import ResultMessage
    from cassandra import cqltypes as T
    codes = dict((v, k) for k, v in ResultMessage.type_codes.items())
    if t in codes:
        return struct.pack('>H', codes[t])
    if issubclass(t, T.DateType):
        return struct.pack('>H', 0x000B)
    for base in (T.ListType, T.SetType, T.MapType):
        if issubclass(t, base):
            return struct.pack('>H', codes[base]) + b''.join(_type(x) for x in t.subtypes)
    raise ValueError(t)


def run_impl(case, handler='pure'):
    """case: {'pv', 'iv': hex, 'iv2': hex, 'cols': [{'type', 'key': hex|None, ['ks','tb','name']}], 'rows': [{'vals': [...], 'foreign': bool}],
              ['changed': ...], ['late': [column indexes registered with the policy only AFTER a first result was decoded]]}
    -> dict with per-row wire cells, the decode outcome, and everything the oracle needs."""
    from cassandra.protocol import ColumnMetadata
    from cassandra.policies import ColDesc
    from cassandra.query import PreparedStatement
    from cassandra import cqltypes as T
    RM = result_class(handler)
    pv = case['pv']
    iv, iv2 = bytes.fromhex(case['iv']), bytes.fromhex(case['iv2'])
    late = list(case.get('late') or [])
    pol, pol2 = make_policy(case, iv, late), make_policy(case, iv2, late)
    types = [cqltype(c['type']) for c in case['cols']]
    # on the server an encrypted column is a blob; every column carries its OWN keyspace / table (prepared BATCH, no global table spec)
    meta = [ColumnMetadata(*(col_desc(case, i) + (T.BytesType if c['key'] is not None else types[i],))) for i, c in enumerate(case['cols'])]
    res = {'wire': [], 'bind_err': None, 'ser': [], 'pre': None}
    if late:
        # a result for these columns is decoded BEFORE they are put under encryption (start-up SELECT), then add_column
        cells = [(b'\x01raw' if i in late else None) for i in range(len(meta))]
        body = struct.pack('>iii', 2, 0x0004, len(meta)) + struct.pack('>i', 1)
        for c in cells:
            body += struct.pack('>i', -1) if c is None else struct.pack('>i', len(c)) + c
        try:
            for p_ in (pol, pol2):
                rows = list(RM.recv_body(io.BytesIO(body), pv, {}, meta, p_).parsed_rows)
            res['pre'] = [[None if x is None else list(bytes(x)) for x in r] for r in rows]
        except Exception as e:
            res['pre'] = 'error %s: %s' % (type(e).__name__, str(e)[:200])
        for i in late:
            for p_ in (pol, pol2):
                p_.add_column(ColDesc(*col_desc(case, i)), bytes.fromhex(case['cols'][i]['key']), case['cols'][i]['type'])
    for row in case['rows']:
        ps = prepared(case, meta, pv, pol2 if row.get('foreign') else pol)
        vals = [pyval(v) for v in row['vals']]
        try:
            bs = ps.bind(vals)
        except Exception as e:
            res['bind_err'] = '%s: %s' % (type(e).__name__, str(e)[:200])
            return res
        res['wire'].append([None if c is None else bytes(c) for c in bs.values])
        res['ser'].append([None if v is None else bytes(types[i].serialize(v, pv)) for i, v in enumerate(vals)])
    ch = case.get('changed')
    frame_meta = meta
    if ch:
        # v5 Metadata_changed: after ALTER TABLE ADD the EXECUTE response carries the NEW column list (one plain column more,
        # inserted at ch['pos']) while the prepared statement still caches the OLD result metadata
        nt = cqltype(ch['col']['type'])
        near = col_desc(case, min(ch['pos'], len(meta) - 1))
        frame_meta = meta[:ch['pos']] + [ColumnMetadata(near[0], near[1], 'added', nt)] + meta[ch['pos']:]
        types = types[:ch['pos']] + [nt] + types[ch['pos']:]
        for r, v in enumerate(ch['vals']):
            cell = None if v is None else bytes(nt.serialize(pyval(v), pv))
            res['wire'][r] = res['wire'][r][:ch['pos']] + [cell] + res['wire'][r][ch['pos']:]
            res['ser'][r] = res['ser'][r][:ch['pos']] + [cell] + res['ser'][r][ch['pos']:]
        body = struct.pack('>iii', 2, 0x0008, len(frame_meta)) + _short_bytes(b'new-metadata-id')
        for m in frame_meta:
            body += _string(m.keyspace_name) + _string(m.table_name) + _string(m.name) + _type(m.type)
        body += struct.pack('>i', len(res['wire']))
    else:
        # the server echoes: a ROWS result with NO_METADATA (metadata comes from the prepared statement, as on v4+)
        body = struct.pack('>iii', 2, 0x0004, len(meta)) + struct.pack('>i', len(res['wire']))
    for w in res['wire']:
        for c in w:
            body += struct.pack('>i', -1) if c is None else struct.pack('>i', len(c)) + c
    try:
        msg = RM.recv_body(io.BytesIO(body), pv, {}, meta, pol)
        rows = [tuple(r) for r in msg.parsed_rows]
        res['decoded'] = [[canon(x) for x in r] for r in rows]
        res['decode_err'] = None
        try:
            res['decoded_ser'] = [[None if x is None else bytes(types[i].serialize(x, pv)) for i, x in enumerate(r)] for r in rows]
        except Exception:
            res['decoded_ser'] = None      # decoded values of the wrong Python type: the oracle reports decode.differs
    except Exception as e:
        res['decoded'] = None
        res['decode_err'] = '%s: %s' % (type(e).__name__, str(e)[:300])
    return res


# ---------------------------------------------------------------- Gallina rendering
def zlist(b):
    return '[' + '; '.join('%d' % x for x in b) + ']'


def g_cell(c):
    return 'None' if c is None else '(Some %s)' % zlist(c)


def g_rows(rows):
    return '[' + '; '.join('[' + '; '.join(g_cell(c) for c in r) + ']' for r in rows) + ']'


def g_opt_rows(rows):
    return 'None' if rows is None else '(Some %s)' % g_rows(rows)
