"""Runs under one build of the driver (PYTHONPATH decides which): decodes the cases in argv[1] (JSON) and writes
canonical results to argv[2].  Used by checks/C07.py for the pure build and the compiled build."""
import json, sys, datetime, decimal, uuid, struct, collections


def canon(v):
    from cassandra import util
    if v is None:
        return None
    if isinstance(v, bool):
        return ['bool', v]
    if isinstance(v, int):
        return ['i', str(v)]
    if isinstance(v, float):
        return ['f', struct.pack('>d', v).hex()]
    if isinstance(v, str):
        return ['s', v]
    if isinstance(v, (bytes, bytearray, memoryview)):
        b = bytes(v)
        if len(b) > 4096:
            import hashlib
            return ['b#', len(b), hashlib.sha1(b).hexdigest()]
        return ['b', b.hex()]
    if isinstance(v, decimal.Decimal):
        return ['dec', str(v.as_tuple())]
    if isinstance(v, uuid.UUID):
        return ['u', v.hex]
    if isinstance(v, datetime.datetime):
        return ['dt', v.isoformat(), v.microsecond, str(v.tzinfo)]
    if isinstance(v, datetime.date):
        return ['d', v.isoformat()]
    if isinstance(v, util.Date):
        return ['date', v.days_from_epoch]
    if isinstance(v, util.Time):
        return ['time', v.nanosecond_time]
    if isinstance(v, util.Duration):
        return ['dur', v.months, v.days, str(v.nanoseconds)]
    if isinstance(v, (util.SortedSet, set, frozenset)):
        return ['set', [canon(x) for x in v]]
    if isinstance(v, util.OrderedMap) or isinstance(v, dict):
        return ['map', [[canon(k), canon(x)] for k, x in v.items()]]
    if isinstance(v, tuple):
        return ['t', [canon(x) for x in v]]
    if isinstance(v, list):
        return ['l', [canon(x) for x in v]]
    return ['other', type(v).__name__, repr(v)]


def main():
    cases = json.load(open(sys.argv[1]))
    import cassandra.protocol as P
    import cassandra.cqltypes as T
    from cassandra import murmur3 as M
    from cassandra.metadata import Murmur3Token
    out = {'build': {'have_cython': bool(P.HAVE_CYTHON), 'protocol_file': P.__file__, 'murmur3': M.murmur3.__module__ if hasattr(M.murmur3, '__module__') else str(M.murmur3),
                     'handler': P.ProtocolHandler.__name__}, 'results': []}
    for c in cases:
        try:
            k = c['kind']
            if k == 'murmur':
                key = bytes.fromhex(c['key'])
                r = [str(M.murmur3(key)), str(Murmur3Token.hash_fn(key))]
            elif k == 'value':
                t = T.lookup_casstype(c['type'])
                r = canon(t.from_binary(bytes.fromhex(c['bytes']), c['pv']))
            elif k == 'rows':
                H0 = P.ProtocolHandler
                if c.get('handler') == 'lazy':      # compiled build: LazyParser; pure build: the one pure decoder
                    H0 = getattr(P, 'LazyProtocolHandler', None) or P.ProtocolHandler
                rm = None
                if c.get('result_metadata') is not None:
                    rm = [(ks, tb, nm, T.lookup_casstype(tn)) for ks, tb, nm, tn in c['result_metadata']]
                msg = H0.decode_message(c['pv'], {}, 0, 0, 8, bytes.fromhex(c['body']), None, rm)
                msg.parsed_rows = list(msg.parsed_rows)
                if c.get('digest_rows'):
                    import hashlib
                    r = {'names': list(msg.column_names), 'nrows': len(msg.parsed_rows),
                         'digest': hashlib.sha1(json.dumps([[canon(x) for x in row] for row in msg.parsed_rows]).encode()).hexdigest()}
                else:
                    r = {'names': list(msg.column_names), 'types': [t.cass_parameterized_type() for t in msg.column_types],
                         'rows': [[canon(x) for x in row] for row in msg.parsed_rows], 'paging_state': canon(msg.paging_state)}
            elif k == 'ce_rows':
                # RESULT rows with an encrypted column: the policy is a class attribute of the protocol handler
                from cassandra.policies import ColDesc
                from cassandra.column_encryption.policies import AES256ColumnEncryptionPolicy
                pol = AES256ColumnEncryptionPolicy()
                for col in c['enc_cols']:
                    pol.add_column(ColDesc('ks', 'tbl', col), bytes.fromhex(c['key']), c['enc_type'])

                class H(P.ProtocolHandler):
                    column_encryption_policy = pol
                msg = H.decode_message(c['pv'], {}, 0, 0, 8, bytes.fromhex(c['body']), None, None)
                r = {'rows': [[canon(x) for x in row] for row in msg.parsed_rows]}
            elif k == 'ts':
                from cassandra import util
                r = canon(util.datetime_from_timestamp(c['seconds']))
            else:
                r = ['unknown-kind']
        except Exception as e:
            r = ['exc', type(e).__name__]
        out['results'].append(r)
    json.dump(out, open(sys.argv[2], 'w'))


if __name__ == '__main__':
    main()
