"""History generation, Gallina literals and the Python oracles of C14 / C15 (used by checks/C14.py and checks/C15.py).

Histories are produced by walking the operations that are enabled in the REAL future's current state (read from the
fakes), plus a fraction of disabled operations (which must be no-ops on both sides)."""
from vf import futa_harness as H

KINDS_SIMPLE = [('rows', False, None), ('rows', True, None), ('void', None, None), ('junk', None, None)]


# ---------------------------------------------------------------------------------------------- Gallina literals
def z(v):
    return '(%d)' % v if v < 0 else '%d' % v


def zlist(l):
    return '[' + '; '.join(z(x) for x in l) + ']'


def coq_pools(p):
    names = {'ok': 'POk', 'noconn': 'PNoConn', 'sendfail': 'PSendFail', 'shutdown': 'PShutdown', 'missing': 'PMissing'}
    return '[' + '; '.join('(%s, %s)' % (z(int(h)), names[s]) for h, s in sorted(p.items(), key=lambda kv: int(kv[0]))) + ']'


def coq_cfg(cfg):
    t = cfg.get('timeout')
    return '(mkConfig %s %s %s %s %s)' % (zlist(cfg.get('plan', [])), 'None' if t is None else '(Some %s)' % z(t),
                                          zlist(cfg.get('specs', [])), coq_pools(cfg.get('pools', {})), z(cfg.get('now', 0)))


def coq_op(op):
    k = op[0]
    if k == 'send':
        return 'Send'
    if k == 'pools':
        return '(SetPools %s)' % coq_pools(op[1])
    if k == 'tick':
        return '(Tick %s)' % z(op[1])
    if k == 'resp':
        kind, arg = op[2], op[3]
        if kind == 'rows':
            rk = '(RRows %s)' % ('true' if arg else 'false')
        elif kind == 'void':
            rk = 'RVoid'
        elif kind == 'retry':
            rk = '(RRetry %s)' % ['DRetry', 'DRetryNext', 'DRethrow', 'DIgnore'][arg]
        elif kind == 'other':
            rk = 'ROther'
        elif kind == 'setks':
            rk = 'RSetKs'
        elif kind == 'schema':
            rk = 'RSchema'
        elif kind == 'unprepared':
            rk = 'RUnprepared'
        else:
            rk = 'RJunk'
        return '(Resp %d %s)' % (op[1], rk)
    if k == 'fire':
        return '(Fire %d)' % op[1]
    if k == 'run':
        return '(Run %d)' % op[1]
    if k == 'nextpage':
        return '(NextPage %s)' % zlist(op[1])
    if k == 'addcb':
        return 'AddCb'
    if k == 'result':
        return 'Result'
    if k == 'presp':
        return '(PResp %d %s)' % (op[1], {'prepared': 'PPrepared', 'mismatch': 'PMismatch', 'error': 'PError', 'connerr': 'PConnErr', 'junk': 'PJunk'}[op[2]])
    if k == 'foreign':
        return '(Foreign %s)' % z(op[1])
    if k == 'shutdown':
        return 'Shutdown'
    if k == 'refresh':
        return '(RunRefresh %d)' % op[1]
    if k == 'ksreport':
        return '(KsReport %d %s %s)' % (op[1], z(op[2]), 'true' if op[3] else 'false')
    raise ValueError(op)


def coq_ops(ops):
    return '[' + '; '.join(coq_op(o) for o in ops) + ']'


def coq_obs(obs):
    return '[' + '; '.join(zlist(o) for o in obs) + ']'


def corr_case(g, pf, cfg, ops, obs):
    return 'corr %s %s %s %s %s' % ('true' if g else 'false', 'true' if pf else 'false', coq_cfg(cfg), coq_ops(ops), coq_obs(obs))


def obs_hash(o):
    acc = 0
    for x in o:
        acc = (acc * 1000003 + x + 7) % 2305843009213693951
    return acc


def corrh_case(g, pf, cfg, ops, obs):
    return 'corrh %s %s %s %s %s' % ('true' if g else 'false', 'true' if pf else 'false', coq_cfg(cfg), coq_ops(ops),
                                     zlist([obs_hash(o) for o in obs]))


# ---------------------------------------------------------------------------------------------- oracles on the implementation
class Oracle(object):
    """The statements of C14 and C15 evaluated on the real future after every step.  Reports each failure once per
    history, with a key naming the failure class and the kind of step that exposed it."""

    def __init__(self, world, punctual):
        self.w = world
        self.punctual = punctual
        self.found = []          # (property, key, what, step index)
        self.seen = set()
        self.page = 1
        self.timeout_done = False
        self.sent = False
        self.sent_at_once = True     # C15 reads execute_async as __init__ immediately followed by send_request()

    def _add(self, prop, key, what, i):
        cls = key.split('.')[0]
        if (prop, cls) not in self.seen:
            self.seen.add((prop, cls))
            self.found.append((prop, key, what, i))

    @staticmethod
    def opname(op):
        if op is None:
            return 'init'
        if op[0] == 'resp':
            return 'resp-%s' % op[2]
        if op[0] == 'presp':
            return 'presp-%s' % op[1 + 1]
        if op[0] == 'fire':
            return 'fire'
        return op[0]

    def before(self, op):
        self.ntimers = len(self.w.timers)
        self.fire_kind = None
        if op[0] == 'fire' and 0 <= op[1] < len(self.w.timers):
            self.fire_kind = self.w.timers[op[1]].kind

    def after(self, op, enabled, i):
        w, f = self.w, self.w.f
        cl = H.cluster_mod()
        name = self.opname(op)
        if op is not None and op[0] == 'send':
            self.sent = True
        if op is not None and op[0] == 'tick' and op[1] > 0 and not self.sent:
            self.sent_at_once = False
        if op is not None and op[0] == 'nextpage' and enabled:
            self.page += 1
            self.timeout_done = False
        if op is not None and op[0] == 'fire' and enabled and self.fire_kind is not None and self.fire_kind >= 1 \
                and len(w.timers) == self.ntimers:
            self.timeout_done = True     # the timeout handler ran and did not reschedule itself
        fr_set = f._final_result is not cl._NOT_SET
        fe_set = f._final_exception is not None
        # ---- C14: at most once, never both, result() reports what was delivered
        for j, p in enumerate(w.pairs):
            ncb, neb = len(p['cb']), len(p['eb'])
            if ncb > 1:
                self._add('C14', 'callback-twice.%s' % name, 'callback of pair %d ran %d times (values %r)' % (j, ncb, p['cb']), i)
            if neb > 1:
                self._add('C14', 'errback-twice.%s' % name, 'errback of pair %d ran %d times (values %r)' % (j, neb, p['eb']), i)
            if ncb >= 1 and neb >= 1:
                self._add('C14', 'callback-and-errback.%s' % name,
                          'pair %d: callback ran with %r and errback ran with %r' % (j, p['cb'], p['eb']), i)
            if ncb + neb == 1:
                if ncb and not (f._event.is_set() and fr_set and w.canon_val(f._final_result) == p['cb'][0]):
                    self._add('C14', 'result-mismatch.%s' % name, 'callback got %r but result() would not return it' % (p['cb'][0],), i)
                if neb and not (f._event.is_set() and not fr_set and w.canon_exc(f._final_exception) == p['eb'][0]):
                    self._add('C14', 'result-mismatch.%s' % name, 'errback got %r but result() would not raise it' % (p['eb'][0],), i)
        # ---- C14 (for the OTHER statement): this future never withdraws a request it did not send
        for (h, rid) in w.foreign_intact():
            self._add('C14', 'foreign-request-withdrawn.%s' % name,
                      'the request of another statement in flight on h%d (stream %d) was unregistered by this future: its answer will be dropped, it never completes' % (h, rid), i)
        # ---- C14: outcome delivered once everything is answered / the timeout fired
        answered = bool(w.attempts) and not w.open_attempts() and not w.queue and not w.refreshes and not any(ch['waiting'] for ch in w.chains)
        if answered or self.timeout_done:
            ok = f._event.is_set() and (fr_set or fe_set) and all(len(p['cb']) + len(p['eb']) >= 1 for p in w.pairs)
            if not ok:
                self._add('C14', 'no-outcome.%s.%s' % ('answered' if answered else 'timeout-fired', name),
                          'every request answered / timeout fired, but no outcome was delivered to every pair', i)
        # ---- C15: in punctual histories (no live timer overdue) an unfinished fetch is at most T + 30 ms old
        T = w.cfg.get('timeout')
        in_scope = (self.sent and self.sent_at_once) or not w.cfg.get('specs')   # C15_bounded / C15_bounded_without_speculation
        if self.punctual and in_scope and T is not None and not (fr_set or fe_set):
            if w.now > w.epoch_start + T + 30:
                self._add('C15', 'unbounded.%s' % ('first-page' if self.page == 1 else 'later-page'),
                          'page %d fetch started at %d ms, timeout %d ms, still no outcome at %d ms and no timer pending'
                          % (self.page, w.epoch_start, T, w.now), i)


def run_with_oracle(cfg, ops, punctual=False):
    """Replays a history on the real class.  -> (world, observations, enabled flags, oracle)"""
    w = H.World(cfg)
    orc = Oracle(w, punctual)
    obs = [w.observe()]
    en = []
    orc.before(['init'])
    orc.after(None, True, 0)
    for i, op in enumerate(ops):
        orc.before(op)
        e = w.step(op)
        en.append(e)
        obs.append(w.observe())
        orc.after(op, e, i + 1)
    return w, obs, en, orc


def is_punctual(cfg, ops):
    """no tick moves the clock past the due time of a live timer"""
    w = H.World(cfg)
    for op in ops:
        if op[0] == 'tick':
            for k in w.live_timers():
                if w.now + op[1] > w.timers[k].due:
                    return False
        w.step(op)
    return True


# ---------------------------------------------------------------------------------------------- random walks
def random_cfg(rng, timeout_p=0.8, max_specs=2):
    hosts = list(range(1, rng.randint(1, 4) + 1))
    rng.shuffle(hosts)
    pools = {}
    for h in hosts:
        pools[h] = rng.choice(['ok'] * 6 + ['noconn', 'sendfail', 'shutdown', 'missing'])
    nspec = rng.choice([0, 0, 1, 1, 2, max_specs])
    specs = [rng.choice([0, 10, 50, 100, 100, 300, 1000]) for _ in range(nspec)]
    timeout = rng.choice([0, 5, 100, 500, 1000, 1000, 2000]) if rng.random() < timeout_p else None
    return {'plan': hosts, 'timeout': timeout, 'specs': specs, 'pools': pools, 'now': rng.choice([0, 0, 1000, 123456])}


def random_resp(rng, a):
    r = rng.random()
    if r < 0.30:
        return ['resp', a, 'rows', rng.random() < 0.4, None]
    if r < 0.36:
        return ['resp', a, 'void', None, None]
    if r < 0.42:
        return ['resp', a, 'setks', None, None]
    if r < 0.47:
        return ['resp', a, 'schema', None, None]
    if r < 0.54:
        return ['resp', a, 'unprepared', None, None]
    if r < 0.80:
        return ['resp', a, 'retry', rng.randrange(4), rng.choice(H.RETRY_CLASSES)]
    if r < 0.93:
        return ['resp', a, 'other', None, rng.choice(H.OTHER_CLASSES)]
    return ['resp', a, 'junk', None, None]


def random_walk(rng, cfg, nsteps, punctual, illegal_p=0.05, resp_weight=3):
    """Walks the enabled operations of the real future.  -> ops"""
    w = H.World(cfg)
    ops = []
    hosts = sorted(int(h) for h in cfg['pools'])
    sent = False
    for _ in range(nsteps):
        cand = []
        if not sent:
            cand += [['send']] * 12
        else:
            for a in w.open_attempts():
                if w.attempts[a]['prep']:
                    cand += [['presp', a, rng.choice(['prepared', 'prepared', 'prepared', 'mismatch', 'error', 'connerr', 'junk'])]] * max(resp_weight, 1)
                else:
                    cand += [random_resp(rng, a)] * resp_weight
            if rng.random() < 0.08:
                cand += [['foreign', rng.choice(hosts)]] * 3
        due = w.due_timers()
        for k in due:
            cand += [['fire', k]] * 4
        live = w.live_timers()
        if live and not due:
            nxt = min(w.timers[k].due for k in live)
            cand += [['tick', nxt - w.now]] * 3
            if nxt - w.now > 1:
                cand.append(['tick', rng.randint(1, nxt - w.now)])
        if not punctual or not live:
            cand.append(['tick', rng.choice([1, 10, 30, 31, 100, 1000, 5000])])
        for k in range(len(w.queue)):
            cand += [['run', k]] * 3
        for c, ch in enumerate(w.chains):
            for h in sorted(ch['waiting']):
                cand += [['ksreport', c, h, rng.random() < 0.35]] * 2
        for k in range(len(w.refreshes)):
            cand += [['refresh', k]] * 3
        if sent and not w.session.is_shutdown and rng.random() < 0.06:
            cand += [['shutdown']] * 4
        if w.has_paging():
            plan = hosts[:]
            rng.shuffle(plan)
            cand += [['nextpage', plan[:rng.randint(0, len(plan))]]] * (3 if w.f._event.is_set() else 1)
        if len(w.pairs) < 3:
            cand += [['addcb']] * 2
        if w.can_result():
            cand.append(['result'])
        if rng.random() < 0.15:
            cand.append(['pools', dict((h, rng.choice(['ok', 'ok', 'ok', 'noconn', 'sendfail', 'shutdown', 'missing'])) for h in hosts)])
        if rng.random() < illegal_p:
            cand = [['resp', rng.randint(0, 4), 'rows', False, None], ['fire', rng.randint(0, 4)], ['run', rng.randint(0, 3)],
                    ['ksreport', rng.randint(0, 1), rng.choice(hosts), False], ['refresh', rng.randint(0, 1)],
                    ['presp', rng.randint(0, 3), 'prepared'],
                    ['nextpage', hosts], ['result']]
            if punctual:
                cand = [c for c in cand if c[0] != 'tick']
        op = rng.choice(cand)
        if op[0] == 'send':
            sent = True
        ops.append(op)
        w.step(op)
    return ops


# ---------------------------------------------------------------------------------------------- exhaustive small scope
def enumerate_orderings(cfg, kinds, max_depth, budget, allow_nextpage=True, final_tick=100000, shutdown_at=None,
                        pkinds=('prepared', 'mismatch', 'connerr')):
    """All orderings of: a response (each kind) on any open attempt, the next due timer (clock moved to its due time
    first), any queued task, one page fetch.  Depth-first, each node replays its history on a fresh real future.
    Yields complete histories (leaves).  -> generator of ops; sets enumerate_orderings.capped."""
    enumerate_orderings.capped = False
    count = [0]
    prefix = [['addcb'], ['send']]

    def expand(ops, pages):
        if count[0] >= budget:
            enumerate_orderings.capped = True
            return
        w = H.World(cfg)
        for op in ops:
            w.step(op)
        nxt = []
        if len(ops) < max_depth:
            for a in w.open_attempts():
                if w.attempts[a]['prep']:
                    for pk in pkinds:
                        nxt.append(([['presp', a, pk]], pages))
                    continue
                for (kind, arg, cls) in kinds:
                    nxt.append(([['resp', a, kind, arg, cls]], pages))
            live = w.live_timers()
            if live:
                k = min(live, key=lambda k: (w.timers[k].due, k))
                d = w.timers[k].due - w.now
                nxt.append((([['tick', d]] if d > 0 else []) + [['fire', k]], pages))
            for k in range(len(w.queue)):
                nxt.append(([['run', k]], pages))
            for c, ch in enumerate(w.chains):
                for h in sorted(ch['waiting']):
                    for err in (False, True):
                        nxt.append(([['ksreport', c, h, err]], pages))
            for k in range(len(w.refreshes)):
                nxt.append(([['refresh', k]], pages))
            if shutdown_at is not None and not w.session.is_shutdown and len(ops) >= shutdown_at:
                nxt.append(([['shutdown']], pages))
            if allow_nextpage and w.has_paging() and pages < 1 and w.f._event.is_set():
                nxt.append(([['nextpage', list(cfg['plan'])]], pages + 1))
        if not nxt:
            count[0] += 1
            # nothing is pending any more (or the depth is reached): if no timer is live either, let a long time pass
            # -- a punctual tick -- so that a fetch that was left without outcome AND without timer shows
            yield ops + ([['tick', final_tick]] if final_tick and not w.live_timers() else [])
            return
        for extra, pg in nxt:
            for h in expand(ops + extra, pg):
                yield h

    for h in expand(prefix, 0):
        yield h


# ---------------------------------------------------------------------------------------------- directed families
def fire_until_quiet(cfg, ops, limit=8):
    """ops that fire, punctually, every timer that becomes due after `ops` (servers stay silent)"""
    w = H.World(cfg)
    for op in ops:
        w.step(op)
    tail = []
    for _ in range(limit):
        live = w.live_timers()
        if not live:
            break
        k = min(live, key=lambda k: (w.timers[k].due, k))
        d = w.timers[k].due - w.now
        for op in (([['tick', d]] if d > 0 else []) + [['fire', k]]):
            w.step(op)
            tail.append(op)
    return tail


def directed_histories():
    """Small families aimed at code paths the orderings above do not vary: the environment changes between an answer and
    the retry task; a page is fetched again after its fetch failed; a coordinator fails retryably and the re-sent request
    is never answered.  -> (cfg, ops, punctual)"""
    out = []
    pools3 = {1: 'ok', 2: 'ok', 3: 'ok'}
    for T in (None, 500):
        for specs in ([], [100]):
            cfg = {'plan': [1, 2, 3], 'timeout': T, 'specs': specs, 'pools': dict(pools3), 'now': 0}
            # RETRY on the same host / next host, the pool of that host became unusable before the retry task runs
            for dec in (0, 1):
                for st in ('noconn', 'sendfail', 'shutdown', 'missing'):
                    for others in ('ok', st):
                        for cls in ('ReadTimeout', 'ConnException'):
                            pl = {1: st, 2: others, 3: others}
                            ops = [['addcb'], ['send'], ['resp', 0, 'retry', dec, cls], ['pools', pl], ['run', 0]]
                            out.append((cfg, ops, True))
                            out.append((cfg, ops + [['resp', 1, 'rows', False, None], ['result']], True))
            # a page fetch fails (server error / rethrown error / client timeout), the application fetches the page again
            head = [['addcb'], ['send'], ['resp', 0, 'rows', True, None], ['nextpage', [2, 3, 1]]]
            fails = [[['resp', 1, 'other', None, 'Invalid']], [['resp', 1, 'retry', 2, 'Unavailable']], [['resp', 1, 'junk', None, None]]]
            if T is not None:
                fails.append(fire_until_quiet(cfg, head))      # servers silent: the page fetch times out
            for fail in fails:
                for again in ([['resp', 2, 'rows', False, None]],
                              [['resp', 2, 'rows', True, None], ['nextpage', [3, 1]], ['resp', 3, 'void', None, None]],
                              [['resp', 2, 'other', None, 'Syntax']], []):
                    ops = head + fail + [['nextpage', [1, 2]]] + again
                    ops = ops + fire_until_quiet(cfg, ops) + [['tick', 5000], ['result'], ['addcb']]
                    out.append((cfg, ops, True))
            # Session.shutdown() before an answer is processed: the executor refuses retry / schema refresh
            for resp in (['resp', 0, 'schema', None, None], ['resp', 0, 'retry', 0, 'ConnShutdown'], ['resp', 0, 'retry', 1, 'ConnShutdown'],
                         ['resp', 0, 'retry', 1, 'ReadTimeout'], ['resp', 0, 'rows', False, None], ['resp', 0, 'setks', None, None]):
                for pl in (None, {1: 'shutdown', 2: 'shutdown', 3: 'shutdown'}):
                    ops = [['addcb'], ['send'], ['shutdown']] + ([['pools', pl]] if pl else []) + [resp]
                    out.append((cfg, ops + fire_until_quiet(cfg, ops) + [['result']], True))
            out.append((cfg, [['addcb'], ['send'], ['resp', 0, 'schema', None, None], ['shutdown'], ['refresh', 0], ['result']], True))
            out.append((cfg, [['addcb'], ['send'], ['resp', 0, 'retry', 1, 'Overloaded'], ['shutdown'], ['run', 0], ['resp', 1, 'retry', 1, 'ConnShutdown'], ['result']], True))
            # UNPREPARED answer -> re-prepare on the executor -> PREPARE -> its answer -> re-execute; Session.shutdown() at each point
            base = [['addcb'], ['send'], ['resp', 0, 'unprepared', None, None], ['run', 0]]
            for pk in ('prepared', 'mismatch', 'error', 'connerr', 'junk'):
                tail = [['presp', 1, pk], ['run', 0], ['resp', 2, 'rows', False, None], ['result']]
                out.append((cfg, base + tail, True))
                for cut in range(2, len(base + tail)):
                    ops = (base + tail)[:cut] + [['shutdown']] + (base + tail)[cut:]
                    out.append((cfg, ops + fire_until_quiet(cfg, ops) + [['result']], True))
            for st in ('noconn', 'sendfail', 'shutdown', 'missing'):
                ops = [['addcb'], ['send'], ['resp', 0, 'unprepared', None, None], ['pools', {1: st, 2: 'ok', 3: 'ok'}], ['run', 0]]
                out.append((cfg, ops, True))
                ops = base + [['pools', {1: st, 2: 'ok', 3: 'ok'}], ['presp', 1, 'prepared'], ['run', 0]]
                out.append((cfg, ops, True))
            # a connection shared with another statement: stream ids are recycled.  The other statement's request must survive
            # whatever this future does with ITS stream ids (refused sends, answers, timeouts)
            if T is not None:
                for head in ([['addcb'], ['send'], ['pools', {1: 'ok', 2: 'sendfail', 3: 'sendfail'}], ['resp', 0, 'retry', 1, 'ReadTimeout'], ['run', 0]],
                             [['addcb'], ['send'], ['pools', {1: 'ok', 2: 'sendfail', 3: 'noconn'}]] + ([['tick', 100], ['fire', 0]] if specs else [['resp', 0, 'retry', 1, 'Overloaded'], ['run', 0]]),
                             [['addcb'], ['send'], ['resp', 0, 'retry', 0, 'ReadTimeout']],
                             [['addcb'], ['send'], ['resp', 0, 'rows', False, None]],
                             [['addcb'], ['send'], ['resp', 0, 'unprepared', None, None], ['run', 0], ['presp', 1, 'prepared']]):
                    for fh in (1, 2, 3):
                        ops = head + [['pools', {1: 'ok', 2: 'ok', 3: 'ok'}], ['foreign', fh]]
                        out.append((cfg, ops + fire_until_quiet(cfg, ops) + [['tick', 5000]], True))
            # USE statement: SET_KEYSPACE answer, then the pools report their internal USE in every order, each may fail
            import itertools
            for order in itertools.permutations([1, 2, 3]):
                for failing in (None, 1, 2, 3):
                    ops = [['addcb'], ['send'], ['resp', 0, 'setks', None, None]] + \
                          [['ksreport', 0, h, h == failing] for h in order] + [['result']]
                    out.append((cfg, ops, True))
            for pl in ({1: 'ok', 2: 'shutdown', 3: 'missing'}, {1: 'shutdown', 2: 'shutdown', 3: 'missing'}):
                for err in (False, True):
                    out.append((cfg, [['addcb'], ['send'], ['pools', pl], ['resp', 0, 'setks', None, None], ['ksreport', 0, 1, err], ['result']], True))
            if T is not None:
                # the client timeout fires when the pool of the current host is gone / shut down / still there (request in flight)
                for st in ('missing', 'shutdown', 'noconn', 'ok'):
                    head = [['addcb'], ['send'], ['pools', {1: st, 2: 'ok', 3: 'ok'}]]
                    out.append((cfg, head + fire_until_quiet(cfg, head) + [['tick', 5000], ['result']], True))
                # ... and between an answer and what the answer leaves pending: queued retry, keyspace propagation
                for mid in ([['resp', 0, 'retry', 0, 'ReadTimeout']], [['resp', 0, 'retry', 1, 'ConnException']], [['resp', 0, 'setks', None, None]]):
                    head = [['addcb'], ['send']] + mid
                    out.append((cfg, head + fire_until_quiet(cfg, head) + [['tick', 5000], ['result']], True))
                # no host can be reached and send_request() comes late (or never): _on_timeout re-arms itself while no connection is known
                for late in (None, 2, 5):
                    cfgn = {'plan': [1, 2], 'timeout': T, 'specs': specs, 'pools': {1: 'noconn', 2: 'sendfail' if late == 5 else 'noconn'}, 'now': 0}
                    ops = []
                    w = H.World(cfgn)
                    for i in range(8):
                        if late is not None and i == late:
                            ops.append(['send'])
                            w.step(['send'])
                        nxt = fire_until_quiet(cfgn, ops, limit=1)
                        ops += nxt
                        for op in nxt:
                            w.step(op)
                    out.append((cfgn, ops + [['tick', 5000], ['result']], True))
            # fail-then-silent: the first coordinator fails retryably, the re-sent request is never answered
            if T is not None:
                for dec in (0, 1):
                    for cls in H.RETRY_CLASSES:
                        ops = [['addcb'], ['send'], ['resp', 0, 'retry', dec, cls], ['run', 0]]
                        tail = fire_until_quiet(cfg, ops)
                        out.append((cfg, ops + tail + [['tick', 5000], ['result']], True))
    return out
