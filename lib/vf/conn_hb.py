"""The body of the REAL ConnectionHeartbeat.run, executed for a scripted number of rounds inside ONE run() call (so that
whatever run() keeps between rounds is kept), thread never started.  `_shutdown_event` is a scripted object; time is
VIRTUAL: cassandra.connection.time is replaced by a clock that only HeartbeatFuture.wait advances; each connection's
reply (supported / error / silence) arrives at a scripted instant after the wait phase began."""
from cassandra.connection import ConnectionHeartbeat, HeartbeatFuture
import cassandra.connection as cconn
import threading

T_DEFAULT = 100      # idle_heartbeat_timeout in virtual ticks


class ScriptedEvent(object):
    def __init__(self, nrounds, on_round_end):
        self.nrounds, self.on_round_end = nrounds, on_round_end
        self.waits = 0
        self.done = False

    def wait(self, t=None):
        self.waits += 1
        if self.waits >= 2:
            self.on_round_end(self.waits - 2)
        if self.waits >= 1 + self.nrounds:
            self.done = True

    def is_set(self):
        return self.done


class Clock(object):
    def __init__(self):
        self.now = 1000.0

    def time(self):
        return self.now

    def sleep(self, t):
        self.now += t


def run_rounds(harnesses, rounds, T=T_DEFAULT, holders=None):
    """harnesses: list of Harness (one real connection + its real HostConnection owner each).
    rounds: list of dicts {'replies': [...], 'delays': [...] (virtual ticks after the wait phase began, None = at once),
                           'raise_in_owner': [indices whose owner's failure handling raises once]}.
    Returns per round, per harness: dict(sent, waited_ok)"""
    hb = ConnectionHeartbeat.__new__(ConnectionHeartbeat)
    hb._interval, hb._timeout = 30, T
    if holders is None:
        holders = [h.pool for h in harnesses]
    hb._get_connection_holders = lambda: holders
    clock = Clock()
    st = {'round': 0, 'phase_start': None, 'fed': set()}
    orig_hbf_init, orig_wait = HeartbeatFuture.__init__, HeartbeatFuture.wait
    real_time = cconn.time
    report = [[{'sent': False, 'waited_ok': None} for _ in harnesses] for _ in rounds]

    def cur():
        return rounds[min(st['round'], len(rounds) - 1)]

    def arrival(k):
        r = cur()
        if r['replies'][k] == 'silent':
            return None
        d = (r.get('delays') or [None] * len(harnesses))[k]
        return st['phase_start'] + (d or 0)

    def advance_to(t):
        clock.now = max(clock.now, t)
        due = sorted((arrival(k), k) for k in range(len(harnesses))
                     if (st['round'], k) not in st['fed'] and arrival(k) is not None and arrival(k) <= clock.now)
        for _, k in due:
            st['fed'].add((st['round'], k))
            h = harnesses[k]
            ent = [w for w in h.wire if w[1] == h.hb_tok]
            if ent and report[st['round']][k]['sent']:
                h.a_respond({'a': 'respond', 'i': ent[0][0], 'd': 'DSupported' if cur()['replies'][k] == 'supported' else 'DErr'})

    def hbf_init(self, connection, owner):
        h = connection.h
        h.hb_seq += 1
        h.hb_tok = 1000 + h.hb_seq
        h.tokens[h.hb_tok] = {'kind': 'hb'}
        h.next_token, h.next_nested_cb = h.hb_tok, None
        h.atomic_send = True
        h.getid_site = 'HeartbeatFuture'
        before = len(h.events)
        try:
            orig_hbf_init(self, connection, owner)
        finally:
            h.atomic_send = False
            h.getid_site = None
            h.next_token = None
            h.emit('HbSend %d' % h.hb_tok)
            if self._exception is not None and len(h.events) == before:
                h.event([11])
            h.checkpoint()
        h.hb_future = self
        self.vf_round = st['round']
        # ordering probe: what a thread blocked in wait() sees at the very moment the event is set
        fut, ev0 = self, self._event

        class ProbeEvent(threading.Event):
            def set(self_):
                if not getattr(fut, 'vf_set_seen', False):
                    fut.vf_set_seen = True
                    fut.vf_exc_at_set = fut._exception
                threading.Event.set(self_)
        pe = ProbeEvent()
        if ev0.is_set():
            self.vf_set_seen, self.vf_exc_at_set = True, self._exception
            threading.Event.set(pe)
        self._event = pe
        report[st['round']][harnesses.index(h)]['sent'] = any(w[1] == h.hb_tok for w in h.wire)

    def hbf_wait(self, timeout):
        h = self.connection.h
        k = harnesses.index(h)
        if st['phase_start'] is None:
            st['phase_start'] = clock.now          # run() has just taken its start_time for the wait phase
        advance_to(clock.now)
        stale = getattr(self, 'vf_round', st['round']) != st['round']
        a = None if stale else arrival(k)
        was_blocked = not self._event.is_set()
        if not self._event.is_set():
            if a is not None and timeout is not None and timeout > 0 and a <= clock.now + timeout:
                advance_to(a)
            else:
                advance_to(clock.now + max(timeout or 0, 0))
        early = (was_blocked and self._event.is_set() and getattr(self, 'vf_set_seen', False)
                 and self.vf_exc_at_set is None and self._exception is not None)
        saved_exc = self._exception
        if early:
            # the waiter was blocked in wait() when the reply came in on the event thread: it wakes up when the event is set and
            # reads _exception as it was AT THAT MOMENT (the callback had not stored it yet)
            h.hb_early_wakes += 1
            self._exception = None
        try:
            r = orig_wait(self, 0)
        except Exception:
            report[st['round']][k]['waited_ok'] = False
            raise
        finally:
            if early:
                self._exception = saved_exc
        report[st['round']][k]['waited_ok'] = True
        h.hb_waited_ok = True
        if stale:
            h.hb_stale_waits += 1
        if h.hb_race is not None:
            # the next access is run()'s `in_flight -= 1`: let a borrower in between its read and its write if no lock is held
            h.inflight_hook = {'nested': [{'a': 'borrow', 'r': h.hb_race}]}
        return r

    def on_round_end(k):
        for h in harnesses:
            h.checkpoint()
            h.traffic = False
        st['round'] = k + 1
        st['phase_start'] = None
        arm_round()

    def arm_round():
        if st['round'] >= len(rounds):
            return
        for k in cur().get('raise_in_owner') or []:
            harnesses[k].session.cluster.raise_once = True

    ev = ScriptedEvent(len(rounds), on_round_end)
    hb._shutdown_event = ev
    HeartbeatFuture.__init__ = hbf_init
    HeartbeatFuture.wait = hbf_wait
    cconn.time = clock
    for h in harnesses:
        h.in_hb_round = True
        h.in_hb_notify = True
        h.hb_waited_ok = False
    arm_round()
    try:
        ConnectionHeartbeat.run(hb)
    finally:
        HeartbeatFuture.__init__ = orig_hbf_init
        HeartbeatFuture.wait = orig_wait
        cconn.time = real_time
        for h in harnesses:
            h.in_hb_round = False
            h.inflight_hook = None
            h.traffic = False
            h.in_hb_notify = False
            h.checkpoint()
    return report


def run_round(harnesses, replies, busy=()):
    return run_rounds(harnesses, [{'replies': list(replies)}])[0]


# ---------------------------------------------------------------------------------------------- legacy (v1/v2) pool as holder
class LegacyCluster(object):
    connect_to_remote_hosts = True

    def __init__(self, conns):
        self.conns = list(conns)
        self.failures = 0

    def get_core_connections_per_host(self, distance):
        return len(self.conns_all)

    def get_min_requests_per_connection(self, distance):
        return 0

    def get_max_requests_per_connection(self, distance):
        return 100

    def get_max_connections_per_host(self, distance):
        return len(self.conns_all)

    def connection_factory(self, endpoint, on_orphaned_stream_released=None):
        c = self.conns.pop(0)
        c._on_orphaned_stream_released = on_orphaned_stream_released
        return c

    def signal_connection_failure(self, host, exc, is_host_addition=False):
        self.failures += 1
        return False

    def on_down(self, host, is_host_addition=False):
        pass


class LegacySession(object):
    keyspace = None

    def __init__(self, conns):
        self.cluster = LegacyCluster(conns)
        self.cluster.conns_all = list(conns)
        self.submitted = []

    def submit(self, fn, *a, **kw):
        self.submitted.append((fn, a, kw))
        return (fn, a, kw)


def make_legacy_pool(harnesses):
    """a REAL cassandra.pool.HostConnectionPool (the v1/v2 pool class, several connections per host) built by its own __init__ over
    the harnesses' real connections, in the given order"""
    from cassandra.pool import HostConnectionPool
    from cassandra.policies import HostDistance

    class LPool(HostConnectionPool):
        def return_connection(self, connection, stream_was_orphaned=False):
            h = connection.h
            if not stream_was_orphaned:
                notify = h.in_hb_notify and not h.cb_stack
                h.emit('OwnerReturn' if notify else 'ReturnConn')
                if notify:
                    h.event([12])
            try:
                return HostConnectionPool.return_connection(self, connection, stream_was_orphaned)
            finally:
                h.checkpoint()
    session = LegacySession([h.conn for h in harnesses])
    pool = LPool(harnesses[0].host, HostDistance.LOCAL, session)
    pool._vf_session = session          # the pool only keeps a weak proxy
    return pool
