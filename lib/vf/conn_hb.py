"""The body of the REAL ConnectionHeartbeat.run, one round at a time, thread never started: `_shutdown_event` is a
scripted object; waits return immediately; the replies (supported / error / silence) are fed between the creation of
the HeartbeatFutures and their wait()."""
from cassandra.connection import ConnectionHeartbeat, HeartbeatFuture
import cassandra.connection as cconn


class ScriptedEvent(object):
    def __init__(self, hook):
        self.hook = hook
        self.waits = 0
        self.done = False

    def wait(self, t=None):
        self.waits += 1
        if self.waits >= 2:
            self.done = True       # the wait at the end of the round: stop the loop

    def is_set(self):
        if not self.done:
            self.hook()
        return self.done


def run_round(harnesses, replies, busy=()):
    """harnesses: list of Harness (each owns one real connection + its real HostConnection owner).
    replies[k] in {'supported', 'error', 'silent'} for harness k; busy: indices that received traffic (msg_received)."""
    hb = ConnectionHeartbeat.__new__(ConnectionHeartbeat)
    hb._interval, hb._timeout = 30, 0
    holders = [h.pool for h in harnesses]
    hb._get_connection_holders = lambda: holders
    state = {'fed': False}
    orig_hbf_init = HeartbeatFuture.__init__

    def feed():
        # called from _raise_if_stopped: once every HeartbeatFuture of the round exists, deliver the scripted replies
        if state['fed'] or not state.get('phase2'):
            return
        state['fed'] = True
        for k, h in enumerate(harnesses):
            tok = h.hb_tok
            ent = [w for w in h.wire if w[1] == tok]
            if not ent:
                continue
            if replies[k] == 'supported':
                h.a_respond({'a': 'respond', 'i': ent[0][0], 'd': 'DSupported'})
            elif replies[k] == 'error':
                h.a_respond({'a': 'respond', 'i': ent[0][0], 'd': 'DErr'})

    def hbf_init(self, connection, owner):
        h = connection.h
        h.hb_seq += 1
        h.hb_tok = 1000 + h.hb_seq
        h.tokens[h.hb_tok] = {'kind': 'hb'}
        h.next_token, h.next_nested_cb = h.hb_tok, None
        h.atomic_send = True
        h.getid_site = 'HeartbeatFuture'
        before = len(h.events)
        try:
            orig_hbf_init(self, connection, owner)
        finally:
            h.atomic_send = False
            h.getid_site = None
            h.next_token = None
            h.emit('HbSend %d' % h.hb_tok)
            if self._exception is not None and len(h.events) == before:
                h.event([11])
            h.checkpoint()
        h.hb_future = self

    class WaitHook(object):
        pass

    orig_wait = HeartbeatFuture.wait

    def hbf_wait(self, timeout):
        state['phase2'] = True
        feed()
        h = self.connection.h
        r = orig_wait(self, 0)
        h.hb_waited_ok = True
        if h.hb_race is not None:
            # the next access is run()'s `in_flight -= 1`: let a borrower in between its read and its write if no lock is held
            h.inflight_hook = {'nested': [{'a': 'borrow', 'r': h.hb_race}]}
        return r

    ev = ScriptedEvent(feed)
    hb._shutdown_event = ev
    HeartbeatFuture.__init__ = hbf_init
    HeartbeatFuture.wait = hbf_wait
    for h in harnesses:
        h.in_hb_round = True
        h.in_hb_notify = True
        h.hb_waited_ok = False
        h.hb_pre = (h.conn.in_flight, sorted(h.conn.request_ids), h.conn.is_defunct or h.conn.is_closed, h.conn.is_idle)
        h.notified_before = h.session.cluster.failures + len([e for e in h.events if e == [12]])
    try:
        ConnectionHeartbeat.run(hb)
    finally:
        HeartbeatFuture.__init__ = orig_hbf_init
        HeartbeatFuture.wait = orig_wait
        for h in harnesses:
            h.in_hb_round = False
            h.inflight_hook = None
            h.traffic = False
            h.in_hb_notify = False
            h.checkpoint()
