"""The body of the REAL ConnectionHeartbeat.run, executed for a scripted number of rounds inside ONE run() call (so that
whatever run() keeps between rounds is kept), thread never started.  `_shutdown_event` is a scripted object; time is
VIRTUAL: cassandra.connection.time is replaced by a clock that only HeartbeatFuture.wait advances; each connection's
reply (supported / error / silence) arrives at a scripted instant after the wait phase began."""
from cassandra.connection import ConnectionHeartbeat, HeartbeatFuture
import cassandra.connection as cconn

T_DEFAULT = 100      # idle_heartbeat_timeout in virtual ticks


class ScriptedEvent(object):
    def __init__(self, nrounds, on_round_end):
        self.nrounds, self.on_round_end = nrounds, on_round_end
        self.waits = 0
        self.done = False

    def wait(self, t=None):
        self.waits += 1
        if self.waits >= 2:
            self.on_round_end(self.waits - 2)
        if self.waits >= 1 + self.nrounds:
            self.done = True

    def is_set(self):
        return self.done


class Clock(object):
    def __init__(self):
        self.now = 1000.0

    def time(self):
        return self.now

    def sleep(self, t):
        self.now += t


def run_rounds(harnesses, rounds, T=T_DEFAULT):
    """harnesses: list of Harness (one real connection + its real HostConnection owner each).
    rounds: list of dicts {'replies': [...], 'delays': [...] (virtual ticks after the wait phase began, None = at once),
                           'raise_in_owner': [indices whose owner's failure handling raises once]}.
    Returns per round, per harness: dict(sent, waited_ok)"""
    hb = ConnectionHeartbeat.__new__(ConnectionHeartbeat)
    hb._interval, hb._timeout = 30, T
    holders = [h.pool for h in harnesses]
    hb._get_connection_holders = lambda: holders
    clock = Clock()
    st = {'round': 0, 'phase_start': None, 'fed': set()}
    orig_hbf_init, orig_wait = HeartbeatFuture.__init__, HeartbeatFuture.wait
    real_time = cconn.time
    report = [[{'sent': False, 'waited_ok': None} for _ in harnesses] for _ in rounds]

    def cur():
        return rounds[min(st['round'], len(rounds) - 1)]

    def arrival(k):
        r = cur()
        if r['replies'][k] == 'silent':
            return None
        d = (r.get('delays') or [None] * len(harnesses))[k]
        return st['phase_start'] + (d or 0)

    def advance_to(t):
        clock.now = max(clock.now, t)
        due = sorted((arrival(k), k) for k in range(len(harnesses))
                     if (st['round'], k) not in st['fed'] and arrival(k) is not None and arrival(k) <= clock.now)
        for _, k in due:
            st['fed'].add((st['round'], k))
            h = harnesses[k]
            ent = [w for w in h.wire if w[1] == h.hb_tok]
            if ent and report[st['round']][k]['sent']:
                h.a_respond({'a': 'respond', 'i': ent[0][0], 'd': 'DSupported' if cur()['replies'][k] == 'supported' else 'DErr'})

    def hbf_init(self, connection, owner):
        h = connection.h
        h.hb_seq += 1
        h.hb_tok = 1000 + h.hb_seq
        h.tokens[h.hb_tok] = {'kind': 'hb'}
        h.next_token, h.next_nested_cb = h.hb_tok, None
        h.atomic_send = True
        h.getid_site = 'HeartbeatFuture'
        before = len(h.events)
        try:
            orig_hbf_init(self, connection, owner)
        finally:
            h.atomic_send = False
            h.getid_site = None
            h.next_token = None
            h.emit('HbSend %d' % h.hb_tok)
            if self._exception is not None and len(h.events) == before:
                h.event([11])
            h.checkpoint()
        h.hb_future = self
        self.vf_round = st['round']
        report[st['round']][harnesses.index(h)]['sent'] = any(w[1] == h.hb_tok for w in h.wire)

    def hbf_wait(self, timeout):
        h = self.connection.h
        k = harnesses.index(h)
        if st['phase_start'] is None:
            st['phase_start'] = clock.now          # run() has just taken its start_time for the wait phase
        advance_to(clock.now)
        stale = getattr(self, 'vf_round', st['round']) != st['round']
        a = None if stale else arrival(k)
        if not self._event.is_set():
            if a is not None and timeout is not None and timeout > 0 and a <= clock.now + timeout:
                advance_to(a)
            else:
                advance_to(clock.now + max(timeout or 0, 0))
        try:
            r = orig_wait(self, 0)
        except Exception:
            report[st['round']][k]['waited_ok'] = False
            raise
        report[st['round']][k]['waited_ok'] = True
        h.hb_waited_ok = True
        if stale:
            h.hb_stale_waits += 1
        if h.hb_race is not None:
            # the next access is run()'s `in_flight -= 1`: let a borrower in between its read and its write if no lock is held
            h.inflight_hook = {'nested': [{'a': 'borrow', 'r': h.hb_race}]}
        return r

    def on_round_end(k):
        for h in harnesses:
            h.checkpoint()
            h.traffic = False
        st['round'] = k + 1
        st['phase_start'] = None
        arm_round()

    def arm_round():
        if st['round'] >= len(rounds):
            return
        for k in cur().get('raise_in_owner') or []:
            harnesses[k].session.cluster.raise_once = True

    ev = ScriptedEvent(len(rounds), on_round_end)
    hb._shutdown_event = ev
    HeartbeatFuture.__init__ = hbf_init
    HeartbeatFuture.wait = hbf_wait
    cconn.time = clock
    for h in harnesses:
        h.in_hb_round = True
        h.in_hb_notify = True
        h.hb_waited_ok = False
    arm_round()
    try:
        ConnectionHeartbeat.run(hb)
    finally:
        HeartbeatFuture.__init__ = orig_hbf_init
        HeartbeatFuture.wait = orig_wait
        cconn.time = real_time
        for h in harnesses:
            h.in_hb_round = False
            h.inflight_hook = None
            h.traffic = False
            h.in_hb_notify = False
            h.checkpoint()
    return report


def run_round(harnesses, replies, busy=()):
    return run_rounds(harnesses, [{'replies': list(replies)}])[0]
