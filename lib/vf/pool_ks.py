"""C20: drive the REAL Session._set_keyspace_for_all_pools (unbound, on a fake session) over real HostConnection pools
with socket-less real Connection objects (real set_keyspace_async / send_msg / defunct)."""
import itertools, threading
from vf import pool_harness as H

OUTCOMES = ['ok', 'invalid', 'connerr', 'noconn', 'shut', 'same', 'emptyv2', 'deaderr', 'lost']
PENDING = ('ok', 'invalid', 'connerr', 'deaderr')
OLD, NEW = 'ks_old', 'ks_new'


class Stub(object):
    armed, depth, nested = False, 0, False
    max_in_flight, threshold = 8, 4

    def on_close(self, c, caller):
        pass

    def hook(self, kind):
        pass


class KsCluster(object):
    connect_to_remote_hosts = True
    connect_timeout = 5

    def __init__(self, cls):
        self.cls, self.conns = cls, []

    def connection_factory(self, endpoint, *a, **kw):
        c = self.cls(on_orphaned_stream_released=kw.get('on_orphaned_stream_released'))
        c.cid = len(self.conns)
        self.conns.append(c)
        return c

    def signal_connection_failure(self, *a, **kw):
        return False

    def on_down(self, *a, **kw):
        pass


class KsHost(object):
    def __init__(self, i):
        self.i, self.endpoint = i, 'h%d' % i

    def __repr__(self):
        return 'h%d' % self.i


class KsSession(object):
    is_shutdown = False

    def __init__(self, cluster):
        self.cluster = cluster
        self._lock = threading.RLock()
        self._pools = {}
        self.keyspace = None
        self.queue = []

    def submit(self, fn, *a, **kw):
        self.queue.append((fn, a))


def canon_err(e):
    from cassandra import InvalidRequest
    from cassandra.connection import ConnectionException
    if isinstance(e, InvalidRequest):
        return 1
    if isinstance(e, ConnectionException):
        return 2
    return 3


def canon_errors(arg):
    """argument of the final callback -> sorted [[pool index, [error kinds]]]; anything falsy -> []"""
    if not arg:
        return []
    if isinstance(arg, dict):
        return sorted([[h.i, [canon_err(e) for e in errs]] for h, errs in arg.items()])
    return [[-1, [canon_err(e) for e in arg]]]      # a bare list: errors of an unnamed pool (what the unrepaired code passed)


class KsRun(object):
    """rounds of `Session._set_keyspace_for_all_pools(NEW)` over real pools; the harness plays the servers (srv = keyspace
    really selected on the server side of each connection)"""

    def __init__(self, outcomes):
        import cassandra.pool as P
        import cassandra.cluster as C
        from cassandra.policies import HostDistance
        from cassandra.protocol import ResultMessage
        run = self
        Base = H.make_conn_class(Stub())

        class Conn(Base):
            def wait_for_responses(self, *msgs, **kw):        # blocking USE of a fresh connection: the server accepts it
                if run.during_use is not None:                # ... and a keyspace switch lands during that round trip
                    f, run.during_use = run.during_use, None
                    f()
                for m in msgs:
                    q = getattr(m, 'query', '')
                    if q.startswith('USE '):
                        run.srv[self] = q[5:-1].replace('""', '"')
                return [ResultMessage(kind=3) for _ in msgs]
        self.C, self.P, self.outcomes = C, P, list(outcomes)
        self.cluster = KsCluster(Conn)
        self.cluster.get_core_connections_per_host = lambda d: 0
        self.cluster.get_max_connections_per_host = lambda d: 2
        self.cluster.get_max_requests_per_connection = lambda d: 100
        self.cluster.get_min_requests_per_connection = lambda d: 1
        self.session = KsSession(self.cluster)
        self.session.keyspace = OLD
        self.srv = {}
        self.during_use = None
        self.pools, self.orig = [], []
        for i, o in enumerate(outcomes):
            host = KsHost(i)
            if o == 'emptyv2':
                pool = P.HostConnectionPool(host, HostDistance.LOCAL, self.session)
                conn = None
            else:
                pool = P.HostConnection(host, HostDistance.IGNORED if o == 'noconn' else HostDistance.LOCAL, self.session)
                conn = pool._connection
            pool._keyspace = OLD
            if conn is not None:
                conn.keyspace = NEW if o == 'same' else OLD
                self.srv[conn] = conn.keyspace
            if o == 'shut':
                pool.shutdown()
            if o == 'lost':        # the connection died before the switch: borrowed stream errored, returned -> _replace queued
                from cassandra.connection import ConnectionException
                c, rid = pool.borrow_connection(1)
                conn.defunct(ConnectionException('scripted failure'))
                pool.return_connection(conn)
            self.session._pools[host] = pool
            self.pools.append(pool)
            self.orig.append(conn)
        self.calls = []
        self.obs = []
        self.failed = []

    def current(self, i):
        p = self.pools[i]
        if isinstance(p, self.P.HostConnectionPool):
            return p._connections[0] if p._connections else None
        return p._connection

    def snap(self, tag):
        ks = lambda v: {None: 0, OLD: 1, NEW: 2}.get(v, 3)
        o = [tag, ks(self.session.keyspace), len(self.calls)]
        for c in self.calls:
            o += [50] + [x for pi, errs in c for x in [pi] + errs + [51]]
        for i, p in enumerate(self.pools):
            c = self.current(i) or self.orig[i]
            o += [60, ks(p._keyspace), ks(c.keyspace) if c is not None else -1, c.in_flight if c is not None else -1,
                  ks(self.srv.get(c)) if c is not None else -1]
        self.obs.append(o)

    def start(self, outcomes=None):
        if outcomes is not None:          # another switch to the same keyspace (e.g. the application retries the USE)
            self.outcomes = list(outcomes)
            self.calls = []
            self.failed = []
        self.C.Session._set_keyspace_for_all_pools(self.session, NEW, lambda errors: self.calls.append(canon_errors(errors)))
        self.snap(1)

    def pending(self):
        return [i for i in range(len(self.pools)) if self.current(i) is not None and self.current(i)._requests]

    def complete(self, i):
        from cassandra.protocol import ResultMessage, InvalidRequestException, ServerError
        conn = self.current(i)
        rid, (cb, _, _) = conn._requests.popitem()
        with conn.lock:
            conn.request_ids.append(rid)
        o = self.outcomes[i]
        if o == 'deaderr':       # the connection dies (heartbeat, socket error): error_all_requests answers the USE with ConnectionShutdown
            from cassandra.connection import ConnectionException
            conn._requests[rid] = (cb, None, None)
            self.failed.append(i)
            conn.defunct(ConnectionException('scripted failure'))
        elif o == 'ok':
            self.srv[conn] = NEW
            cb(ResultMessage(kind=3))
        elif o == 'invalid':
            self.failed.append(i)
            cb(InvalidRequestException(0x2200, 'keyspace does not exist', None))
        else:
            self.failed.append(i)
            cb(ServerError(0, 'boom', None))
        self.snap(2)

    def can_reconnect(self, i):
        p = self.pools[i]
        if p.is_shutdown or self.current(i) is not None:
            return False
        if isinstance(p, self.P.HostConnectionPool):
            return True
        return any(getattr(fn, '__self__', None) is p for fn, a in self.session.queue)

    def reconnect(self, i, during=None):
        p = self.pools[i]
        self.during_use = during
        if isinstance(p, self.P.HostConnectionPool):
            p._add_conn_if_under_max()
        else:
            k = [j for j, (fn, a) in enumerate(self.session.queue) if getattr(fn, '__self__', None) is p][0]
            fn, a = self.session.queue.pop(k)
            fn(*a)
        self.during_use = None
        self.orig[i] = self.current(i) or self.orig[i]
        self.snap(3)


def pending_of(outcomes):
    return [i for i, o in enumerate(outcomes) if o in PENDING]


def run_race(outcomes):
    """one switch that lands while the first pool that lost its connection is re-connecting (during the blocking USE of its fresh
    connection); then every pending pool answers in index order"""
    r = KsRun(outcomes)
    r.ops2 = None
    ops = []
    racer = [i for i in range(len(r.pools)) if r.can_reconnect(i) and not isinstance(r.pools[i], r.P.HostConnectionPool)]
    if racer:
        r.reconnect(racer[0], during=r.start)
        ops += ['KStart', 'KReconnect %d%%nat' % racer[0]]
    else:
        r.start()
        ops.append('KStart')
    for i in r.pending():
        r.complete(i)
        ops.append('KComplete %d%%nat' % i)
    r.ops1, r.obs1, r.calls1, r.failed1 = ops, list(r.obs), list(r.calls), list(r.failed)
    return r


def run_case(outcomes, order, reconnect=False, round2=None, perm2=None):
    """round 1: start + completions in `order`; then (optionally) every pool that can reconnect does; then (optionally) a second
    switch to the same keyspace with outcomes `round2`, its pending pools completing in the order given by perm2 (a key function)"""
    r = KsRun(outcomes)
    r.start()
    ops = ['KStart']
    for i in order:
        r.complete(i)
        ops.append('KComplete %d%%nat' % i)
    if reconnect:
        for i in range(len(r.pools)):
            if r.can_reconnect(i):
                r.reconnect(i)
                ops.append('KReconnect %d%%nat' % i)
    r.ops1, r.obs1, r.calls1, r.failed1 = ops, list(r.obs), list(r.calls), list(r.failed)
    r.ops2 = None
    if round2 is not None:
        r.start(round2)
        ops2 = ['KStart']
        pend = r.pending()
        if perm2:
            pend = sorted(pend, key=perm2)
        for i in pend:
            r.complete(i)
            ops2.append('KComplete %d%%nat' % i)
        r.ops2 = ops2
    return r


def oracle(r, order, complete1=True):
    """the statement of C20 evaluated on the implementation's run (last switch); returns [(key, what, theorem)]"""
    out = []
    all_done = not r.pending() and (r.ops2 is not None or complete1)
    if all_done and len(r.calls) != 1:
        missing = [o for o in r.outcomes if o in ('noconn', 'shut')]
        key = 'HostConnection._set_keyspace_for_all_conns.no-callback' if (missing and not r.calls) else 'Session._set_keyspace_for_all_pools.callback-count'
        out.append((key, 'every connection answered but the completion callback ran %d times (outcomes %s)' % (len(r.calls), r.outcomes),
                    'C20_always_completes'))
    if len(r.calls) > 1:
        out.append(('Session._set_keyspace_for_all_pools.callback-count', 'completion callback ran %d times' % len(r.calls), 'C20_always_completes'))
    for calls, failed in ((r.calls1, r.failed1), (r.calls, r.failed)):
        if calls and failed and not calls[0]:
            out.append(('Session._set_keyspace_for_all_pools.error-lost',
                        'USE failed on pool(s) %s but the completion callback got no error (outcomes %s, order %s)' % (failed, r.outcomes, order),
                        'C20_any_error_reported'))
    if r.calls and not r.calls[0]:
        for i, p in enumerate(r.pools):
            if p.is_shutdown:
                continue
            c = r.current(i)
            if c is not None and r.srv.get(c) != NEW:
                legacy = isinstance(p, r.P.HostConnectionPool)
                key = ('HostConnectionPool.connection-on-stale-keyspace' if legacy else 'Session._set_keyspace_for_all_pools.success-but-not-applied')
                out.append((key, 'the switch reported success but the connection pool %d hands out has %r selected on the server '
                            '(the driver believes %r)' % (i, r.srv.get(c), c.keyspace), 'C20_success_means_all'))
            if c is None and not isinstance(p, r.P.HostConnectionPool) and p._keyspace != NEW:
                out.append(('HostConnection._set_keyspace_for_all_conns.pool-keyspace-stale',
                            'switch reported success but pool %d (no connection now) would connect its next connection with %r' % (i, p._keyspace),
                            'C20_success_means_all'))
    return out


OC = {'ok': 'POk', 'invalid': 'PInvalid', 'connerr': 'PConnErr', 'noconn': 'PNoConn', 'shut': 'PShut', 'same': 'PSame', 'emptyv2': 'PEmptyV2',
      'deaderr': 'PDeadErr', 'lost': 'PLost'}


def coq_run(r, outcomes, round2):
    """Gallina term: the model's trace for what was executed"""
    o1 = '[%s]' % '; '.join(OC[o] for o in outcomes)
    if round2 is None:
        return 'ktrace (kinit %s) [%s]' % (o1, '; '.join(r.ops1))
    return 'ktrace2 %s [%s] [%s] [%s]' % (o1, '; '.join(r.ops1), '; '.join(OC[o] for o in round2), '; '.join(r.ops2))


def coq_case(outcomes, order):
    return '[%s]' % '; '.join(OC[o] for o in outcomes), '[%s]' % '; '.join('%d%%nat' % i for i in order)


# ------------------------------------------------------------------------------------------------------------------
# Pool creation racing with keyspace switches: the REAL body of Session.add_or_renew_pool (run_add_or_renew_pool)
KSN = {0: None, 1: 'ks1', 2: 'ks2', 3: 'ks3'}
KSI = {v: k for k, v in KSN.items()}


class CreateSession(KsSession):
    _protocol_version = 4

    class _PM(object):
        def distance(self, host):
            from cassandra.policies import HostDistance
            return HostDistance.LOCAL
    _profile_manager = _PM()


class HandoffEvent(object):
    """cassandra.cluster.Event during pool creation.  The executor thread waits on it while the event-loop thread delivers
    the catch-up response; the waiter is woken at the very moment set() is called and runs to its decision before the
    setter continues (the schedule that exposes anything the setter does AFTER set())."""
    run = None

    def __init__(self):
        self.flag = False

    def is_set(self):
        return self.flag

    def set(self):
        self.flag = True
        r = HandoffEvent.run
        if r is not None and threading.current_thread() is r.helper:
            r.set_reached.set()
            r.resume.wait(10)

    def wait(self, timeout=None):
        r = HandoffEvent.run
        if self.flag or r is None:
            return self.flag
        if r.pending_fail is not None:
            conn, r.pending_fail = r.pending_fail, None
            r.helper = threading.Thread(target=r.deliver_fail, args=(conn,))
            r.helper.daemon = True
            r.helper.start()
            r.set_reached.wait(10)
        return self.flag


class CreateRun(object):
    """ks0: session keyspace before; n0 registered pools; s0 / s1: switches landing during connection_factory (before the new
    pool reads session.keyspace) / during the new connection's blocking USE (after the read, before registration);
    rounds[k]: switches landing during the k-th catch-up USE round trip (session lock released)."""

    def __init__(self, ks0, n0, s0, s1, rounds):
        import cassandra.pool as P
        import cassandra.cluster as C
        from cassandra.policies import HostDistance
        from cassandra.protocol import ResultMessage
        run = self
        Base = H.make_conn_class(Stub())

        class Conn(Base):
            def wait_for_responses(self, *msgs, **kw):
                run.at_blocking_use(self)
                for m in msgs:
                    if getattr(m, 'query', '').startswith('USE '):
                        run.srv[self] = m.query[5:-1]
                return [ResultMessage(kind=3) for _ in msgs]

            def send_msg(self, msg, request_id, cb, *a, **kw):
                if getattr(msg, 'query', '').startswith('USE '):
                    run.last_use[self] = msg.query[5:-1]
                return Base.send_msg(self, msg, request_id, cb, *a, **kw)

            def push(self, data):
                run.at_push(self)
        self.C, self.P, self.RM = C, P, ResultMessage
        self.last_use = {}
        self.cluster = KsCluster(Conn)
        self.cluster.connect_timeout = 0.05
        real_factory = self.cluster.connection_factory

        def factory(endpoint, *a, **kw):
            run.at_factory()
            return real_factory(endpoint, *a, **kw)
        self.cluster.connection_factory = factory
        self.session = CreateSession(self.cluster)
        self.session.keyspace = KSN[ks0]
        self.phase = 'setup'
        self.s0, self.s1 = list(s0), list(s1)
        self.rounds = [(bool(f), list(r)) for f, r in rounds]
        self.pending_fail, self.helper = None, None
        self.set_reached, self.resume = threading.Event(), threading.Event()
        self.srv = {}
        self.round_trips = 0
        self.switch_results = []
        self.new_conn = None
        for i in range(n0):
            host = KsHost(i)
            self.session._pools[host] = P.HostConnection(host, HostDistance.LOCAL, self.session)
        self.new_host = KsHost(n0)
        self.phase = 'create'
        self.result = None

    def switch(self, k):
        self.C.Session._set_keyspace_for_all_pools(self.session, KSN[k], lambda errors: self.switch_results.append(canon_errors(errors)))

    def deliver_ok(self, conn):
        self.srv[conn] = self.last_use.get(conn)
        rid, (cb, _, _) = conn._requests.popitem()
        with conn.lock:
            conn.request_ids.append(rid)
        cb(self.RM(kind=3))

    def at_factory(self):
        if self.phase == 'create' and self.s0 is not None:
            todo, self.s0 = self.s0, None
            for k in todo:
                self.switch(k)

    def at_blocking_use(self, conn):
        if self.phase == 'create' and self.s1 is not None:
            self.new_conn = conn
            todo, self.s1 = self.s1, None
            for k in todo:
                self.switch(k)

    def at_push(self, conn):
        registered = any(p._connection is conn for p in self.session._pools.values())
        if self.phase == 'create' and not registered:
            k = self.round_trips
            self.round_trips += 1
            fail = False
            if k < len(self.rounds):
                fail = self.rounds[k][0]
                for ks in self.rounds[k][1]:
                    self.switch(ks)
            if fail:
                self.pending_fail = conn       # answered (InvalidRequest) by the event-loop thread while the executor waits
                return
        self.deliver_ok(conn)

    def deliver_fail(self, conn):
        from cassandra.protocol import InvalidRequestException
        rid, (cb, _, _) = conn._requests.popitem()
        with conn.lock:
            conn.request_ids.append(rid)
        cb(InvalidRequestException(0x2200, 'keyspace does not exist', None))

    def create(self):
        self.C.Session.add_or_renew_pool(self.session, self.new_host, False)
        fn, args = self.session.queue.pop(0)
        real_event = self.C.Event
        self.C.Event = HandoffEvent
        HandoffEvent.run = self
        try:
            self.result = fn(*args)
        finally:
            self.C.Event = real_event
            HandoffEvent.run = None
            self.resume.set()
            if self.helper is not None:
                self.helper.join(10)
        self.phase = 'done'
        return self

    def observe(self):
        """[registered?, session keyspace, keyspace selected (server side) on the registered pool's connection, catch-up round trips]"""
        p = self.session._pools.get(self.new_host)
        if p is None:
            return [0, KSI.get(self.session.keyspace, 9), -1, self.round_trips]
        return [1, KSI.get(self.session.keyspace, 9), KSI.get(self.srv.get(p._connection), 9) if p._connection else -1, self.round_trips]

    def oracle(self):
        out = []
        if any(self.switch_results_ok()) or True:
            sk = self.session.keyspace
            for host, p in self.session._pools.items():
                if p.is_shutdown or p._connection is None:
                    continue
                if all(not r for r in self.switch_results) and sk and (self.srv.get(p._connection, p._connection.keyspace) != sk or p._keyspace != sk):
                    key = 'Session.add_or_renew_pool.registered-on-stale-keyspace' if host is self.new_host else 'Session._set_keyspace_for_all_pools.success-but-not-applied'
                    out.append((key, 'every keyspace switch reported success and the session keyspace is %r, but the pool of %r is registered with '
                                '_keyspace %r and its connection has %r selected on the server' % (sk, host, p._keyspace, self.srv.get(p._connection, p._connection.keyspace)), 'C20_new_pool_matches_session'))
        return out

    def switch_results_ok(self):
        return [not r for r in self.switch_results]


def create_coq(ks0, s0, s1, rounds):
    zl = lambda l: '[%s]' % '; '.join(str(x) for x in l)
    return 'create_obs %d %s %s [%s]' % (ks0, zl(s0), zl(s1), '; '.join('(%s, %s)' % ('true' if f else 'false', zl(r)) for f, r in rounds))
