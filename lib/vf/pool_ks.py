"""C20: drive the REAL Session._set_keyspace_for_all_pools (unbound, on a fake session) over real HostConnection pools
with socket-less real Connection objects (real set_keyspace_async / send_msg / defunct)."""
import itertools, threading
from vf import pool_harness as H

OUTCOMES = ['ok', 'invalid', 'connerr', 'noconn', 'shut', 'same']
PENDING = ('ok', 'invalid', 'connerr')
OLD, NEW = 'ks_old', 'ks_new'


class Stub(object):
    armed, depth, nested = False, 0, False
    max_in_flight, threshold = 8, 4

    def on_close(self, c, caller):
        pass

    def hook(self, kind):
        pass


class KsCluster(object):
    connect_to_remote_hosts = True
    connect_timeout = 5

    def __init__(self, cls):
        self.cls, self.conns = cls, []

    def connection_factory(self, endpoint, *a, **kw):
        c = self.cls(on_orphaned_stream_released=kw.get('on_orphaned_stream_released'))
        c.cid = len(self.conns)
        self.conns.append(c)
        return c

    def signal_connection_failure(self, *a, **kw):
        return False

    def on_down(self, *a, **kw):
        pass


class KsHost(object):
    def __init__(self, i):
        self.i, self.endpoint = i, 'h%d' % i

    def __repr__(self):
        return 'h%d' % self.i


class KsSession(object):
    is_shutdown = False

    def __init__(self, cluster):
        self.cluster = cluster
        self._lock = threading.RLock()
        self._pools = {}
        self.keyspace = None
        self.queue = []

    def submit(self, fn, *a, **kw):
        self.queue.append((fn, a))


def canon_err(e):
    from cassandra import InvalidRequest
    from cassandra.connection import ConnectionException
    if isinstance(e, InvalidRequest):
        return 1
    if isinstance(e, ConnectionException):
        return 2
    return 3


def canon_errors(arg):
    """argument of the final callback -> sorted [[pool index, [error kinds]]]; anything falsy -> []"""
    if not arg:
        return []
    if isinstance(arg, dict):
        return sorted([[h.i, [canon_err(e) for e in errs]] for h, errs in arg.items()])
    return [[-1, [canon_err(e) for e in arg]]]      # a bare list: errors of an unnamed pool (what the unrepaired code passed)


class KsRun(object):
    def __init__(self, outcomes):
        import cassandra.pool as P
        import cassandra.cluster as C
        from cassandra.policies import HostDistance
        self.C, self.outcomes = C, list(outcomes)
        self.cluster = KsCluster(H.make_conn_class(Stub()))
        self.session = KsSession(self.cluster)
        self.pools, self.orig = [], []
        for i, o in enumerate(outcomes):
            host = KsHost(i)
            pool = P.HostConnection(host, HostDistance.IGNORED if o == 'noconn' else HostDistance.LOCAL, self.session)
            pool._keyspace = OLD
            conn = pool._connection
            if conn is not None:
                conn.keyspace = NEW if o == 'same' else OLD
            if o == 'shut':
                pool.shutdown()
            self.session._pools[host] = pool
            self.pools.append(pool)
            self.orig.append(conn)
        self.session.keyspace = OLD
        self.calls = []
        self.obs = []

    def snap(self, tag):
        ks = lambda v: {None: 0, OLD: 1, NEW: 2}.get(v, 3)
        o = [tag, ks(self.session.keyspace), len(self.calls)]
        for c in self.calls:
            o += [50] + [x for pi, errs in c for x in [pi] + errs + [51]]
        for p, c in zip(self.pools, self.orig):
            o += [60, ks(p._keyspace), ks(c.keyspace) if c is not None else -1, c.in_flight if c is not None else -1]
        self.obs.append(o)

    def start(self):
        self.C.Session._set_keyspace_for_all_pools(self.session, NEW, lambda errors: self.calls.append(canon_errors(errors)))
        self.snap(1)

    def complete(self, i):
        from cassandra.protocol import ResultMessage, InvalidRequestException, ServerError
        conn = self.orig[i]
        rid, (cb, _, _) = conn._requests.popitem()
        with conn.lock:
            conn.request_ids.append(rid)
        o = self.outcomes[i]
        if o == 'ok':
            cb(ResultMessage(kind=3))
        elif o == 'invalid':
            cb(InvalidRequestException(0x2200, 'keyspace does not exist', None))
        else:
            cb(ServerError(0, 'boom', None))
        self.snap(2)


def pending_of(outcomes):
    return [i for i, o in enumerate(outcomes) if o in PENDING]


def run_case(outcomes, order):
    r = KsRun(outcomes)
    r.start()
    for i in order:
        r.complete(i)
    return r


def oracle(r, order):
    """the statement of C20 evaluated on the implementation's run; returns [(key, what, theorem)]"""
    out = []
    pend = pending_of(r.outcomes)
    all_done = sorted(order) == pend
    failed = [i for i in order if r.outcomes[i] in ('invalid', 'connerr')]
    if all_done and len(r.calls) != 1:
        missing = [o for o in r.outcomes if o in ('noconn', 'shut')]
        key = 'HostConnection._set_keyspace_for_all_conns.no-callback' if (missing and not r.calls) else 'Session._set_keyspace_for_all_pools.callback-count'
        out.append((key, 'every connection answered but the completion callback ran %d times (outcomes %s)' % (len(r.calls), r.outcomes),
                    'C20_always_completes'))
    if len(r.calls) > 1:
        out.append(('Session._set_keyspace_for_all_pools.callback-count', 'completion callback ran %d times' % len(r.calls), 'C20_always_completes'))
    if r.calls:
        if failed and not r.calls[0]:
            out.append(('Session._set_keyspace_for_all_pools.error-lost',
                        'USE failed on pool(s) %s but the completion callback got no error (outcomes %s, order %s)' % (failed, r.outcomes, order),
                        'C20_any_error_reported'))
        if not r.calls[0]:
            for i, (p, c) in enumerate(zip(r.pools, r.orig)):
                if p.is_shutdown:
                    continue
                if p._connection is not None and p._connection.keyspace != NEW:
                    out.append(('Session._set_keyspace_for_all_pools.success-but-not-applied',
                                'switch reported success but the connection of pool %d has keyspace %r' % (i, p._connection.keyspace), 'C20_success_means_all'))
                if p._connection is None and p._keyspace != NEW:
                    out.append(('HostConnection._set_keyspace_for_all_conns.pool-keyspace-stale',
                                'switch reported success but pool %d (no connection now) would connect its next connection with %r' % (i, p._keyspace),
                                'C20_success_means_all'))
    return out


def coq_case(outcomes, order):
    oc = {'ok': 'POk', 'invalid': 'PInvalid', 'connerr': 'PConnErr', 'noconn': 'PNoConn', 'shut': 'PShut', 'same': 'PSame'}
    return '[%s]' % '; '.join(oc[o] for o in outcomes), '[%s]' % '; '.join('%d%%nat' % i for i in order)
