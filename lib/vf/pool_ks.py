"""C20: drive the REAL Session._set_keyspace_for_all_pools (unbound, on a fake session) over real HostConnection pools
with socket-less real Connection objects (real set_keyspace_async / send_msg / defunct)."""
import itertools, threading
from vf import pool_harness as H

OUTCOMES = ['ok', 'invalid', 'connerr', 'noconn', 'shut', 'same']
PENDING = ('ok', 'invalid', 'connerr')
OLD, NEW = 'ks_old', 'ks_new'


class Stub(object):
    armed, depth, nested = False, 0, False
    max_in_flight, threshold = 8, 4

    def on_close(self, c, caller):
        pass

    def hook(self, kind):
        pass


class KsCluster(object):
    connect_to_remote_hosts = True
    connect_timeout = 5

    def __init__(self, cls):
        self.cls, self.conns = cls, []

    def connection_factory(self, endpoint, *a, **kw):
        c = self.cls(on_orphaned_stream_released=kw.get('on_orphaned_stream_released'))
        c.cid = len(self.conns)
        self.conns.append(c)
        return c

    def signal_connection_failure(self, *a, **kw):
        return False

    def on_down(self, *a, **kw):
        pass


class KsHost(object):
    def __init__(self, i):
        self.i, self.endpoint = i, 'h%d' % i

    def __repr__(self):
        return 'h%d' % self.i


class KsSession(object):
    is_shutdown = False

    def __init__(self, cluster):
        self.cluster = cluster
        self._lock = threading.RLock()
        self._pools = {}
        self.keyspace = None
        self.queue = []

    def submit(self, fn, *a, **kw):
        self.queue.append((fn, a))


def canon_err(e):
    from cassandra import InvalidRequest
    from cassandra.connection import ConnectionException
    if isinstance(e, InvalidRequest):
        return 1
    if isinstance(e, ConnectionException):
        return 2
    return 3


def canon_errors(arg):
    """argument of the final callback -> sorted [[pool index, [error kinds]]]; anything falsy -> []"""
    if not arg:
        return []
    if isinstance(arg, dict):
        return sorted([[h.i, [canon_err(e) for e in errs]] for h, errs in arg.items()])
    return [[-1, [canon_err(e) for e in arg]]]      # a bare list: errors of an unnamed pool (what the unrepaired code passed)


class KsRun(object):
    def __init__(self, outcomes):
        import cassandra.pool as P
        import cassandra.cluster as C
        from cassandra.policies import HostDistance
        self.C, self.outcomes = C, list(outcomes)
        self.cluster = KsCluster(H.make_conn_class(Stub()))
        self.session = KsSession(self.cluster)
        self.pools, self.orig = [], []
        for i, o in enumerate(outcomes):
            host = KsHost(i)
            pool = P.HostConnection(host, HostDistance.IGNORED if o == 'noconn' else HostDistance.LOCAL, self.session)
            pool._keyspace = OLD
            conn = pool._connection
            if conn is not None:
                conn.keyspace = NEW if o == 'same' else OLD
            if o == 'shut':
                pool.shutdown()
            self.session._pools[host] = pool
            self.pools.append(pool)
            self.orig.append(conn)
        self.session.keyspace = OLD
        self.calls = []
        self.obs = []

    def snap(self, tag):
        ks = lambda v: {None: 0, OLD: 1, NEW: 2}.get(v, 3)
        o = [tag, ks(self.session.keyspace), len(self.calls)]
        for c in self.calls:
            o += [50] + [x for pi, errs in c for x in [pi] + errs + [51]]
        for p, c in zip(self.pools, self.orig):
            o += [60, ks(p._keyspace), ks(c.keyspace) if c is not None else -1, c.in_flight if c is not None else -1]
        self.obs.append(o)

    def start(self):
        self.C.Session._set_keyspace_for_all_pools(self.session, NEW, lambda errors: self.calls.append(canon_errors(errors)))
        self.snap(1)

    def complete(self, i):
        from cassandra.protocol import ResultMessage, InvalidRequestException, ServerError
        conn = self.orig[i]
        rid, (cb, _, _) = conn._requests.popitem()
        with conn.lock:
            conn.request_ids.append(rid)
        o = self.outcomes[i]
        if o == 'ok':
            cb(ResultMessage(kind=3))
        elif o == 'invalid':
            cb(InvalidRequestException(0x2200, 'keyspace does not exist', None))
        else:
            cb(ServerError(0, 'boom', None))
        self.snap(2)


def pending_of(outcomes):
    return [i for i, o in enumerate(outcomes) if o in PENDING]


def run_case(outcomes, order):
    r = KsRun(outcomes)
    r.start()
    for i in order:
        r.complete(i)
    return r


def oracle(r, order):
    """the statement of C20 evaluated on the implementation's run; returns [(key, what, theorem)]"""
    out = []
    pend = pending_of(r.outcomes)
    all_done = sorted(order) == pend
    failed = [i for i in order if r.outcomes[i] in ('invalid', 'connerr')]
    if all_done and len(r.calls) != 1:
        missing = [o for o in r.outcomes if o in ('noconn', 'shut')]
        key = 'HostConnection._set_keyspace_for_all_conns.no-callback' if (missing and not r.calls) else 'Session._set_keyspace_for_all_pools.callback-count'
        out.append((key, 'every connection answered but the completion callback ran %d times (outcomes %s)' % (len(r.calls), r.outcomes),
                    'C20_always_completes'))
    if len(r.calls) > 1:
        out.append(('Session._set_keyspace_for_all_pools.callback-count', 'completion callback ran %d times' % len(r.calls), 'C20_always_completes'))
    if r.calls:
        if failed and not r.calls[0]:
            out.append(('Session._set_keyspace_for_all_pools.error-lost',
                        'USE failed on pool(s) %s but the completion callback got no error (outcomes %s, order %s)' % (failed, r.outcomes, order),
                        'C20_any_error_reported'))
        if not r.calls[0]:
            for i, (p, c) in enumerate(zip(r.pools, r.orig)):
                if p.is_shutdown:
                    continue
                if p._connection is not None and p._connection.keyspace != NEW:
                    out.append(('Session._set_keyspace_for_all_pools.success-but-not-applied',
                                'switch reported success but the connection of pool %d has keyspace %r' % (i, p._connection.keyspace), 'C20_success_means_all'))
                if p._connection is None and p._keyspace != NEW:
                    out.append(('HostConnection._set_keyspace_for_all_conns.pool-keyspace-stale',
                                'switch reported success but pool %d (no connection now) would connect its next connection with %r' % (i, p._keyspace),
                                'C20_success_means_all'))
    return out


def coq_case(outcomes, order):
    oc = {'ok': 'POk', 'invalid': 'PInvalid', 'connerr': 'PConnErr', 'noconn': 'PNoConn', 'shut': 'PShut', 'same': 'PSame'}
    return '[%s]' % '; '.join(oc[o] for o in outcomes), '[%s]' % '; '.join('%d%%nat' % i for i in order)


# ------------------------------------------------------------------------------------------------------------------
# Pool creation racing with keyspace switches: the REAL body of Session.add_or_renew_pool (run_add_or_renew_pool)
KSN = {0: None, 1: 'ks1', 2: 'ks2', 3: 'ks3'}
KSI = {v: k for k, v in KSN.items()}


class CreateSession(KsSession):
    _protocol_version = 4

    class _PM(object):
        def distance(self, host):
            from cassandra.policies import HostDistance
            return HostDistance.LOCAL
    _profile_manager = _PM()


class CreateRun(object):
    """ks0: session keyspace before; n0 registered pools; s0 / s1: switches landing during connection_factory (before the new
    pool reads session.keyspace) / during the new connection's blocking USE (after the read, before registration);
    rounds[k]: switches landing during the k-th catch-up USE round trip (session lock released)."""

    def __init__(self, ks0, n0, s0, s1, rounds):
        import cassandra.pool as P
        import cassandra.cluster as C
        from cassandra.policies import HostDistance
        from cassandra.protocol import ResultMessage
        run = self
        Base = H.make_conn_class(Stub())

        class Conn(Base):
            def wait_for_responses(self, *msgs, **kw):
                run.at_blocking_use(self)
                return [ResultMessage(kind=3) for _ in msgs]

            def push(self, data):
                run.at_push(self)
        self.C, self.P, self.RM = C, P, ResultMessage
        self.cluster = KsCluster(Conn)
        self.cluster.connect_timeout = 0.05
        real_factory = self.cluster.connection_factory

        def factory(endpoint, *a, **kw):
            run.at_factory()
            return real_factory(endpoint, *a, **kw)
        self.cluster.connection_factory = factory
        self.session = CreateSession(self.cluster)
        self.session.keyspace = KSN[ks0]
        self.phase = 'setup'
        self.s0, self.s1, self.rounds = list(s0), list(s1), [list(r) for r in rounds]
        self.round_trips = 0
        self.switch_results = []
        self.new_conn = None
        for i in range(n0):
            host = KsHost(i)
            self.session._pools[host] = P.HostConnection(host, HostDistance.LOCAL, self.session)
        self.new_host = KsHost(n0)
        self.phase = 'create'
        self.result = None

    def switch(self, k):
        self.C.Session._set_keyspace_for_all_pools(self.session, KSN[k], lambda errors: self.switch_results.append(canon_errors(errors)))

    def deliver_ok(self, conn):
        rid, (cb, _, _) = conn._requests.popitem()
        with conn.lock:
            conn.request_ids.append(rid)
        cb(self.RM(kind=3))

    def at_factory(self):
        if self.phase == 'create' and self.s0 is not None:
            todo, self.s0 = self.s0, None
            for k in todo:
                self.switch(k)

    def at_blocking_use(self, conn):
        if self.phase == 'create' and self.s1 is not None:
            self.new_conn = conn
            todo, self.s1 = self.s1, None
            for k in todo:
                self.switch(k)

    def at_push(self, conn):
        registered = any(p._connection is conn for p in self.session._pools.values())
        if self.phase == 'create' and not registered:
            k = self.round_trips
            self.round_trips += 1
            if k < len(self.rounds):
                for ks in self.rounds[k]:
                    self.switch(ks)
        self.deliver_ok(conn)

    def create(self):
        self.C.Session.add_or_renew_pool(self.session, self.new_host, False)
        fn, args = self.session.queue.pop(0)
        self.result = fn(*args)
        self.phase = 'done'
        return self

    def observe(self):
        """[registered?, session keyspace, new pool._keyspace, keyspace of its connection, catch-up round trips]"""
        p = self.session._pools.get(self.new_host)
        if p is None:
            return [0, KSI.get(self.session.keyspace, 9), -1, -1, self.round_trips]
        return [1, KSI.get(self.session.keyspace, 9), KSI.get(p._keyspace, 9), KSI.get(p._connection.keyspace, 9) if p._connection else -1, self.round_trips]

    def oracle(self):
        out = []
        if any(self.switch_results_ok()) or True:
            sk = self.session.keyspace
            for host, p in self.session._pools.items():
                if p.is_shutdown or p._connection is None:
                    continue
                if all(not r for r in self.switch_results) and sk and (p._connection.keyspace != sk or p._keyspace != sk):
                    key = 'Session.add_or_renew_pool.registered-on-stale-keyspace' if host is self.new_host else 'Session._set_keyspace_for_all_pools.success-but-not-applied'
                    out.append((key, 'every keyspace switch reported success and the session keyspace is %r, but the pool of %r is registered with '
                                '_keyspace %r and its connection has %r selected' % (sk, host, p._keyspace, p._connection.keyspace), 'C20_new_pool_matches_session'))
        return out

    def switch_results_ok(self):
        return [not r for r in self.switch_results]


def create_coq(ks0, s0, s1, rounds):
    zl = lambda l: '[%s]' % '; '.join(str(x) for x in l)
    return 'create_obs %d %s %s [%s]' % (ks0, zl(s0), zl(s1), '; '.join(zl(r) for r in rounds))
