"""C43: drive the real wait_for_schema_agreement / _get_schema_mismatches / schema-change path of ResponseFuture
on scripted snapshots with a virtual clock; Python oracle of the statement; Gallina literals for the model."""
import re
from fractions import Fraction
from vf import nodes_harness as H

CONTROL = 100
SCHEMA_EVENT = {'target_type': 'KEYSPACE', 'change_type': 'CREATED', 'keyspace': 'ks'}


def addr(ep):
    return '10.0.0.%d' % ep


def secs(ms):
    return Fraction(ms, 1000)


# ---------------------------------------------------------------------------------------------- rows
DEFAULT_PORT = 9042


def parse_ep(k):
    """endpoint key: 3 or '3' (default native port) or '3:9043'"""
    k = str(k)
    if ':' in k:
        a, p = k.split(':')
        return int(a), int(p)
    return int(k), DEFAULT_PORT


def ep_key(a, p):
    return str(a) if p == DEFAULT_PORT else '%d:%d' % (a, p)


def norm_hosts(hosts):
    return {ep_key(*parse_ep(k)): st for k, st in hosts.items()}


def peer_row(epk, ver):
    ep, port = parse_ep(epk)
    a = addr(ep)
    return {'peer': a, 'peer_port': 7000, 'host_id': H.version_uuid(1000 + ep), 'rpc_address': a,
            'native_transport_address': a, 'native_address': a, 'native_port': port,
            'data_center': 'dc1', 'rack': 'r1', 'release_version': '4.0.0', 'tokens': ['%d' % ep],
            'schema_version': None if ver is None else H.version_uuid(ver)}


V1_COLS = ['peer', 'data_center', 'host_id', 'rack', 'release_version', 'rpc_address', 'schema_version', 'tokens']
V2_COLS = ['peer', 'peer_port', 'data_center', 'host_id', 'native_address', 'native_port', 'rack', 'release_version',
           'schema_version', 'tokens']


def columns_of(query, v2):
    m = re.match(r'\s*SELECT\s+(.*?)\s+FROM\s+(\S+)', query, re.I | re.S)
    cols, table = m.group(1), m.group(2)
    if cols.strip() == '*':
        return list(V2_COLS if table.endswith('peers_v2') else (V1_COLS if 'peers' in table else ['key', 'schema_version'])), table
    return [c.strip() for c in cols.split(',')], table


def results_for(msgs, snap, v2):
    """answer (peers_query, local_query) with exactly the columns each query asks for"""
    out = []
    for m in msgs:
        cols, table = columns_of(m.query, v2)
        if 'peers' in table:
            rows = [peer_row(ep, ver) for ep, ver in snap['peers']]
            out.append(H.FakeResult(cols, [[r.get(c) for c in cols] for r in rows]))
        else:
            loc = snap['local']
            if loc == 'norow':
                out.append(H.FakeResult(cols, []))
            else:
                row = {'key': 'local', 'schema_version': None if loc is None else H.version_uuid(loc),
                       'cluster_name': 'c', 'data_center': 'dc1', 'rack': 'r1'}
                out.append(H.FakeResult(cols, [[row.get(c) for c in cols]]))
    return out


def preloaded_for(snap, v2):
    class Q(object):
        def __init__(self, q):
            self.query = q
    return tuple(results_for((Q('SELECT * FROM system.peers_v2' if v2 else 'SELECT * FROM system.peers'),
                              Q("SELECT * FROM system.local WHERE key='local'")), snap, v2))


# ---------------------------------------------------------------------------------------------- hosts
UP = {'up': True, 'down': False, 'none': None}


def set_hosts(cl, hosts):
    from cassandra.pool import Host
    from cassandra.connection import DefaultEndPoint
    from cassandra.policies import SimpleConvictionPolicy
    md = cl.metadata
    with md._hosts_lock:
        md._hosts.clear()
        for (ep, port), st in sorted((parse_ep(k), v) for k, v in hosts.items()):
            h = Host(DefaultEndPoint(addr(ep), port), SimpleConvictionPolicy, 'dc1', 'r1')
            h.is_up = UP[st]
            h.release_version = '4.0.0'
            md._hosts[h.endpoint] = h


# ---------------------------------------------------------------------------------------------- driving
class Run(object):
    pass


def setup(case):
    C = H.mods()
    from cassandra.connection import DefaultEndPoint
    cl = H.make_cluster(addr(CONTROL), max_schema_agreement_wait=secs(case['budget_ms']),
                        control_connection_timeout=secs(case['qtimeout_ms']),
                        schema_metadata_enabled=case.get('meta_enabled', True))
    cc = cl.control_connection
    clock = H.VClock()
    cc._time = clock
    cc._uses_peers_v2 = bool(case.get('v2', True))
    r = Run()
    r.C, r.cl, r.cc, r.clock = C, cl, cc, clock
    r.events = []
    r.consumed = 0
    r.mismatch_log = []
    r.polls, r.tail = case['polls'], case.get('tail')
    polls, tail = r.polls, r.tail
    orig_sleep = clock.sleep

    def sleep(s):
        orig_sleep(s)
        r.events.append(('s', clock.sleeps[-1]))
    clock.sleep = sleep

    def script(conn, msgs, timeout):
        from cassandra import OperationTimedOut
        from cassandra.connection import ConnectionShutdown
        k = r.consumed
        if k < len(r.polls):
            p = r.polls[k]
        elif r.tail is not None:
            p = r.tail
        else:
            raise H.ScriptExhausted()
        r.consumed += 1
        if r.consumed > max(case['budget_ms'], 0) + 5:
            # C43_terminates: budget-many polls always suffice (every poll costs >= 1 ms)
            raise RuntimeError('harness: runaway wait loop (more polls than milliseconds of budget)')
        r.events.append(('q', H.to_ms(timeout)))
        set_hosts(cl, p['hosts'])
        resp = p['resp']
        if resp == 'timeout':
            clock.advance(H.to_ms(timeout))
            raise OperationTimedOut()
        if resp == 'shutdown_cc':
            cc._is_shutdown = True
            raise ConnectionShutdown('closed')
        if resp == 'shutdown_raise':
            raise ConnectionShutdown('closed')
        clock.advance(p['dur'])
        return results_for(msgs, resp, cc._uses_peers_v2)
    conn = H.FakeConnection(DefaultEndPoint(addr(CONTROL)), script)
    r.conn = conn
    # scripted schema-agreement lock: while THIS waiter (B) is queued on it, another waiter (A) holds it across its own
    # polls of virtual time; B gets the lock when A is done.  No threads: A's whole wait runs inside B's acquire.
    r.lock_depth, r.t_acq, r.a_obs, r.a_call = 0, None, None, None
    wa = case.get('waiter_a')

    class ScriptedLock(object):
        def acquire(self, *a, **k):
            self.__enter__()
            return True

        def release(self):
            self.__exit__()

        def __enter__(self):
            r.lock_depth += 1
            if r.lock_depth == 1 and wa is not None and r.a_obs is None and r.a_call is not None:
                saved = (r.polls, r.tail, r.consumed, r.events, r.mismatch_log)
                r.polls, r.tail, r.consumed, r.events, r.mismatch_log = wa['polls'], wa.get('tail'), 0, [], []
                r.a_obs = {}
                out = run_wait(r, case, r.a_call)
                r.a_obs = {'outcome': out, 'events': r.events, 'mismatches': r.mismatch_log, 'consumed': r.consumed}
                r.polls, r.tail, r.consumed, r.events, r.mismatch_log = saved
                if r.polls:
                    set_hosts(cl, r.polls[0]['hosts'])
            r.t_acq = clock.ms
            return self

        def __exit__(self, *a):
            r.lock_depth -= 1
            return False
    cc._schema_agreement_lock = ScriptedLock()
    # observe _get_schema_mismatches without changing it
    orig_mm = cc._get_schema_mismatches

    def mm(peers_result, local_result, local_address):
        res = orig_mm(peers_result, local_result, local_address)
        r.mismatch_log.append(None if res is None else sorted(ver_id(v) for v in res.keys()))
        return res
    cc._get_schema_mismatches = mm
    first = case.get('preloaded') or (polls[0] if polls else tail) or {'hosts': {}}
    set_hosts(cl, first['hosts'])
    if not cc._uses_peers_v2 and cl.metadata.get_host(conn.endpoint) is None:
        # _get_peers_query needs the control host's release_version for the peers(v1) schema query
        hs = dict(first['hosts'])
        hs[str(CONTROL)] = 'up'
        set_hosts(cl, hs)
    return r


def ver_id(u):
    return u.int - 0x5c4e0000000000000000000000000000


def run_wait(r, case, call):
    """call() -> value of wait_for_schema_agreement; returns the observable outcome"""
    start = r.clock.ms
    r.t_acq = None

    def origin():
        # the waiter's own budget starts when it holds the schema-agreement lock
        return r.t_acq if r.t_acq is not None else start
    try:
        v = call()
    except H.ScriptExhausted:
        return ['more', r.consumed, r.clock.ms - origin()]
    except Exception as e:
        from cassandra.connection import ConnectionShutdown
        if isinstance(e, ConnectionShutdown):
            return ['raised']
        return ['error', type(e).__name__]
    if v is True:
        return ['true', r.consumed]
    if v is False:
        return ['false', r.clock.ms - origin()]
    if v is None:
        return ['none']
    return ['other', repr(v)]


def run_direct(case):
    r = setup(case)
    try:
        cc = r.cc
        cc._is_shutdown = bool(case.get('cc_shutdown'))
        pre = case.get('preloaded')
        kw = {}
        if pre is not None:
            kw['preloaded_results'] = preloaded_for(pre['snap'], cc._uses_peers_v2)
        if case.get('via_wait_time'):
            r.cl.max_schema_agreement_wait = secs(7777)
            kw['wait_time'] = secs(case['budget_ms'])
        if case.get('conn_from_cc'):
            cc._connection = r.conn
            call = lambda: cc.wait_for_schema_agreement(**kw)
        else:
            call = lambda: cc.wait_for_schema_agreement(r.conn, **kw)
        r.a_call = call
        out = run_wait(r, case, call)
        return {'outcome': out, 'events': r.events, 'mismatches': r.mismatch_log, 'consumed': r.consumed, 'waiter_a': r.a_obs}
    finally:
        H.dispose_cluster(r.cl)


class FakeSession(object):
    keyspace = None

    def __init__(self, cluster):
        self.cluster = cluster
        self.row_factory = None
        self.submitted = []

    def submit(self, fn, *a, **kw):
        name = getattr(fn, '__name__', repr(fn))
        self.submitted.append(name)
        if name == 'refresh_schema_and_set_result':
            fn(*a, **kw)          # the executor thread's work, run at once
        # anything else (the re-submitted control_conn.refresh_schema) is only recorded


def run_future(case):
    """ResponseFuture._set_result with a RESULT_KIND_SCHEMA_CHANGE response -> refresh_schema_and_set_result"""
    r = setup(case)
    try:
        C, cl, cc = r.C, r.cl, r.cc
        from cassandra.protocol import ResultMessage, RESULT_KIND_SCHEMA_CHANGE
        cc._is_shutdown = bool(case.get('cc_shutdown'))
        refreshed = []

        def fake_refresh(connection, timeout, **kw):
            refreshed.append(dict(kw))
            if case.get('refresh_raises'):
                raise RuntimeError('schema query failed')
        cl.metadata.refresh = fake_refresh
        waits = []
        orig_wait = cc.wait_for_schema_agreement

        def wait(*a, **kw):
            out = run_wait(r, case, lambda: orig_wait(*a, **kw))
            waits.append(out)
            if out[0] == 'raised':
                from cassandra.connection import ConnectionShutdown
                raise ConnectionShutdown('closed')
            if out[0] in ('more', 'error', 'other'):
                raise RuntimeError('harness: %r' % (out,))
            return {'true': True, 'false': False, 'none': None}[out[0]]
        cc.wait_for_schema_agreement = wait
        r.a_call = lambda: orig_wait(r.conn)
        session = FakeSession(cl)
        rf = C.ResponseFuture(session, None, None, None, host=object())
        at_delivery = []
        # what an application callback (and a result() waiter woken by the same event) sees when the request is delivered
        rf.add_callbacks(lambda res: at_delivery.append(('ok', rf.is_schema_agreed)),
                         lambda exc: at_delivery.append(('err', rf.is_schema_agreed)))
        msg = ResultMessage(RESULT_KIND_SCHEMA_CHANGE)
        msg.schema_change_event = dict(SCHEMA_EVENT)
        if case.get('cluster_shutdown'):
            cl.is_shutdown = True
        rf._set_result(None, r.conn, None, msg)
        return {'is_schema_agreed': bool(rf.is_schema_agreed), 'agreed_raw': repr(rf.is_schema_agreed),
                'at_delivery': [[k, bool(v)] for k, v in at_delivery],
                'refreshed': len(refreshed), 'resubmitted': session.submitted[1:],
                'final_set': bool(rf._event.is_set() and rf._final_exception is None and rf._final_result is None),
                'events': r.events, 'wait': waits[0] if waits else None, 'nwaits': len(waits),
                'mismatches': r.mismatch_log, 'consumed': r.consumed, 'waiter_a': r.a_obs}
    finally:
        H.dispose_cluster(r.cl)


class MismatchRunner(object):
    """_get_schema_mismatches alone, on one shared never-connected cluster"""
    def __init__(self):
        self.r = setup({'budget_ms': 1000, 'qtimeout_ms': 1000, 'polls': [], 'v2': True})

    def __call__(self, hosts, snap, v2):
        r = self.r
        set_hosts(r.cl, hosts)
        pr, lr = preloaded_for(snap, v2)
        res = r.cc.__class__._get_schema_mismatches(r.cc, pr, lr, r.conn.endpoint)
        if res is None:
            return None
        return sorted((ver_id(v), sorted(str(e) for e in eps)) for v, eps in res.items())

    def close(self):
        H.dispose_cluster(self.r.cl)


def run_mismatch(hosts, snap, v2):
    m = MismatchRunner()
    try:
        return m(hosts, snap, v2)
    finally:
        m.close()


# ---------------------------------------------------------------------------------------------- oracle (the statement)
def reported_versions(hosts, snap):
    """versions reported by the control node and by every known peer not marked down"""
    vs = set()
    if snap['local'] not in ('norow', None):
        vs.add(snap['local'])
    hosts = norm_hosts(hosts)
    for ep, ver in snap['peers']:
        if ver is None:
            continue
        st = hosts.get(ep_key(*parse_ep(ep)))      # matched by (address, native_port)
        if st is not None and st != 'down':
            vs.add(ver)
    return vs


def single_version(hosts, snap):
    return len(reported_versions(hosts, snap)) == 1     # DESIGN 4.0: zero versions is not agreement


def poll_at(case, k):
    return case['polls'][k] if k < len(case['polls']) else case.get('tail')


def check_wait(case, outcome, consumed):
    """the statement's first two clauses on one observed wait; returns list of (key, what)"""
    bad = []
    if case['budget_ms'] <= 0:
        return bad                        # documented bypass (max_schema_agreement_wait <= 0): outside the statement
    kind = outcome[0]
    # every consumed poll but the last was followed by another poll: it must not have been a single-version snapshot
    for k in range(consumed):
        p = poll_at(case, k)
        snap_ok = isinstance(p['resp'], dict) and single_version(p['hosts'], p['resp'])
        last = (k == consumed - 1)
        if snap_ok and not (last and kind == 'true'):
            bad.append(('wait.missed-agreement', 'poll %d showed a single schema version but the wait went on / returned %s' % (k, kind)))
            break
    if kind == 'true':
        if consumed == 0:
            pre = case.get('preloaded')
            if not (pre and single_version(pre['hosts'], pre['snap'])):
                bad.append(('wait.true-without-poll', 'agreement reported without examining any snapshot'))
        else:
            p = poll_at(case, consumed - 1)
            if not (isinstance(p['resp'], dict) and single_version(p['hosts'], p['resp'])):
                bad.append(('wait.false-agreement', 'agreement reported at poll %d whose versions are %r' % (
                    consumed - 1, sorted(reported_versions(p['hosts'], p['resp'])) if isinstance(p['resp'], dict) else p['resp'])))
    elif kind == 'false':
        if outcome[1] < case['budget_ms']:
            bad.append(('wait.gave-up-early', 'returned False after %d ms of a %d ms budget' % (outcome[1], case['budget_ms'])))
    elif kind in ('none', 'raised'):
        p = poll_at(case, consumed - 1) if consumed else None
        legit = case.get('cc_shutdown') or (p is not None and p['resp'] in ('shutdown_cc', 'shutdown_raise'))
        if not legit:
            bad.append(('wait.aborted', 'wait returned %s without a shutdown' % kind))
    elif kind in ('error', 'other'):
        bad.append(('wait.error', 'wait ended with %r' % (outcome,)))
    return bad


def check_future(case, obs):
    """third clause: the future records whether agreement was reached (refresh failures excluded, see docs/C43.md)"""
    bad = []
    if case['budget_ms'] <= 0:
        return bad
    w = obs['wait']
    reached = bool(w and w[0] == 'true')
    if w is not None:
        bad.extend(check_wait(case, w, obs['consumed']))
    if obs['is_schema_agreed'] and not reached:
        bad.append(('future.agreed-without-agreement', 'is_schema_agreed is True but the wait outcome was %r' % (w,)))
    if reached and not obs['is_schema_agreed'] and not case.get('refresh_raises'):
        key = 'future.agreement-not-recorded' + ('.schema-metadata-disabled' if not case.get('meta_enabled', True) else '')
        bad.append((key, 'agreement was reached at poll %d but is_schema_agreed is %s' % (obs['consumed'] - 1, obs['agreed_raw'])))
    deliv = obs.get('at_delivery') or []
    if len(deliv) != 1 or deliv[0][0] != 'ok':
        bad.append(('future.delivery', 'the schema-change request was delivered %r (expected one successful delivery)' % (deliv,)))
    else:
        seen = deliv[0][1]
        if seen and not reached:
            bad.append(('future.agreed-without-agreement.at-delivery', 'completion callback saw is_schema_agreed True, wait outcome %r' % (w,)))
        if reached and not seen and not case.get('refresh_raises') and obs['is_schema_agreed']:
            bad.append(('future.agreement-not-recorded.at-delivery',
                        'agreement was reached at poll %d and is recorded afterwards, but the completion callback (and any result() waiter) '
                        'saw is_schema_agreed False' % (obs['consumed'] - 1)))
    if not obs['final_set']:
        bad.append(('future.no-final-result', 'the schema-change future was not completed with result None'))
    return bad


def waiter_a_case(case):
    """the first waiter of a two-waiter history, as a direct wait of its own (same budget, same connection)"""
    wa = case['waiter_a']
    return {'mode': 'direct', 'budget_ms': case['budget_ms'], 'qtimeout_ms': case['qtimeout_ms'], 'v2': case['v2'],
            'polls': wa['polls'], 'tail': wa.get('tail'), 'cc_shutdown': case.get('cc_shutdown')}


# ---------------------------------------------------------------------------------------------- Gallina literals
def zl(v):
    return '(%d)' % v if v < 0 else '%d' % v


def g_hosts(hosts):
    m = {'up': 'Up', 'down': 'Down', 'none': 'Unknown'}
    return '[' + '; '.join('((%d, %d), %s)' % (ep[0], ep[1], m[st]) for ep, st in sorted((parse_ep(k), v) for k, v in hosts.items())) + ']'


def g_ver(v):
    return 'None' if v is None else '(Some %d)' % v


def g_snap(s):
    loc = 'None' if s['local'] == 'norow' else '(Some %s)' % g_ver(s['local'])
    def row(ep, v):
        a, p = parse_ep(ep)
        # table row: native_port is present in peers_v2 only; rows on the default port are given without one (same endpoint)
        return '(%d, %s, %s)' % (a, 'None' if p == DEFAULT_PORT else '(Some %d)' % p, g_ver(v))
    return '(RSn %d %s [%s])' % (DEFAULT_PORT, loc, '; '.join(row(ep, v) for ep, v in s['peers']))


def g_poll(p):
    resp = p['resp']
    if resp == 'timeout':
        r = 'RTimeout'
    elif resp == 'shutdown_cc':
        r = '(RShutdown true)'
    elif resp == 'shutdown_raise':
        r = '(RShutdown false)'
    else:
        r = '(RSnap %s)' % g_snap(resp)
    return '(Pl %s %s %s)' % (r, g_hosts(p['hosts']), zl(p.get('dur', 0)))


def g_polls(case, consumed):
    ps = list(case['polls'])
    if case.get('tail') is not None:
        ps = ps + [case['tail']] * max(0, consumed - len(case['polls']) + 1)
    return '[' + '; '.join(g_poll(p) for p in ps) + ']'


def g_events(ev):
    return '[' + '; '.join(('EQuery %s' if k == 'q' else 'ESleep %s') % (zl(v) if isinstance(v, int) else '(-1)') for k, v in ev) + ']'


def g_outcome(o):
    if o is None:
        return 'None'
    k = o[0]
    if k == 'true':
        return '(Some (OTrue %d%%nat))' % o[1]
    if k == 'false':
        return '(Some (OFalse %s))' % zl(o[1])
    if k == 'none':
        return '(Some ONone)'
    if k == 'raised':
        return '(Some ORaised)'
    if k == 'more':
        return '(Some (OMore %d%%nat %s))' % (o[1], zl(o[2]))
    return '(Some (OMore 999%nat (-1)))'       # error / other: never equal to the model


def g_bool(b):
    return 'true' if b else 'false'


def g_cfg(case):
    return '(Build_cfg %s %s)' % (zl(case['budget_ms']), zl(case['qtimeout_ms']))


def g_future_case(case, obs):
    env = '(Build_env %s %s %s %s)' % (g_bool(case.get('cluster_shutdown')), g_bool(case.get('cc_shutdown')),
                                      g_bool(case.get('meta_enabled', True)), g_bool(case.get('refresh_raises')))
    deliv = obs.get('at_delivery') or []
    seen = '(Build_future_seen %s %s %s %s %s %s %s)' % (
        g_bool(obs['is_schema_agreed']), ('(Some %s)' % g_bool(deliv[0][1])) if deliv else 'None', g_bool(obs['refreshed'] > 0), g_bool(bool(obs['resubmitted'])),
        g_bool(obs['final_set']), g_events(obs['events']), g_outcome(obs['wait']))
    return 'future_eqb (schema_change_path %s %s %s) %s' % (env, g_cfg(case), g_polls(case, obs['consumed']), seen)


def g_direct_case(case, obs):
    pre = case.get('preloaded')
    gpre = 'None' if pre is None else '(Some (%s, %s))' % (g_hosts(pre['hosts']), g_snap(pre['snap']))
    o = g_outcome(obs['outcome'])
    return 'match %s with Some o_ => wait_eqb (wait %s %s %s %s) %s o_ | None => false end' % (
        o, g_cfg(case), g_bool(case.get('cc_shutdown')), gpre, g_polls(case, obs['consumed']), g_events(obs['events']))


def g_mismatch_case(hosts, snap, res):
    impl = 'None' if res is None else '(Some [%s])' % '; '.join('%d' % v for v, _ in res)
    return 'mismatch_eqb %s %s %s' % (g_hosts(hosts), g_snap(snap), impl)
