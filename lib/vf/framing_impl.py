"""Harness shared by C05 and C06: a no-socket Connection driven through the REAL process_io_buffer / process_msg /
_process_segment_buffer, generators for frames / segments / split points, Gallina literal printers."""
import io, struct


def _mods():
    import cassandra.connection as C
    import cassandra.segment as S
    return C, S


_FakeConn = None


class _Watcher(object):
    """event watcher; hashes by its id so that the iteration order of the watcher set (and thus a replay) is reproducible"""

    def __init__(self, conn, et, wid, raises):
        self.conn, self.et, self.wid, self.raises = conn, et, wid, raises

    def __hash__(self):
        return self.wid

    def __eq__(self, other):
        return self is other

    def __call__(self, args):
        self.conn.events.append(('W', self.et, self.wid, repr(sorted(args.items()))))
        if self.raises:
            raise RuntimeError('watcher %d fails' % self.wid)


def fake_conn_class():
    global _FakeConn
    if _FakeConn is not None:
        return _FakeConn
    C, S = _mods()

    class FakeConn(C.Connection):
        """Connection without a socket.  Only close/push are replaced (they touch the socket); process_msg and defunct are
        wrapped to RECORD and then run the real code."""

        def __init__(self, protocol_version=4, **kw):
            C.Connection.__init__(self, '127.0.0.1', protocol_version=protocol_version, **kw)
            self.pushed = []
            self.events = []      # ('M', hdr, body) | ('H', id, hdr, body) | ('P', hdr, body) | ('W', type, args) | ('D', code, text)

        def close(self):
            self.is_closed = True

        def push(self, data):
            self.pushed.append(bytes(data))

        def process_msg(self, header, body):
            self.events.append(('M', (header.version, header.flags, header.stream, header.opcode, header.end_pos - header.body_offset), bytes(body)))
            return C.Connection.process_msg(self, header, body)

        def defunct(self, exc):
            if not (self.is_defunct or self.is_closed):
                self.events.append(('D', classify(exc), '%s: %s' % (type(exc).__name__, str(exc)[:120])))
            return C.Connection.defunct(self, exc)

        # ---- harness helpers
        def expect(self, stream_id):
            def decoder(version, utm, sid, flags, opcode, body, decompressor, result_metadata):
                return (version, flags, sid, opcode, len(body)), bytes(body)

            def cb(resp, _id=stream_id):
                if isinstance(resp, tuple):
                    self.events.append(('H', _id, resp[0], resp[1]))
                else:
                    self.events.append(('E', _id, type(resp).__name__))
            self._requests[stream_id] = (cb, decoder, None)

        def watch(self, spec=None):
            """spec: {event_type: [raises, ...]} -- one watcher per flag; a watcher records ('W', type, wid, args) and then
            raises if its flag is set.  Default: one well-behaved watcher per event type."""
            self.watcher_order = {}
            wid = 0
            for et in ('TOPOLOGY_CHANGE', 'STATUS_CHANGE', 'SCHEMA_CHANGE'):
                flags = (spec or {}).get(et, [False])
                for raises in flags:
                    wid += 1
                    self._push_watchers[et].add(_Watcher(self, et, wid, raises))
                # the order in which handle_pushed will iterate over this set object
                self.watcher_order[et] = [(c.wid, c.raises) for c in self._push_watchers[et]]

        def feed(self, chunk):
            """what every reactor's handle_read does with the bytes of one recv()"""
            self._iobuf.write(bytes(chunk))
            self.process_io_buffer()

        def enable_checksumming(self, codec):
            self._io_buffer.set_checksumming_buffer()
            self._is_checksumming_enabled = True
            self._segment_codec = codec

    _FakeConn = FakeConn
    return FakeConn


def classify(exc):
    C, S = _mods()
    if isinstance(exc, C.CrcMismatchException):
        return 3
    if isinstance(exc, C.ProtocolError):
        s = str(exc)
        if 'does not support protocol version' in s:
            return 1
        if 'negative body length' in s:
            return 2
        return 8
    return 9


class PushRecorder(object):
    """wraps ProtocolHandler.decode_message as seen by connection.process_msg for stream < 0: record, then really decode"""

    def __init__(self, conn_holder):
        C, S = _mods()
        self.C = C
        self.orig = C.ProtocolHandler
        holder = conn_holder
        orig = self.orig

        class Rec(orig):
            @classmethod
            def decode_message(cls, protocol_version, user_type_map, stream_id, flags, opcode, body, decompressor, result_metadata):
                if holder and holder[0] is not None:
                    holder[0].events.append(('P', (protocol_version, flags, stream_id, opcode, len(body)), bytes(body)))
                return orig.decode_message(protocol_version, user_type_map, stream_id, flags, opcode, body, decompressor, result_metadata)
        self.rec = Rec

    def __enter__(self):
        self.C.ProtocolHandler = self.rec
        return self

    def __exit__(self, *a):
        self.C.ProtocolHandler = self.orig


# ---------------------------------------------------------------- frames (what the server writes)
def enc_frame(ver, flags, stream, op, body, dirbit=0x80, length=None):
    n = len(body) if length is None else length
    if ver >= 3:
        return struct.pack('>BBhBi', dirbit | ver, flags, stream, op, n) + bytes(body)
    return struct.pack('>BBbBi', dirbit | ver, flags, stream, op, n) + bytes(body)


def wstr(s):
    b = s.encode('ascii')
    return struct.pack('>H', len(b)) + b


def event_body(rng):
    et = rng.choice(['TOPOLOGY_CHANGE', 'STATUS_CHANGE'])
    ct = ''.join(rng.choice('UPDOWNEW_') for _ in range(rng.randint(0, 6)))
    addr = bytes(rng.randrange(256) for _ in range(4))
    return wstr(et) + wstr(ct) + b'\x04' + addr + struct.pack('>i', rng.randrange(1, 65536))


def gen_frame(rng, versions=(1, 2, 3, 4), maxbody=24, neg_ok=True):
    ver = rng.choice(versions)
    r = rng.random()
    if neg_ok and r < 0.25:
        stream = -1 if rng.random() < 0.7 else (rng.randint(-128, -1) if ver < 3 else rng.randint(-32768, -1))
        return (ver, 0, stream, 0x0C, event_body(rng))
    lim = 127 if ver < 3 else 32767
    stream = rng.choice([0, 1, 2, 3, lim, rng.randint(0, lim)])
    n = rng.choice([0, 0, 1, 2, rng.randint(0, maxbody)])
    body = bytes(rng.choice([0, 1, 0x80, 0xff, rng.randrange(256)]) for _ in range(n))
    return (ver, rng.randrange(256), stream, rng.randrange(256), body)


def splits_k(rng, n, k):
    cuts = sorted(rng.randint(0, n) for _ in range(k))
    return cuts


def chunk(data, cuts):
    out, p = [], 0
    for c in list(cuts) + [len(data)]:
        out.append(data[p:c])
        p = c
    return out


# ---------------------------------------------------------------- Gallina literals
def zl(v):
    return '(%d)' % v if v < 0 else '%d' % v


def zlist(bs):
    return '[' + ';'.join(zl(x) for x in bs) + ']'


def zll(chs):
    return '[' + ';'.join(zlist(c) for c in chs) + ']'


def hdr_lit(h):
    return '(mkH %s %s %s %s %s)' % tuple(zl(x) for x in h)


def obs_lit(obs):
    return '[' + ';'.join('(%s,%s,%s)' % (zl(a), zl(b), zl(c)) for a, b, c in obs) + ']'


def ievents_lit(evs):
    out = []
    for e in evs:
        if e[0] == 'M':
            out.append('Deliver %s %s' % (hdr_lit(e[1]), zlist(e[2])))
        elif e[0] == 'D':
            out.append('Defunct %s' % zl(e[1]))
    return '[' + ';'.join(out) + ']'


def routed(evs):
    """group the recorded events per delivered frame: M followed by H | (P, W*) | nothing"""
    out, i = [], 0
    evs = list(evs)
    while i < len(evs):
        e = evs[i]
        if e[0] == 'D':
            out.append(('F', e[1]))
            break
        if e[0] == 'M':
            j = i + 1
            grp = []
            while j < len(evs) and evs[j][0] not in ('M', 'D'):
                grp.append(evs[j])
                j += 1
            hs = [g for g in grp if g[0] == 'H']
            ps = [g for g in grp if g[0] == 'P']
            ws = [g for g in grp if g[0] == 'W']
            if hs:
                out.append(('H', hs[0][1], hs[0][2], hs[0][3], len(hs)))
            elif ps:
                out.append(('W', ps[0][1], ps[0][2], [w[2] for w in ws]))
            else:
                out.append(('X', e[1]))
            i = j
        else:
            i += 1
    return out


def routed_lit(rt):
    out = []
    for r in rt:
        if r[0] == 'H':
            out.append('ToHandler %s %s %s' % (zl(r[1]), hdr_lit(r[2]), zlist(r[3])))
        elif r[0] == 'W':
            out.append('ToWatchers %s %s' % (hdr_lit(r[1]), zlist(r[2])))
        elif r[0] == 'X':
            out.append('Dropped %s' % hdr_lit(r[1]))
        else:
            out.append('Failed %s' % zl(r[1]))
    return '[' + ';'.join(out) + ']'


def ievents(evs):
    """every delivery and the defunct, in order.  Deliveries AFTER the defunct are kept: the model delivers nothing after a
    failure, so anything the implementation still hands to process_msg shows up as a disagreement."""
    return [e for e in evs if e[0] in ('M', 'D')]


# ---------------------------------------------------------------- v5 segments (C06)
def toy_compress(data):
    """run-length pairs (count 1..255, byte), preceded by the 4-byte big-endian uncompressed length -- the shape lz4.block has"""
    data = bytes(data)
    out = bytearray(struct.pack('>i', len(data)))
    i = 0
    while i < len(data):
        j = i
        while j < len(data) and data[j] == data[i] and j - i < 255:
            j += 1
        out += bytes([j - i, data[i]])
        i = j
    return bytes(out)


def toy_decompress(data):
    data = bytes(data)
    n = struct.unpack('>i', data[:4])[0]
    out = bytearray()
    for k in range(4, len(data) - 1, 2):
        out += bytes([data[k + 1]]) * data[k]
    if len(out) != n:
        raise ValueError('toy_decompress: length mismatch')
    return bytes(out)


def codec(compressed):
    C, S = _mods()
    return S.SegmentCodec(toy_compress, toy_decompress) if compressed else S.SegmentCodec()


def encode_segment(cd, payload, self_contained=True):
    b = io.BytesIO()
    cd._encode_segment(b, bytes(payload), self_contained)
    return b.getvalue()


def encode_msg(cd, msg):
    b = io.BytesIO()
    cd.encode(b, bytes(msg))
    return b.getvalue()


def run_segments(chunks, compressed, reqs=(), pv=5):
    """feed chunks to a checksumming connection; -> (events, per-read obs, final (io bytes, frame-buffer bytes))"""
    Conn = fake_conn_class()
    holder = [None]
    with PushRecorder(holder):
        c = Conn(protocol_version=pv)
        holder[0] = c
        c.watch()
        c.enable_checksumming(codec(compressed))
        for r in reqs:
            c.expect(r)
        obs = []
        for ch in chunks:
            if not c.is_defunct:
                c.feed(ch)
            n = len(ievents(c.events))
            if c.is_defunct:
                obs.append((n, -1, -1))
            else:
                obs.append((n, len(c._io_buffer.io_buffer.getvalue()), len(c._io_buffer.cql_frame_buffer.getvalue())))
        if c.is_defunct:
            fin = (b'', b'')
        else:
            fin = (c._io_buffer.io_buffer.getvalue(), c._io_buffer.cql_frame_buffer.getvalue())
        return list(c.events), obs, fin


# ---------------------------------------------------------------- the real v5 handshake up to the framing switch (C06)
class ToyLz4(object):
    """what the `try: import lz4` block of connection.py does when lz4 is installed, with the toy pair"""

    def __enter__(self):
        C, S = _mods()
        self.C = C
        self.old = (dict(C.locally_supported_compressions), C.segment_codec_lz4)
        C.locally_supported_compressions['lz4'] = (toy_compress, toy_decompress)
        C.segment_codec_lz4 = S.SegmentCodec(toy_compress, toy_decompress)
        return self

    def __exit__(self, *a):
        self.C.locally_supported_compressions.clear()
        self.C.locally_supported_compressions.update(self.old[0])
        self.C.segment_codec_lz4 = self.old[1]


def bare(ver, stream, opcode, body=b''):
    return struct.pack('>BBhBi', 0x80 | ver, 0, stream, opcode, len(body)) + body


def switch_obs(c):
    on = 1 if c._is_checksumming_enabled else 0
    return (on, 1 if (on and c._segment_codec.compression) else 0, 1 if c.compressor else 0)


def handshake(c, auth, offer_lz4):
    """OPTIONS/SUPPORTED, STARTUP and the server's answer (READY or AUTHENTICATE) as bare frames through the real
    process_io_buffer and the real handlers.  -> (negotiated as the PEER sees it in STARTUP, stream id of the pending
    AUTH_RESPONSE or None, observation after the answer)"""
    from cassandra.protocol import write_stringmultimap, write_string
    pv = c.protocol_version
    c._send_options_message()
    rid = list(c._requests)[0]
    b = io.BytesIO()
    write_stringmultimap(b, {'CQL_VERSION': ['3.4.5'], 'COMPRESSION': ['snappy', 'lz4'] if offer_lz4 else ['snappy']})
    n0 = len(c.pushed)
    c.feed(bare(pv, rid, 0x06, b.getvalue()))
    startup = c.pushed[n0]                     # bare STARTUP frame as the peer receives it
    negotiated = b'COMPRESSION' in startup and b'lz4' in startup
    rid = list(c._requests)[0]
    if auth:
        b = io.BytesIO()
        write_string(b, 'org.apache.cassandra.auth.PasswordAuthenticator')
        c.feed(bare(pv, rid, 0x03, b.getvalue()))
        pend = list(c._requests)
        return negotiated, (pend[0] if pend else None), switch_obs(c)
    c.feed(bare(pv, rid, 0x02))
    return negotiated, None, switch_obs(c)


def run_handshake_segments(pv, auth, compression, offer_lz4, make_chunks):
    """Real handshake, then (v5) the peer's segments: make_chunks(negotiated, auth_rid) -> (frames, chunks) built by the caller
    with the codec the PEER uses.  -> dict with everything observed"""
    Conn = fake_conn_class()
    holder = [None]
    with ToyLz4(), PushRecorder(holder):
        kw = {'compression': compression}
        if auth:
            from cassandra.auth import PlainTextAuthProvider
            kw['authenticator'] = PlainTextAuthProvider('user', 'secret').new_authenticator('127.0.0.1')
        c = Conn(protocol_version=pv, **kw)
        holder[0] = c
        c.watch()
        negotiated, auth_rid, obs1 = handshake(c, auth, offer_lz4)
        out = {'negotiated': negotiated, 'after_reply': obs1, 'auth_rid': auth_rid, 'defunct_in_handshake': c.is_defunct}
        if c.is_defunct or (auth and auth_rid is None):
            out.update(after_success=obs1, events=[e for e in c.events if e[0] == 'D'], obs=[], fin=(b'', b''), frames=[], chunks=[])
            return out
        n0 = len(c.events)
        frames, chunks = make_chunks(negotiated, auth_rid)
        obs = []
        for ch in chunks:
            if not c.is_defunct:
                c.feed(ch)
            n = len(ievents(c.events[n0:]))
            if c.is_defunct:
                obs.append((n, -1, -1))
            else:
                obs.append((n, len(c._io_buffer.io_buffer.getvalue()), len(c._io_buffer.cql_frame_buffer.getvalue())))
        fin = (b'', b'') if c.is_defunct else (c._io_buffer.io_buffer.getvalue(), c._io_buffer.cql_frame_buffer.getvalue())
        out.update(after_success=switch_obs(c), events=list(c.events[n0:]), obs=obs, fin=fin, frames=frames, chunks=chunks,
                   ready=c.connected_event.is_set())
        return out
