"""Harness shared by C16 / C17 / C19: drives the REAL cassandra.cluster.ResponseFuture single-threaded with fakes.

Faked (outside the three properties): session (pool table, submit queue, keyspace), pools (borrow/return), connections
(send_msg records (message, callback)), timers (create_timer records, fired when the history says so), load balancer
(returns the scripted plan), retry policy (records every consultation, returns scripted decisions).
Real: ResponseFuture, Session._create_response_future (called on the fake session, so the speculative-plan gating is
the real code), ExecutionProfile, ConstantSpeculativeExecutionPolicy, PreparedStatement/BoundStatement/SimpleStatement,
Host, the cassandra.protocol message classes used as responses, all exception classes.

A scenario is a JSON-able dict (see futb_model.scenario_to_coq for the same data as a Gallina term):
  n        number of hosts (hosts are indices 0..n-1)
  plan     list of host indices returned by the load balancer (analytics: {'master': m|None} = DSE graph analytics request,
           m = host index answered by the master lookup, None = lookup failed)
  target   None | host index  (execute(..., host=...))
  inline   True: executor-first schedule for _retry_task (runs inside submit)
  timeout  True: the request has a client timeout (5 s of the fake clock); pool state 7 lets it elapse inside borrow_connection
  pools    initial pool state per host: 7 NoConnectionsAvailable after a borrow that outlasts the client timeout; 0 missing 1 shutdown 2 NoConnectionsAvailable 3 ConnectionBusy(send_msg)
           4 borrow raises other exception 5 send_msg raises ConnectionShutdown 6 healthy
  idem     is_idempotent of the statement executed ; pidem (optional) is_idempotent of its PreparedStatement
  spec     [policy present?, max_attempts]
  cl       initial consistency level ; pv protocol version ; ks connection keyspace (None | int)
  ps       None (SimpleStatement) | [id, qs, ks|None]   (BoundStatement of that prepared statement)
  known    [[id, qs, ks|None], ...]   contents of cluster._prepared_statements
  script   [[decision 0..3, cl|None], ...]  decisions returned by the retry policy, by consultation number
  ops      ['shutdown'] (Session.shutdown(): follow-up work is refused from now on) | ['page', plan] (fetch the next page; plan = the load balancer's plan for that fetch) | ['start'] | ['start', 'spec_in_borrow'] (speculative timer fires inside the first borrow_connection; same model op)
           | ['resp', attempt_index, resp] | ['run', k] | ['spec'] | ['pool', h, st] | ['ks', k|None]
  resp     [8] rows with a paging state (more pages) | [0] rows | [1] void | [2,id] prepared | [3,kind,tag] retryable error | [4,id,tag] unprepared
           | [5,tag] other ErrorMessage | [6,tag] other exception | [7] junk
  kind     0 read timeout 1 write timeout 2 unavailable 3 overloaded 4 bootstrapping 5 truncate 6 server error
           7 ConnectionException 8 ConnectionShutdown
The run returns one observation (flat list of ints, see obs encoding below) per op.
"""
import collections
import re
from threading import Lock

_loaded = {}


def drv():
    """import the driver lazily (needs the reactor stub)"""
    if not _loaded:
        from vf.impl import import_cluster
        cl = import_cluster()
        import cassandra, cassandra.protocol as P, cassandra.connection as C, cassandra.pool as PO
        import cassandra.policies as POL, cassandra.query as Q
        _loaded.update(cluster=cl, cassandra=cassandra, P=P, C=C, PO=PO, POL=POL, Q=Q)
    return _loaded


PMISSING, PSHUTDOWN, PNOCONN, PBUSY, PFAIL, PSENDFAIL, PHEALTHY, PNOCONNSLOW = range(8)
KIND_NAMES = ['read_timeout', 'write_timeout', 'unavailable', 'overloaded', 'bootstrapping', 'truncate', 'server_error',
              'conn_exception', 'conn_shutdown']
POOL_NAMES = ['missing', 'shutdown', 'no_connections', 'busy', 'borrow_fails', 'send_fails', 'healthy', 'no_connections_slow']
DECISION_NAMES = ['RETRY', 'RETHROW', 'IGNORE', 'RETRY_NEXT_HOST']


def effective_plan(sc):
    """the plan the request must follow: the explicit target, or the load balancer's plan; for a DSE graph analytics request
    whose master lookup succeeded (sc['analytics'] = {'master': m}) the analytics master first, then the policy's plan"""
    if sc.get('target') is not None:
        return [sc['target']]
    a = sc.get('analytics')
    if a and a.get('master') is not None:
        return [a['master']] + [h for h in sc['plan'] if h != a['master']]
    return list(sc['plan'])


def page_plan(sc, p):
    """the load balancer's plan for a later page fetch, p being the child policy's plan: for an analytics request whose master
    is known, DefaultLoadBalancingPolicy keeps putting the master first (HostTargetingStatement shares the statement's __dict__,
    so the statement itself carries target_host from then on)"""
    a = sc.get('analytics')
    if sc.get('target') is None and a and a.get('master') is not None:
        return [a['master']] + [h for h in p if h != a['master']]
    return list(p)


class Timer(object):
    def __init__(self, delay, cb):
        self.delay, self.cb, self.cancelled, self.fired = delay, cb, False, False

    def cancel(self):
        self.cancelled = True


class FakeClock(object):
    """stands for the `time` module inside cassandra.cluster: time passes only where the scenario says so"""
    def __init__(self):
        self.now = 1000.0

    def time(self):
        return self.now


class Env(object):
    def __init__(self, sc):
        self.sc = sc
        self.pool_state = list(sc['pools'])
        self.keyspace = sc.get('ks')
        self.sent = []          # dicts: host, kind, cl, qs, ks, cb, msg
        self.log = []           # encoded events in the order the real code produced them
        self.queue = []         # (fn, args, kwargs)
        self.timers = []
        self.consults = []      # (kind, tag, retry_num, cl or None)
        self.errsets = []       # (host index, err canonical)
        self.returns = 0
        self.defuncts = 0
        self.registry = {}      # id(response object) -> canonical
        self.nha_snap = {}
        self.clock = FakeClock()
        self.shut = False       # Session.shutdown() happened
        self.conns = []         # every fake connection ever created (a reconnect makes a new one)
        self.fire_in_borrow = False
        self.keep = []          # keep response objects alive (ids stay unique)


def ksname(k):
    return None if k is None else 'ks%d' % k


def idbytes(i):
    return ('id%d' % i).encode()


def qsname(q):
    return 'SELECT * FROM t%d' % q


class FakeConnection(object):
    """stream ids are handed out like cassandra.connection.Connection.get_request_id: a deque popped from the left (so a
    fresh connection gives 0 first), ids of answered requests are appended at the right (FIFO recycling), highest+1 when empty"""
    def __init__(self, env, hidx):
        self.env, self.hidx = env, hidx
        self.lock = Lock()
        self._requests = {}
        n = env.sc.get('nids', 4)
        self.request_ids = collections.deque(range(n))
        self.highest_request_id = n - 1
        self.in_flight = 0          # HostConnection accounting: +1 per borrow, -1 per return_connection(this connection)
        self.serial = len(env.conns)
        env.conns.append(self)
        self.orphaned_request_ids = set()
        self.orphaned_threshold = 10 ** 9
        self.is_defunct = False
        self.is_closed = False

    def get_request_id(self):
        try:
            return self.request_ids.popleft()
        except IndexError:
            self.highest_request_id += 1
            return self.highest_request_id

    @property
    def keyspace(self):
        return ksname(self.env.keyspace)

    def send_msg(self, msg, request_id, cb, encoder=None, decoder=None, result_metadata=None):
        d = drv()
        st = self.env.pool_state[self.hidx]
        if st == PBUSY:
            raise d['C'].ConnectionBusy('Connection is overloaded')
        if st == PSENDFAIL:
            raise d['C'].ConnectionShutdown('send-fail')
        rec = {'host': self.hidx, 'cb': cb, 'msg': msg, 'conn': self, 'rid': request_id,
               'page': getattr(getattr(self.env, 'future', None), '_page_no', 0)}     # which page fetch this execution belongs to
        if isinstance(msg, d['P'].PrepareMessage):
            rec.update(kind=1, qs=msg.query, ks=msg.keyspace)
        else:
            rec.update(kind=0, cl=getattr(msg, 'consistency_level', None))
        self.env.sent.append(rec)
        self.env.log.append([1, self.hidx] + enc_mkind(rec))
        self._requests[request_id] = (cb, decoder, result_metadata)
        return 0

    def defunct(self, exc):
        self.env.defuncts += 1


class FakePool(object):
    def __init__(self, env, hidx):
        self.env, self.hidx = env, hidx
        self.conn = FakeConnection(env, hidx)

    def reconnect(self):
        """the pool replaced its connection (fresh stream ids)"""
        self.conn = FakeConnection(self.env, self.hidx)

    @property
    def is_shutdown(self):
        return self.env.pool_state[self.hidx] == PSHUTDOWN

    def borrow_connection(self, timeout):
        d = drv()
        if self.env.fire_in_borrow:
            # the speculative timer fires on the event-loop thread while the client thread is inside _query for its first
            # host (nothing sent yet): _on_speculative_execute must only re-arm itself (PYTHON-836)
            self.env.fire_in_borrow = False
            for t in self.env.timers:
                if not t.cancelled and not t.fired and getattr(t.cb, '__name__', '') == '_on_speculative_execute':
                    t.fired = True
                    t.cb()
                    break
        st = self.env.pool_state[self.hidx]
        if st == PNOCONNSLOW:
            # borrow_connection blocks (up to 2 s in the driver) before giving up: the request's client timeout elapses meanwhile
            self.env.clock.now += 10.0
            raise d['PO'].NoConnectionsAvailable()
        if st == PNOCONN:
            raise d['PO'].NoConnectionsAvailable()
        if st == PFAIL:
            raise RuntimeError('borrow-fail')
        with self.conn.lock:
            self.conn.in_flight += 1
            return self.conn, self.conn.get_request_id()

    def return_connection(self, conn, stream_was_orphaned=False):
        self.env.returns += 1
        if not stream_was_orphaned:        # HostConnection keeps the in-flight slot of an orphaned (timed-out) stream
            with conn.lock:
                conn.in_flight -= 1


class FakeMetrics(object):
    """what ResponseFuture uses of cassandra.metrics.Metrics (Cluster(metrics_enabled=True)); greplin.scales is not installed"""
    class _Timer(object):
        def __init__(self):
            self.values = 0

        def addValue(self, v):
            self.values += 1

    def __init__(self):
        self.request_timer = self._Timer()
        self.counts = collections.Counter()

    def __getattr__(self, name):
        if name.startswith('on_'):
            return lambda *a, **k: self.counts.update([name])
        raise AttributeError(name)


class PoolTable(object):
    """session._pools: host -> pool; a host in state `missing` has no entry"""
    def __init__(self, env, hosts):
        self.env, self.hosts = env, hosts
        self.pools = dict((h, FakePool(env, i)) for i, h in enumerate(hosts))

    def get(self, host, default=None):
        i = self.hosts.index(host)
        if self.env.pool_state[i] == PMISSING:
            return default
        return self.pools[host]


class ConnClass(object):
    def __init__(self, env):
        self.env = env

    def create_timer(self, delay, cb):
        t = Timer(delay, cb)
        self.env.timers.append(t)
        return t


class FakeLB(object):
    def __init__(self, env, hosts, plan):
        self.env, self.hosts, self.plan = env, hosts, plan

    def make_query_plan(self, working_keyspace=None, query=None):
        return [self.hosts[i] for i in self.plan]


class RecordingPolicy(object):
    """retry policy = recorder + scripted oracle"""
    def __init__(self, env, script):
        self.env, self.script = env, script

    def _decide(self, kind, tag, retry_num, cl):
        d = drv()
        n = len(self.env.consults)
        self.env.consults.append((kind, tag, retry_num, cl))
        self.env.log.append([3, kind, tag, retry_num] + enc_opt(cl))
        dec, dcl = self.script[n] if n < len(self.script) else (1, None)
        const = [d['POL'].RetryPolicy.RETRY, d['POL'].RetryPolicy.RETHROW, d['POL'].RetryPolicy.IGNORE,
                 d['POL'].RetryPolicy.RETRY_NEXT_HOST][dec]
        return const, dcl

    def on_read_timeout(self, query, consistency, required_responses, received_responses, data_retrieved, retry_num):
        return self._decide(0, required_responses, retry_num, None)

    def on_write_timeout(self, query, consistency, write_type, required_responses, received_responses, retry_num):
        return self._decide(1, required_responses, retry_num, None)

    def on_unavailable(self, query, consistency, required_replicas, alive_replicas, retry_num):
        return self._decide(2, required_replicas, retry_num, None)

    def on_request_error(self, query, consistency, error, retry_num):
        kind, tag = self.env.registry.get(id(error), (None, -1))[1:3] if id(error) in self.env.registry else (-1, -1)
        return self._decide(kind, tag, retry_num, consistency)


class FakeCluster(object):
    def __init__(self, env, sc):
        d = drv()
        self._default_load_balancing_policy = None
        self.connection_class = ConnClass(env)
        self.protocol_version = sc['pv']
        self._prepared_statements = {}
        self._config_mode = None
        self.allow_beta_protocol_version = False
        self.control_connection = None
        self.timestamp_generator = lambda: 1


def make_session_class():
    d = drv()
    Session = d['cluster'].Session

    class FakeSession(object):
        _create_response_future = Session._create_response_future
        _on_analytics_master_result = Session._on_analytics_master_result
        _maybe_get_execution_profile = Session._maybe_get_execution_profile
        default_fetch_size = 5000
        use_client_timestamp = False
        _metrics = None
        encoder = None

        def __init__(self, env, sc, hosts):
            self.env = env
            self.cluster = FakeCluster(env, sc)
            self._protocol_version = sc['pv']
            self._pools = PoolTable(env, hosts)
            self.row_factory = lambda names, rows: ('rows', rows)
            if sc.get('metrics'):
                self._metrics = FakeMetrics()

        @property
        def keyspace(self):
            return ksname(self.env.keyspace)

        def submit(self, fn, *args, **kwargs):
            # like Session.submit: runs nothing and returns None once the session is shut down, else the executor's future
            if self.env.shut:
                return None
            if self.env.sc.get('inline') and getattr(fn, '__name__', '') == '_retry_task':
                # executor-first schedule: the executor thread runs the retry before the submitting (event-loop) thread
                # executes its next statement
                fn(*args, **kwargs)
                return ('ran-inline',)
            task = (fn, args, kwargs)
            self.env.queue.append(task)
            return task
    return FakeSession


class RecordingDict(dict):
    """ResponseFuture._errors with a write log"""
    def __init__(self, env, hosts):
        dict.__init__(self)
        self.env, self.hosts = env, hosts

    def __setitem__(self, k, v):
        dict.__setitem__(self, k, v)
        self.env.errsets.append((self.hosts.index(k), classify_err(self.env, v)))
        self.env.log.append([2, self.hosts.index(k)] + classify_err(self.env, v))


TAG_RE = re.compile(r'tag=(\d+)')


def by_tag(env, e):
    """(kind-class, kind, tag) of an exception object that stems from a scripted response"""
    if id(e) in env.registry:
        t = env.registry[id(e)]
        # the protocol message itself where the driver must hand out its to_exception() (cassandra.ReadTimeout, ...)
        if (t[0] == 'retryable' and t[1] in (0, 1, 2)) or (t[0] == 'other_error' and type(e).__name__ == 'InvalidRequestException'):
            return ('raw_message', t[1], t[2])
        return t
    m = TAG_RE.search(str(e))
    d = drv()
    ca = d['cassandra']
    if m:
        tag = int(m.group(1))
        if isinstance(e, ca.ReadTimeout):
            return ('retryable', 0, tag)
        if isinstance(e, ca.WriteTimeout):
            return ('retryable', 1, tag)
        if isinstance(e, ca.Unavailable):
            return ('retryable', 2, tag)
        if isinstance(e, ca.InvalidRequest):
            return ('other_error', None, tag)
    return None


def classify_err(env, e):
    """canonical value of an _errors entry (flat ints): see `err` in coq/Model/FutB.v"""
    d = drv()
    if isinstance(e, d['PO'].NoConnectionsAvailable):
        return [2]
    if isinstance(e, d['C'].ConnectionBusy):
        return [3]
    if isinstance(e, RuntimeError) and str(e) == 'borrow-fail':
        return [4]
    if isinstance(e, d['C'].ConnectionShutdown) and 'send-fail' in str(e):
        return [5]
    t = by_tag(env, e)
    if t and t[0] == 'retryable':
        return [6, t[1], t[2]]
    if t and t[0] == 'raw_message':
        return [98, t[1] if t[1] is not None else -1, t[2]]
    if isinstance(e, d['C'].ConnectionException):
        if 'marked down or removed' in str(e):
            return [0]
        if 'Pool is shutdown' in str(e):
            return [1]
    return [99, abs(hash(type(e).__name__)) % 1000]


def classify_exc(env, hosts, e):
    """canonical final exception (without the leading option tag): see `fexc` in coq/Model/FutB.v"""
    d = drv()
    if e is None:
        return None
    if isinstance(e, d['cluster'].NoHostAvailable):
        # NoHostAvailable.errors IS the future's live _errors dict in the driver (no copy): the canonical value is what it holds
        # NOW (the model's XNoHost reads the current _errors too)
        out = [5, len(e.errors)]
        for h, v in e.errors.items():
            out += [hosts.index(h)] + classify_err(env, v)
        return out
    t = by_tag(env, e)
    if t:
        if t[0] == 'retryable':
            return [1, t[1], t[2]]
        if t[0] == 'other_error':
            return [2, t[2]]
        if t[0] == 'other_exc':
            return [3, t[2]]
        if t[0] == 'unprepared':
            return [4, t[2]]
        if t[0] == 'raw_message':
            return [98, t[1] if t[1] is not None else -1, t[2]]
    if isinstance(e, d['cassandra'].DriverException) and 'ID mismatch' in str(e):
        return [6]
    if isinstance(e, ValueError) and 'current keyspace' in str(e):
        return [7]
    if isinstance(e, d['C'].ConnectionException) and 'Got unexpected' in str(e):
        return [8]
    if isinstance(e, d['C'].ConnectionShutdown) and 'Session is shut down' in str(e):
        return [11]
    if isinstance(e, d['cassandra'].OperationTimedOut):
        return [12]
    if isinstance(e, AssertionError):
        return [9]
    if isinstance(e, AttributeError):
        return [10]
    return [99, abs(hash(type(e).__name__)) % 1000]


def make_response(env, r):
    """real cassandra.protocol objects / exception instances for a scripted response"""
    d = drv()
    P, C = d['P'], d['C']
    k = r[0]
    if k == 0:
        m = P.ResultMessage(P.RESULT_KIND_ROWS)
        m.column_names, m.column_types, m.parsed_rows, m.paging_state = ['a'], [None], [(1,)], None
        return m
    if k == 8:
        m = P.ResultMessage(P.RESULT_KIND_ROWS)
        m.column_names, m.column_types, m.parsed_rows, m.paging_state = ['a'], [None], [(1,)], b'more'
        return m
    if k == 1:
        return P.ResultMessage(P.RESULT_KIND_VOID)
    if k == 2:
        m = P.ResultMessage(P.RESULT_KIND_PREPARED)
        m.query_id, m.column_metadata, m.result_metadata_id = idbytes(r[1]), [], None
        return m
    if k == 3:
        kind, tag = r[1], r[2]
        msg = 'tag=%d' % tag
        if kind == 0:
            o = P.ReadTimeoutErrorMessage(0x1200, msg, {'consistency': 1, 'received_responses': 1, 'required_responses': tag, 'data_retrieved': False})
        elif kind == 1:
            o = P.WriteTimeoutErrorMessage(0x1100, msg, {'consistency': 1, 'received_responses': 1, 'required_responses': tag, 'write_type': 0})
        elif kind == 2:
            o = P.UnavailableErrorMessage(0x1000, msg, {'consistency': 1, 'required_replicas': tag, 'alive_replicas': 1})
        elif kind == 3:
            o = P.OverloadedErrorMessage(0x1001, msg, None)
        elif kind == 4:
            o = P.IsBootstrappingErrorMessage(0x1002, msg, None)
        elif kind == 5:
            o = P.TruncateError(0x1003, msg, None)
        elif kind == 6:
            o = P.ServerError(0x0000, msg, None)
        elif kind == 7:
            o = C.ConnectionException(msg)
        else:
            o = C.ConnectionShutdown(msg)
        env.registry[id(o)] = ('retryable', kind, tag)
        env.keep.append(o)
        return o
    if k == 4:
        o = P.PreparedQueryNotFound(0x2500, 'tag=%d' % r[2], idbytes(r[1]))
        env.registry[id(o)] = ('unprepared', None, r[2])
        env.keep.append(o)
        return o
    if k == 5:
        tag = r[1]
        if tag % 2:
            o = P.SyntaxException(0x2000, 'tag=%d' % tag, None)       # to_exception() is the message itself
        else:
            o = P.InvalidRequestException(0x2200, 'tag=%d' % tag, None)  # to_exception() builds cassandra.InvalidRequest
        env.registry[id(o)] = ('other_error', None, tag)
        env.keep.append(o)
        return o
    if k == 6:
        o = KeyError('tag=%d' % r[1])
        env.registry[id(o)] = ('other_exc', None, r[1])
        env.keep.append(o)
        return o
    return object()


def enc_opt(v):
    return [0] if v is None else [1, v]


class Run(object):
    """One scenario on the real ResponseFuture.  step(op) -> observation (flat int list)."""

    def __init__(self, sc):
        d = drv()
        self.sc = sc
        env = self.env = Env(sc)
        Host = d['PO'].Host
        self.hosts = [Host(d['C'].DefaultEndPoint('10.0.0.%d' % (i + 1)), d['POL'].SimpleConvictionPolicy)
                      for i in range(sc['n'])]
        self.session = make_session_class()(env, sc, self.hosts)
        for (i, q, k) in sc.get('known', []):
            self.session.cluster._prepared_statements[idbytes(i)] = self._ps(i, q, k)
        self.policy = RecordingPolicy(env, sc['script'])
        has_pol, max_att = sc['spec']
        spec_pol = d['POL'].ConstantSpeculativeExecutionPolicy(0.05, max_att) if has_pol else None
        lb = self.lb = FakeLB(env, self.hosts, sc['plan'])
        if sc.get('analytics'):
            # DSE graph with an analytics source: Session.execute_graph_async re-plans through DefaultLoadBalancingPolicy
            # (real class) once the analytics master is known; the scripted plan is its child policy's plan
            for h in self.hosts:
                h.set_up()
            hosts = self.hosts

            class _Meta(object):
                def get_host(self, addr, port=None):
                    for h in hosts:
                        if h.endpoint.address == addr:
                            return h
                    return None
            lb = d['POL'].DefaultLoadBalancingPolicy(lb)
            lb._cluster_metadata = _Meta()
        profile = d['cluster'].ExecutionProfile(load_balancing_policy=lb,
                                                retry_policy=self.policy, consistency_level=sc['cl'],
                                                request_timeout=5.0 if sc.get('timeout') else None, speculative_execution_policy=spec_pol,
                                                row_factory=lambda names, rows: ('rows', rows))
        if sc['ps'] is not None:
            query = self._ps(*sc['ps'])
            params = ()
        else:
            query = d['Q'].SimpleStatement('SELECT * FROM t')
            params = None
        if sc['ps'] is not None:
            # 'pidem': is_idempotent of the PreparedStatement at execution time (may differ from the BoundStatement's,
            # which is the statement actually executed: flag set after binding, or overridden on the bound statement)
            bound = query.bind((1,) if sc.get('markers') else ())
            if sc.get('pidem') is not None:
                query.is_idempotent = bool(sc['pidem'])
            bound.is_idempotent = bool(sc['idem'])
            query = bound
            # _create_response_future binds PreparedStatement itself; pass the BoundStatement so the flag is ours
        else:
            query.is_idempotent = bool(sc['idem'])
        target = None if sc.get('target') is None else self.hosts[sc['target']]
        d['cluster'].time = env.clock         # ResponseFuture reads the clock through cassandra.cluster.time
        self.future = self.session._create_response_future(query, params, False, None, d['cluster']._NOT_SET, execution_profile=profile,
                                                           host=target)
        self.future._errors = RecordingDict(env, self.hosts)
        env.future = self.future
        self.n_log = 0

    def _ps(self, i, q, k):
        """as Session.prepare does from the PREPARED response: PreparedStatement.from_message (statement keyspace = the keyspace
        given to prepare()); sc['markers']: the statement has one bind marker (the other branch of from_message)"""
        d = drv()
        bind_meta, pk = [], None
        if self.sc.get('markers'):
            from cassandra.cqltypes import Int32Type
            bind_meta, pk = [d['P'].ColumnMetadata('ksx', 't', 'c', Int32Type)], [0]
        return d['Q'].PreparedStatement.from_message(idbytes(i), bind_meta, pk, None, qsname(q), ksname(k), self.sc['pv'], [], None)

    # ------------------------------------------------------------------ enabledness (mirrors the model)
    def open_attempts(self):
        # (a request popped from the connection by _on_timeout is orphaned: its answer would never reach the future)
        return [i for i, r in enumerate(self.env.sent) if not r.get('answered') and r['rid'] in r['conn']._requests]

    def spec_armed(self):
        f = self.future
        return any((not t.cancelled and not t.fired and getattr(t.cb, '__name__', '') == '_on_speculative_execute')
                   for t in self.env.timers)

    def completed(self):
        return self.future._event.is_set()

    def accounting(self):
        """[(connection serial, host, in_flight, unanswered requests on it)] where the two numbers differ: every borrow must be
        matched by exactly one return_connection on the SAME connection once its request is answered / failed"""
        bad = []
        for c in self.env.conns:
            open_here = sum(1 for r in self.env.sent if r['conn'] is c and (not r.get('answered') or r.get('task') is not None))
            if c.in_flight != open_here:
                bad.append((c.serial, c.hidx, c.in_flight, open_here))
        return bad

    # ------------------------------------------------------------------ one op
    def step(self, op):
        env, f = self.env, self.future
        k = op[0]
        if k == 'start':
            env.fire_in_borrow = len(op) > 1 and op[1] == 'spec_in_borrow'
            if self.sc.get('analytics'):
                # Session._target_analytics_master's callback (real code) with the scripted answer of the master lookup, then the
                # send_request it hands to the executor
                m = self.sc['analytics'].get('master')

                class _MasterFuture(object):
                    def result(self):
                        if m is None:
                            raise RuntimeError('analytics master lookup failed')
                        return [({'location': '10.0.0.%d:8182' % (m + 1)},)]
                n0 = len(env.queue)
                self.session._on_analytics_master_result(None, _MasterFuture(), f)
                fn, args, kwargs = env.queue.pop(n0)
                fn(*args, **kwargs)
            else:
                f.send_request()
            env.fire_in_borrow = False
        elif k == 'resp':
            i = op[1]
            if i < len(env.sent) and not env.sent[i].get('answered'):
                env.sent[i]['answered'] = True
                rec = env.sent[i]
                rec['conn']._requests.pop(rec['rid'], None)
                nq = len(env.queue)
                rec['cb'](make_response(env, op[2]))
                if rec['kind'] == 1 and len(env.queue) == nq + 1:
                    rec['task'] = env.queue[-1]      # the PREPARE's connection is handed back by _execute_after_prepare (this task)
                with rec['conn'].lock:                      # process_msg: the stream id becomes reusable (FIFO)
                    rec['conn'].request_ids.append(rec['rid'])
        elif k == 'run':
            if op[1] < len(env.queue):
                task = env.queue.pop(op[1])
                fn, args, kwargs = task
                for rec in env.sent:
                    if rec.get('task') is task:
                        rec['task'] = None
                fn(*args, **kwargs)
        elif k == 'spec':
            for t in env.timers:
                if not t.cancelled and not t.fired and getattr(t.cb, '__name__', '') == '_on_speculative_execute':
                    t.fired = True
                    t.cb()
                    break
        elif k == 'pool':
            env.pool_state[op[1]] = op[2]
            if op[2] == PHEALTHY:
                self.session._pools.pools[self.hosts[op[1]]].reconnect()    # a replaced connection: stream ids start at 0 again
        elif k == 'ks':
            env.keyspace = op[1]
        elif k == 'shutdown':
            env.shut = True
        elif k == 'page':
            # ResultSet.fetch_next_page -> ResponseFuture.start_fetching_next_page; op[1] = the load balancer's plan for this fetch
            self.lb.plan = list(op[1])
            try:
                f.start_fetching_next_page()
            except drv()['cluster'].QueryExhausted:
                pass
        else:
            raise ValueError(op)
        return self.observe()

    # ------------------------------------------------------------------ observation (same layout as FutB.enc_obs)
    def canon_resp(self, r):
        d = drv()
        P = d['P']
        if isinstance(r, P.ResultMessage):
            if r.kind == P.RESULT_KIND_ROWS:
                return [8] if r.paging_state else [0]
            if r.kind == P.RESULT_KIND_VOID:
                return [1]
            if r.kind == P.RESULT_KIND_PREPARED:
                return [2, unid(r.query_id)]
        t = self.env.registry.get(id(r))
        if t:
            if t[0] == 'retryable':
                return [3, t[1], t[2]]
            if t[0] == 'unprepared':
                return [4, unid(r.info), t[2]]
            if t[0] == 'other_error':
                return [5, t[2]]
            if t[0] == 'other_exc':
                return [6, t[2]]
        return [7]

    def canon_task(self, t):
        fn, args, kwargs = t
        name = getattr(fn, '__name__', '?')
        if name == '_retry_task':
            return [0, 1 if args[0] else 0, self.hosts.index(args[1])]
        if name == '_reprepare':
            pm = args[0]
            return [1, self.hosts.index(args[1]), unqs(pm.query)] + enc_opt(unks(pm.keyspace))
        if name == '_execute_after_prepare':
            return [2, self.hosts.index(args[0])] + self.canon_resp(args[3])
        return [99]

    def state(self):
        """observable state as a dict (used by the Python oracles) """
        env, f = self.env, self.future
        d = drv()
        fr = f._final_result
        if fr is d['cluster']._NOT_SET:
            res = None
        elif fr is None:
            res = 1
        elif isinstance(fr, tuple) and fr and fr[0] == 'rows':
            res = 0
        else:
            res = 2
        return {'errors': [[self.hosts.index(h)] + classify_err(env, v) for h, v in f._errors.items()],
                'retries': f._query_retries, 'cl': getattr(f.message, 'consistency_level', None),
                'queue': [self.canon_task(t) for t in env.queue], 'res': res,
                'exc': classify_exc(env, self.hosts, f._final_exception), 'spec': 1 if self.spec_armed() else 0,
                'paging': 1 if f._paging_state else 0}

    def observe(self):
        env = self.env
        ev = env.log[self.n_log:]
        self.n_log = len(env.log)
        st = self.state()
        self.last_events, self.last_state = ev, st
        return enc_obs(ev, st)


def enc_obs(ev, st):
    out = [len(ev)]
    for e in ev:
        out += e
    out.append(len(st['errors']))
    for e in st['errors']:
        out += e
    out.append(st['retries'])
    out += enc_opt(st['cl'])
    out.append(len(st['queue']))
    for t in st['queue']:
        out += t
    out += enc_opt(st['res'])
    out += [0] if st['exc'] is None else [1] + st['exc']
    out.append(st['spec'])
    out.append(st['paging'])
    return out


def enc_mkind(rec):
    if rec['kind'] == 1:
        return [1, unqs(rec['qs'])] + enc_opt(unks(rec['ks']))
    return [0] + enc_opt(rec['cl'])


def unid(b):
    m = re.match(rb'id(\d+)$', b or b'')
    return int(m.group(1)) if m else -1


def unqs(q):
    m = re.match(r'SELECT \* FROM t(\d+)$', q or '')
    return int(m.group(1)) if m else -1


def unks(k):
    if k is None:
        return None
    m = re.match(r'ks(\d+)$', k)
    return int(m.group(1)) if m else -1


def run_scenario(sc):
    """-> (list of observations, Run)"""
    r = Run(sc)
    obs = [r.step(op) for op in sc['ops']]
    return obs, r
