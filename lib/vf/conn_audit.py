"""Atomicity audit for Model/Conn.v: the state fields each model step touches are accessed inside the
`with <x>.lock` regions the model assumes; the accesses the source really makes outside a lock are exactly the ones the
model has as separate steps.  Pure AST, no import of the driver."""
import ast, os

FIELDS = ('in_flight', 'request_ids', 'orphaned_request_ids', 'orphaned_threshold_reached', 'highest_request_id',
          '_requests', 'is_defunct', 'is_closed')


def is_lock_ctx(e):
    return isinstance(e, ast.Attribute) and e.attr == 'lock'


class V(ast.NodeVisitor):
    def __init__(self):
        self.acc = []        # (func qualname, field, kind, locked, lineno)
        self.calls = []      # (func qualname, callee attr, locked, lineno)
        self.fn = []
        self.lock = 0

    def visit_ClassDef(self, n):
        self.fn.append(n.name)
        self.generic_visit(n)
        self.fn.pop()

    def visit_FunctionDef(self, n):
        self.fn.append(n.name)
        saved, self.lock = self.lock, 0
        self.generic_visit(n)
        self.lock = saved
        self.fn.pop()

    visit_AsyncFunctionDef = visit_FunctionDef

    def visit_With(self, n):
        locked = any(is_lock_ctx(i.context_expr) for i in n.items)
        for i in n.items:
            self.visit(i.context_expr)
        if locked:
            self.lock += 1
        for st in n.body:
            self.visit(st)
        if locked:
            self.lock -= 1

    def q(self):
        return '.'.join(self.fn)

    def visit_Attribute(self, n):
        if n.attr in FIELDS:
            kind = 'write' if isinstance(n.ctx, (ast.Store, ast.Del)) else 'read'
            self.acc.append((self.q(), n.attr, kind, self.lock > 0, n.lineno))
        self.generic_visit(n)

    def visit_AugAssign(self, n):
        if isinstance(n.target, ast.Attribute) and n.target.attr in FIELDS:
            self.acc.append((self.q(), n.target.attr, 'write', self.lock > 0, n.lineno))
        self.generic_visit(n)

    def visit_Call(self, n):
        f = n.func
        if isinstance(f, ast.Attribute):
            if f.attr == 'get_request_id':
                self.calls.append((self.q(), 'get_request_id', self.lock > 0, n.lineno))
            # mutating method calls on a tracked container: x.request_ids.append(..), x._requests.pop(..)
            if isinstance(f.value, ast.Attribute) and f.value.attr in FIELDS and f.attr in (
                    'append', 'popleft', 'pop', 'add', 'remove', 'discard', 'popitem', 'clear', 'appendleft'):
                self.acc.append((self.q(), f.value.attr, 'mutate:' + f.attr, self.lock > 0, n.lineno))
        self.generic_visit(n)


def scan(repo, rel):
    v = V()
    v.visit(ast.parse(open(os.path.join(repo, rel)).read()))
    return v


# accesses the model has as separate, unlocked steps (function, field, kind)
EXPECTED_UNLOCKED = {
    ('Connection.__init__', '*', '*'),
    ('Connection.get_request_id', 'request_ids', '*'),                   # caller holds the lock (checked below)
    ('Connection.get_request_id', 'highest_request_id', '*'),
    ('Connection.send_msg', 'is_defunct', 'read'), ('Connection.send_msg', 'is_closed', 'read'),     # SendCheck
    ('Connection.send_msg', '_requests', 'read'),                                                     # SendReg (store by subscript)
    ('Connection.process_msg', '_requests', 'mutate:pop'), ('Connection.process_msg', '_requests', 'read'),  # RecvPop
    ('ResponseFuture._on_timeout', '_requests', 'mutate:pop'), ('ResponseFuture._on_timeout', '_requests', 'read'),  # TimeoutPop
    ('Connection.wait_for_responses', 'is_closed', 'read'), ('Connection.wait_for_responses', 'is_defunct', 'read'),
    ('Connection.__str__', '*', 'read'),
    ('ConnectionHeartbeat.run', 'is_defunct', 'read'), ('ConnectionHeartbeat.run', 'is_closed', 'read'),
    ('HostConnection.borrow_connection', 'orphaned_threshold_reached', 'read'),   # pre-test that only schedules a replacement
    ('HostConnection.borrow_connection', 'is_closed', 'read'),
    ('HostConnection.return_connection', 'is_defunct', 'read'), ('HostConnection.return_connection', 'is_closed', 'read'),
    ('HostConnection.get_state', '*', 'read'), ('HostConnectionPool.get_state', '*', 'read'),
}


# handshake steps run before the connection is handed to a pool / control connection: one actor (C47's territory)
HANDSHAKE = ('Connection._send_options_message', 'Connection._send_startup_message', 'Connection._handle_startup_response',
             'Connection._handle_auth_response')


def allowed(fn, field, kind):
    for f, fl, k in EXPECTED_UNLOCKED:
        if (f == fn or fn.startswith(f + '.')) and fl in ('*', field) and k in ('*', kind):
            return True
    return False


SCOPE = {
    'cassandra/connection.py': ('Connection.', 'HeartbeatFuture.', 'ConnectionHeartbeat.', 'ResponseWaiter.', 'ContinuousPagingSession.'),
    'cassandra/pool.py': ('HostConnection.',),
    'cassandra/cluster.py': ('ResponseFuture._on_timeout', 'ResponseFuture._query'),
}


def audit(repo):
    probs, facts = [], {}
    for rel, prefixes in SCOPE.items():
        v = scan(repo, rel)
        for fn, callee, locked, ln in v.calls:
            if fn == 'Connection.get_request_id':
                continue
            if fn in HANDSHAKE:
                facts.setdefault('get_request_id_handshake_sites', []).append('%s:%d %s' % (rel, ln, fn))
                continue
            facts.setdefault('get_request_id_sites', []).append('%s:%d %s' % (rel, ln, 'locked' if locked else 'UNLOCKED'))
            if not locked:
                probs.append('%s:%d: get_request_id() called outside a `with <conn>.lock` region in %s' % (rel, ln, fn))
        for fn, field, kind, locked, ln in v.acc:
            if not any(fn.startswith(p) or fn + '.' == p for p in prefixes):
                continue
            if field in ('is_defunct', 'is_closed') and kind == 'read':
                continue    # flag reads are modelled as their own steps (SendCheck, run's tests) or under the lock
            if locked or allowed(fn, field, kind):
                continue
            probs.append('%s:%d: %s %s of %s outside a lock region in %s (the model has no separate step for it)'
                         % (rel, ln, kind, field, field, fn))
    # structure of process_msg: locked orphan test, then the unlocked pop, then a locked append at the tail
    v = scan(repo, 'cassandra/connection.py')
    pm = [(f, k, l, ln) for fn, f, k, l, ln in v.acc if fn == 'Connection.process_msg']
    orph = [ln for f, k, l, ln in pm if f == 'orphaned_request_ids' and l]
    pops = [ln for f, k, l, ln in pm if f == '_requests' and k == 'mutate:pop']
    apps = [ln for f, k, l, ln in pm if f == 'request_ids' and k == 'mutate:append' and l]
    if not (orph and pops and apps and min(orph) < min(pops) < max(apps)):
        probs.append('process_msg no longer has the shape: locked orphan test < _requests.pop < locked request_ids.append')
    # send_msg registers the handler BEFORE it pushes the message (SendReg = registration + push: no response can be
    # processed for a stream whose handler is not registered yet)
    sm = [n for n in ast.walk(ast.parse(open(os.path.join(repo, 'cassandra/connection.py')).read()))
          if isinstance(n, ast.FunctionDef) and n.name == 'send_msg']
    if sm:
        reg = [n.lineno for n in ast.walk(sm[0]) if isinstance(n, ast.Subscript) and isinstance(n.ctx, ast.Store)
               and isinstance(n.value, ast.Attribute) and n.value.attr == '_requests']
        psh = [n.lineno for n in ast.walk(sm[0]) if isinstance(n, ast.Call) and isinstance(n.func, ast.Attribute) and n.func.attr == 'push']
        if not reg or not psh or not (max(reg) < min(psh)):
            probs.append('send_msg: the handler is not registered in _requests before self.push(msg) (lines %r vs %r)' % (reg, psh))
    # defunct / error_all_requests lock regions
    for fn, field, kind in (('Connection.defunct', 'is_defunct', 'write'), ('Connection.error_all_requests', '_requests', 'write')):
        hits = [l for f2, f, k, l, ln in v.acc if f2 == fn and f == field and k == kind]
        if not hits or not all(hits):
            probs.append('%s: %s %s is not inside `with self.lock`' % (fn, field, kind))
    # every reactor's close(): `with self.lock: ... self.is_closed = True`, then `if not self.is_defunct: self.error_all_requests(`
    io = os.path.join(repo, 'cassandra', 'io')
    seen = 0
    for fnm in sorted(os.listdir(io)):
        if not fnm.endswith('reactor.py'):
            continue
        tree = ast.parse(open(os.path.join(io, fnm)).read())
        for cls in [n for n in tree.body if isinstance(n, ast.ClassDef)]:
            if not any((isinstance(b, ast.Name) and b.id == 'Connection') or (isinstance(b, ast.Attribute) and b.attr == 'Connection') for b in cls.bases):
                continue
            ms = [n for n in cls.body if isinstance(n, (ast.FunctionDef, ast.AsyncFunctionDef)) and n.name in ('close', '_close')]
            if not any(m.name == 'close' for m in ms):
                continue
            seen += 1
            w, guarded = [], False
            for m in ms:
                vv = V()
                vv.fn = [cls.name]
                vv.visit(m)
                w += [l for fn, f, k, l, ln in vv.acc if f == 'is_closed' and k == 'write']
                for n in ast.walk(m):
                    if isinstance(n, ast.If) and isinstance(n.test, ast.UnaryOp) and isinstance(n.test.op, ast.Not) \
                            and isinstance(n.test.operand, ast.Attribute) and n.test.operand.attr == 'is_defunct':
                        if any(isinstance(c, ast.Call) and isinstance(c.func, ast.Attribute) and c.func.attr == 'error_all_requests'
                               for c in ast.walk(n)):
                            guarded = True
            if not w or not all(w):
                probs.append('%s %s.close: is_closed is not set under self.lock' % (fnm, cls.name))
            if not guarded:
                probs.append('%s %s.close: no `if not self.is_defunct: self.error_all_requests(...)`' % (fnm, cls.name))
    facts['reactor_close_methods_checked'] = seen
    if seen < 4:
        probs.append('fewer reactor close() methods found than expected (%d)' % seen)
    return probs, facts
