"""Single-threaded harness around the REAL cassandra.cluster.ResponseFuture (C14, C15).

Everything outside ResponseFuture is faked: session, pools, connections, timers, executor queue, load-balancing plan,
speculative-execution plan, retry policy, clock.  One history op = one call into the real class:

  ['send']                         Session.execute_async's call of future.send_request()
  ['pools', {host: state}]         environment change; state in ok|noconn|sendfail|shutdown|missing
  ['tick', ms]                     virtual clock advances
  ['resp', a, kind, arg, cls]      the callback recorded by send_msg for attempt a is invoked with a real message object
                                   kind: rows(arg=more pages?) | void | retry(arg=decision 0..3, cls=message class)
                                         | other(cls) | junk
  ['fire', k]                      k-th created timer fires (only if not cancelled, not fired, due)
  ['run', k]                       k-th queued executor task runs
  ['nextpage', [hosts]]            future.start_fetching_next_page() with a fresh query plan
  ['addcb']                        future.add_callbacks(cb_k, eb_k)
  ['result']                       future.result() (only when it would not block)
  ['presp', a, pk]                 the PREPARE sent as attempt a (by _reprepare) is answered; pk in prepared|mismatch|error|connerr|junk
  ['foreign', h]                   ANOTHER statement uses the connection of host h: enough requests are served for the most recently
                                   returned stream id to come round, one request stays in flight on it (no call into the future)
  ['shutdown']                     Session.shutdown() has set session.is_shutdown (the REAL Session.submit then refuses work)
  ['refresh', k]                   the executor runs the k-th queued refresh_schema_and_set_result (after a SCHEMA_CHANGE answer)
  ['ksreport', c, h, err]          pool h reports the outcome of its internal USE to keyspace propagation c (started by a
                                   SET_KEYSPACE answer through the REAL Session._set_keyspace_for_all_pools)

Stream ids are per connection and recycled like Connection.request_ids (deque: popleft on borrow, append on answer or when
the driver hands an unused id back).  Times are integer milliseconds; the fake time.time() returns exact Fractions of seconds, so no float rounding
enters the comparison with the model (which counts milliseconds in Z).
"""
import collections, re, sys, threading, types
from fractions import Fraction
from functools import partial

NIDS = 64
DECISIONS = ['RETRY', 'RETRY_NEXT_HOST', 'RETHROW', 'IGNORE']
PSTATE = {'ok': 0, 'noconn': 1, 'sendfail': 2, 'shutdown': 3, 'missing': 4}
RETRY_CLASSES = ['ReadTimeout', 'WriteTimeout', 'Unavailable', 'Overloaded', 'Bootstrapping', 'Truncate', 'ServerError',
                 'ConnException', 'ConnShutdown']
OTHER_CLASSES = ['Syntax', 'Invalid', 'Unauthorized', 'ReadFailure', 'PlainException']

_cl = None


def cluster_mod():
    global _cl
    if _cl is None:
        from vf.impl import import_cluster
        _cl = import_cluster()
    return _cl


class FakeTimeModule(object):
    """replaces the name `time` inside cassandra.cluster while a World is stepping"""
    def __init__(self, world):
        self.world = world

    def time(self):
        return Fraction(self.world.now, 1000)


class FakeTimer(object):
    def __init__(self, kind, due, callback):
        self.kind, self.due, self.callback = kind, due, callback
        self.canceled = False
        self.fired = False

    def cancel(self):
        self.canceled = True


class FakeHost(object):
    def __init__(self, i):
        self.i = i
        self.endpoint = 'h%d' % i

    def __repr__(self):
        return 'h%d' % self.i


class FakeConn(object):
    orphaned_threshold = 1000
    orphaned_threshold_reached = False
    keyspace = None
    is_defunct = False
    is_closed = False

    def __init__(self, world, host):
        self.world, self.host = world, host
        self._requests = {}
        self.lock = threading.Lock()
        self.orphaned_request_ids = set()
        self.request_ids = collections.deque(range(NIDS))   # free stream ids, recycled as in Connection
        self.foreign = {}        # stream id -> callback object of a request of another statement, in flight here
        self.defuncts = 0

    def send_msg(self, msg, request_id, cb, encoder=None, decoder=None, result_metadata=None):
        if self.world.pool_state.get(self.host.i, 'missing') == 'sendfail':
            raise cluster_mod().ConnectionBusy('busy h%d' % self.host.i)
        assert request_id not in self._requests
        self._requests[request_id] = (cb, decoder, result_metadata)
        self.world.attempts.append({'host': self.host.i, 'rid': request_id, 'page': self.world.f._page_no, 'cb': cb,
                                    'prep': type(msg).__name__ == 'PrepareMessage'})
        self.world.sent.append((self.host.i, getattr(msg, 'paging_state', None)))
        return 10

    def defunct(self, exc):
        self.defuncts += 1
        self.is_defunct = True


class FakePool(object):
    def __init__(self, world, host):
        self.world, self.host = world, host
        self.conn = FakeConn(world, host)
        self.returned = 0
        self.orphan_returns = 0

    @property
    def is_shutdown(self):
        return self.world.pool_state.get(self.host.i) == 'shutdown'

    def borrow_connection(self, timeout):
        st = self.world.pool_state.get(self.host.i)
        if st == 'noconn':
            raise cluster_mod().NoConnectionsAvailable('none h%d' % self.host.i)
        if not self.conn.request_ids:
            raise cluster_mod().NoConnectionsAvailable('no stream id left on h%d' % self.host.i)
        return self.conn, self.conn.request_ids.popleft()

    def return_connection(self, conn, stream_was_orphaned=False):
        if stream_was_orphaned:
            self.orphan_returns += 1
        else:
            self.returned += 1

    def _set_keyspace_for_all_conns(self, keyspace, callback):
        """like HostConnection: a shut-down pool reports at once; otherwise the internal USE is in flight until the
        history delivers its outcome (['ksreport', chain, host, err])"""
        if self.is_shutdown:
            callback(self, [])
            return
        w = self.world
        for ch in w.chains:
            if ch['cb'] is callback:
                break
        else:
            ch = {'cb': callback, 'waiting': {}, 'err': False}
            w.chains.append(ch)
        ch['waiting'][self.host.i] = self


class PoolMap(object):
    """session._pools: hosts whose state is 'missing' have no pool"""
    def __init__(self, world):
        self.world = world
        self.pools = {}

    def get(self, host, default=None):
        if host is None or self.world.pool_state.get(host.i, 'missing') == 'missing':
            return default
        if host.i not in self.pools:
            self.pools[host.i] = FakePool(self.world, host)
        return self.pools[host.i]

    def values(self):
        return [self.get(self.world.host(i)) for i in sorted(self.world.pool_state) if self.world.pool_state[i] != 'missing']


class FakeLB(object):
    def __init__(self, world):
        self.world = world

    def make_query_plan(self, keyspace, query):
        return [self.world.host(i) for i in self.world.next_plan]


class FakeSpecPlan(object):
    def __init__(self, delays):
        self.delays = list(delays)

    def next_execution(self, host):
        if self.delays:
            return Fraction(self.delays.pop(0), 1000)
        return -1


class FakeRetryPolicy(object):
    def __init__(self, world):
        self.world = world
        self.calls = []

    def _decide(self, name, retry_num):
        self.calls.append((name, retry_num))
        RP = cluster_mod().RetryPolicy
        d = self.world.next_decision
        return (getattr(RP, DECISIONS[d]), None)

    def on_read_timeout(self, query, retry_num=None, **kw):
        return self._decide('read', retry_num)

    def on_write_timeout(self, query, retry_num=None, **kw):
        return self._decide('write', retry_num)

    def on_unavailable(self, query, retry_num=None, **kw):
        return self._decide('unavailable', retry_num)

    def on_request_error(self, query, consistency, error=None, retry_num=None):
        return self._decide('request_error', retry_num)


class FakeConnectionClass(object):
    def __init__(self, world):
        self.world = world

    def create_timer(self, timeout, callback):
        w = self.world
        RF = cluster_mod().ResponseFuture
        if isinstance(callback, partial):
            kind = 1 + callback.keywords.get('_attempts', 0) if callback.func.__func__ is RF._on_timeout else -1
        elif getattr(callback, '__func__', None) is RF._on_timeout:
            kind = 1
        elif getattr(callback, '__func__', None) is RF._on_speculative_execute:
            kind = 0
        else:
            kind = -1
        ms = Fraction(timeout).limit_denominator(100000) * 1000
        if ms.denominator != 1:
            raise AssertionError('timer delay %r is not a whole number of milliseconds' % (timeout,))
        t = FakeTimer(kind, w.now + int(ms), callback)
        w.timers.append(t)
        return t


class Obj(object):
    pass


class World(object):
    def __init__(self, cfg):
        cl = cluster_mod()
        self.cfg = cfg
        self.now = cfg.get('now', 0)
        self.pool_state = dict((int(k), v) for k, v in cfg.get('pools', {}).items())
        self.hosts = {}
        self.timers = []
        self.queue = []
        self.attempts = []       # (host, req_id) in send order; req_id == index
        self.sent = []
        self.next_plan = list(cfg.get('plan', []))
        self.next_decision = 2
        self.pairs = []          # per registered pair: {'cb': [vals], 'eb': [vals]} for the current page fetch
        self.epoch_start = self.now
        self.timed_out = False
        self.result_log = []
        self.refreshes = []      # queued refresh_schema_and_set_result tasks
        self.chains = []         # keyspace propagations: {'cb': closure of the real Session method, 'waiting': {host: pool}, 'err': bool}
        self.swallowed = []      # exceptions that escaped into the (fake) reactor / executor, which log and go on
        self.session = Obj()
        s = self.session
        s.row_factory = lambda names, rows: rows
        s.keyspace = None
        s.is_shutdown = False
        s._pools = PoolMap(self)
        s.submit = types.MethodType(cl.Session.submit, s)      # the real method: refuses (returns None) once shut down
        s._lock = threading.RLock()
        s._set_keyspace_for_all_pools = types.MethodType(cl.Session._set_keyspace_for_all_pools, s)
        s.cluster = Obj()
        s.cluster.executor = Obj()
        s.cluster.executor.submit = self._submit
        s.cluster.connection_class = FakeConnectionClass(self)
        s.cluster._default_load_balancing_policy = FakeLB(self)
        s.cluster.protocol_version = 4
        s.cluster._prepared_statements = {}
        s.cluster.control_connection = Obj()
        s.cluster.control_connection._connection = None
        s.cluster.control_connection._refresh_schema = lambda connection, **kw: True
        s.cluster.control_connection.refresh_schema = lambda **kw: True
        from cassandra.protocol import QueryMessage
        from cassandra.query import SimpleStatement
        self.policy = FakeRetryPolicy(self)
        self.faketime = FakeTimeModule(self)
        msg = QueryMessage('SELECT 1', 1)
        self.prepared = Obj()
        self.prepared.query_id, self.prepared.keyspace, self.prepared.query_string = b'qid', None, 'SELECT 1'
        self.prepared.result_metadata, self.prepared.result_metadata_id = [], None
        timeout = cfg.get('timeout')
        with self:
            self.f = cl.ResponseFuture(s, msg, SimpleStatement('SELECT 1'),
                                       None if timeout is None else Fraction(timeout, 1000),
                                       retry_policy=self.policy, prepared_statement=self.prepared,
                                       speculative_execution_plan=FakeSpecPlan(cfg.get('specs', [])))
        # instrument _on_timeout completion (ghost flag of the model: the timeout handler ran past its reschedule branch)

    # the clock is patched only while the real code runs
    def __enter__(self):
        cl = cluster_mod()
        self._old_time = cl.time
        cl.time = self.faketime

    def __exit__(self, *a):
        cluster_mod().time = self._old_time

    def host(self, i):
        if i not in self.hosts:
            self.hosts[i] = FakeHost(i)
        return self.hosts[i]

    def _submit(self, fn, *a, **kw):
        """cluster.executor.submit: retry tasks and schema refreshes are kept apart (the model has two queues)"""
        if fn is cluster_mod().refresh_schema_and_set_result:
            self.refreshes.append((fn, a, kw))
        else:
            self.queue.append((fn, a, kw))
        return object()

    # ------------------------------------------------------------------ responses
    def make_response(self, a, kind, arg, cls):
        from cassandra import protocol as P
        from cassandra.connection import ConnectionException, ConnectionShutdown
        tag = 'att=%d' % a
        if kind == 'rows':
            r = P.ResultMessage(P.RESULT_KIND_ROWS)
            r.column_names = ['a']
            r.column_types = [None]
            r.parsed_rows = [(a,)]
            r.paging_state = (b'ps%d' % a) if arg else None
            return r
        if kind == 'void':
            return P.ResultMessage(P.RESULT_KIND_VOID)
        if kind == 'unprepared':
            return P.PreparedQueryNotFound(0x2500, 'unprepared att=%d' % a, b'qid')
        if kind == 'schema':
            r = P.ResultMessage(P.RESULT_KIND_SCHEMA_CHANGE)
            r.schema_change_event = {'target_type': 'KEYSPACE', 'change_type': 'CREATED', 'keyspace': 'ks%d' % a}
            return r
        if kind == 'setks':
            r = P.ResultMessage(P.RESULT_KIND_SET_KEYSPACE)
            r.new_keyspace = 'ks%d' % a
            return r
        if kind == 'junk':
            r = P.ReadyMessage()
            r.att = a
            return r
        if kind == 'retry':
            if cls == 'ReadTimeout':
                return P.ReadTimeoutErrorMessage(0x1200, tag, {'consistency': 1, 'received_responses': 0, 'required_responses': 1, 'data_retrieved': False})
            if cls == 'WriteTimeout':
                return P.WriteTimeoutErrorMessage(0x1100, tag, {'consistency': 1, 'received_responses': 0, 'required_responses': 1, 'write_type': 0})
            if cls == 'Unavailable':
                return P.UnavailableErrorMessage(0x1000, tag, {'consistency': 1, 'required_replicas': 1, 'alive_replicas': 0})
            if cls == 'Overloaded':
                return P.OverloadedErrorMessage(0x1001, tag, None)
            if cls == 'Bootstrapping':
                return P.IsBootstrappingErrorMessage(0x1002, tag, None)
            if cls == 'Truncate':
                return P.TruncateError(0x1003, tag, None)
            if cls == 'ServerError':
                return P.ServerError(0x0000, tag, None)
            if cls == 'ConnException':
                return ConnectionException(tag, None)
            if cls == 'ConnShutdown':
                return ConnectionShutdown(tag)
        if kind == 'other':
            if cls == 'Syntax':
                return P.SyntaxException(0x2000, tag, None)
            if cls == 'Invalid':
                return P.InvalidRequestException(0x2200, tag, None)
            if cls == 'Unauthorized':
                return P.UnauthorizedErrorMessage(0x2100, tag, None)
            if cls == 'ReadFailure':
                return P.ReadFailureMessage(0x1300, tag, {'consistency': 1, 'received_responses': 0, 'required_responses': 1,
                                                          'failures': 1, 'data_retrieved': False})
            if cls == 'PlainException':
                return RuntimeError(tag)
        raise ValueError('bad response spec %r' % ((kind, arg, cls),))

    def make_prepare_answer(self, a, pk):
        from cassandra import protocol as P
        cl = cluster_mod()
        if pk in ('prepared', 'mismatch'):
            r = P.ResultMessage(P.RESULT_KIND_PREPARED)
            r.query_id = b'qid' if pk == 'prepared' else b'other'
            r.column_metadata = []
            r.result_metadata_id = None
            return r
        if pk == 'error':
            return P.InvalidRequestException(0x2200, 'att=%d' % a, None)
        if pk == 'connerr':
            return cl.ConnectionException('att=%d' % a, None)
        r = P.ReadyMessage()
        r.att = a
        return r

    # ------------------------------------------------------------------ canonical values
    @staticmethod
    def canon_val(v):
        """result delivered to a callback / held in _final_result -> small int (0 = not set)"""
        if v is None or v == []:
            return 1
        if isinstance(v, list) and len(v) == 1 and isinstance(v[0], tuple):
            return 10 + v[0][0]
        return 9

    @staticmethod
    def canon_exc(e):
        if e is None:
            return 0
        from cassandra import OperationTimedOut
        from cassandra.cluster import NoHostAvailable
        if isinstance(e, OperationTimedOut):
            return 2 if (e.errors and 'Connection defunct by heartbeat' in e.errors) else 1
        if isinstance(e, NoHostAvailable):
            return 3
        if 'Failed to set keyspace on all hosts' in str(e):
            return 4
        if 'Session is shut down' in str(e):
            return 5
        if 'ID mismatch while trying to reprepare' in str(e):
            return 6
        m = re.search(r'att=(\d+)', str(e)) or re.search(r'att=(\d+)', repr(e))
        if m:
            return 10 + int(m.group(1))
        return 9

    # ------------------------------------------------------------------ enabledness (read from the fakes)
    def open_attempts(self):
        """attempts whose own callback is still registered under their stream id"""
        out = []
        for a, at in enumerate(self.attempts):
            p = self.session._pools.pools.get(at['host'])
            if p is not None and p.conn._requests.get(at['rid'], (None,))[0] is at['cb']:
                out.append(a)
        return out

    def take_callback(self, a):
        """what Connection.process_msg does when the answer arrives: unregister, free the stream id"""
        at = self.attempts[a]
        conn = self.session._pools.pools[at['host']].conn
        cb, _, _ = conn._requests.pop(at['rid'])
        if at['rid'] not in conn.orphaned_request_ids:
            conn.request_ids.append(at['rid'])
        return cb

    def foreign_intact(self):
        """requests of other statements are still registered with their own callback"""
        bad = []
        for h, p in self.session._pools.pools.items():
            for rid, cb in p.conn.foreign.items():
                if p.conn._requests.get(rid, (None,))[0] is not cb:
                    bad.append((h, rid))
        return bad

    def own_request_index(self):
        """self._req_id / self._connection translated to the index of the attempt they point at: -1 = none,
        -2 = a stream this future did not send on (e.g. an id it handed back)"""
        f = self.f
        if f._req_id is None:
            return -1
        if f._connection is not None:
            for a in range(len(self.attempts) - 1, -1, -1):
                at = self.attempts[a]
                if at['host'] == f._connection.host.i and at['rid'] == f._req_id:
                    return a
        return -2

    def live_timers(self):
        return [k for k, t in enumerate(self.timers) if not t.canceled and not t.fired]

    def due_timers(self):
        return [k for k in self.live_timers() if self.timers[k].due <= self.now]

    def can_result(self):
        return self.f._event.is_set()

    def has_paging(self):
        return bool(self.f._paging_state)

    def _guarded(self, fn, *a, **kw):
        try:
            fn(*a, **kw)
        except Exception as e:
            self.swallowed.append(repr(e)[:200])

    # ------------------------------------------------------------------ one step
    def step(self, op):
        """returns True if the op was enabled (something was called)"""
        k = op[0]
        f = self.f
        with self:
            if k == 'send':
                f.send_request()
                return True
            if k == 'pools':
                self.pool_state = dict((int(h), s) for h, s in op[1].items())
                return True
            if k == 'tick':
                self.now += op[1]
                return True
            if k == 'resp':
                a, kind, arg, cls = op[1], op[2], op[3], op[4]
                if a not in self.open_attempts():
                    return False
                if self.attempts[a]['prep']:
                    return False
                cb = self.take_callback(a)
                if kind == 'retry':
                    self.next_decision = arg
                self._guarded(cb, self.make_response(a, kind, arg, cls))     # Connection.process_msg logs and goes on
                return True
            if k == 'fire':
                if op[1] not in self.due_timers():
                    return False
                t = self.timers[op[1]]
                t.fired = True
                self._guarded(t.callback)        # TimerManager.service_timeouts logs and goes on
                return True
            if k == 'run':
                if not (0 <= op[1] < len(self.queue)):
                    return False
                fn, a, kw = self.queue.pop(op[1])
                self._guarded(fn, *a, **kw)      # the exception would stay in the executor's Future
                return True
            if k == 'presp':
                a, pk = op[1], op[2]
                if a not in self.open_attempts() or not self.attempts[a]['prep']:
                    return False
                cb = self.take_callback(a)
                self._guarded(cb, self.make_prepare_answer(a, pk))
                return True
            if k == 'foreign':
                p = self.session._pools.get(self.host(op[1]))
                if p is None or not p.conn.request_ids:
                    return False
                conn = p.conn
                for _ in range(len(conn.request_ids) - 1):      # requests that are answered at once: ids go round
                    conn.request_ids.append(conn.request_ids.popleft())
                rid = conn.request_ids.popleft()
                cb = object()
                conn._requests[rid] = (cb, None, None)
                conn.foreign[rid] = cb
                return True
            if k == 'shutdown':
                self.session.is_shutdown = True
                return True
            if k == 'refresh':
                if not (0 <= op[1] < len(self.refreshes)):
                    return False
                fn, a, kw = self.refreshes.pop(op[1])
                self._guarded(fn, *a, **kw)
                return True
            if k == 'ksreport':
                c, h, err = op[1], op[2], op[3]
                if not (0 <= c < len(self.chains)) or h not in self.chains[c]['waiting']:
                    return False
                ch = self.chains[c]
                pool = ch['waiting'].pop(h)
                ch['err'] = ch['err'] or bool(err)
                self._guarded(ch['cb'], pool, [cluster_mod().ConnectionException('USE failed on h%d' % h)] if err else [])
                return True
            if k == 'nextpage':
                if not self.has_paging():
                    try:
                        f.start_fetching_next_page()
                    except cluster_mod().QueryExhausted:
                        return False
                    raise AssertionError('QueryExhausted expected')
                self.next_plan = list(op[1])
                for p in self.pairs:
                    p['cb'], p['eb'] = [], []
                self.timed_out = False
                self.epoch_start = self.now
                f.start_fetching_next_page()
                return True
            if k == 'addcb':
                p = {'cb': [], 'eb': []}
                self.pairs.append(p)
                f.add_callbacks(lambda v, p=p: p['cb'].append(self.canon_val(v)),
                                lambda e, p=p: p['eb'].append(self.canon_exc(e)))
                return True
            if k == 'result':
                if not self.can_result():
                    return False
                try:
                    rs = f.result()
                    self.result_log.append((0, self.canon_val(rs._current_rows)))
                except Exception as e:
                    self.result_log.append((1, self.canon_exc(e)))
                return True
        raise ValueError('unknown op %r' % (op,))

    # ------------------------------------------------------------------ two calls on two real threads (detsched)
    def _body(self, op):
        """the call into the real class that `op` stands for, prepared on the main thread; None if disabled"""
        k = op[0]
        if k == 'resp':
            a, kind, arg, cls = op[1], op[2], op[3], op[4]
            if a not in self.open_attempts():
                return None
            cb = self.take_callback(a)
            if kind == 'retry':
                self.next_decision = arg
            resp = self.make_response(a, kind, arg, cls)
            return lambda: cb(resp)
        if k == 'fire':
            if op[1] not in self.due_timers():
                return None
            t = self.timers[op[1]]
            t.fired = True
            return t.callback
        if k == 'addcb':
            p = {'cb': [], 'eb': []}
            self.pairs.append(p)
            f = self.f
            return lambda: f.add_callbacks(lambda v, p=p: p['cb'].append(self.canon_val(v)),
                                           lambda e, p=p: p['eb'].append(self.canon_exc(e)))
        raise ValueError('only resp/fire/addcb can run concurrently: %r' % (op,))

    def step_concurrent(self, op_a, op_b, schedule):
        """op_a and op_b run on two threads, switched at the source lines of cassandra/cluster.py in the given order"""
        from vf import detsched
        bodies = [self._body(op_a), self._body(op_b)]
        if bodies[0] is None or bodies[1] is None:
            return None
        with self:
            r = detsched.Run(bodies, ['cassandra/cluster.py'], schedule).run()
        return r

    # ------------------------------------------------------------------ observation (compared with the model after every step)
    def observe(self):
        f = self.f
        cl = cluster_mod()
        fr = 0 if f._final_result is cl._NOT_SET else self.canon_val(f._final_result)
        fe = self.canon_exc(f._final_exception)
        cur_t = -1
        for k, t in enumerate(self.timers):
            if t is f._timer:
                cur_t = k
        o = [fr, fe, int(f._event.is_set()), f._query_retries, cur_t, len(self.timers)]
        for t in self.timers:
            o += [t.kind, t.due, int(t.canceled), int(t.fired)]
        o += [len(self.queue), len(self.attempts)]
        op = set(self.open_attempts())
        for a, at in enumerate(self.attempts):
            o += [at['host'], int(a in op), int(at['page'] != f._page_no), int(at['prep'])]
        o += [f._current_host.i if f._current_host is not None else -1,
              f._connection.host.i if f._connection is not None else -1,
              self.own_request_index(),
              int(bool(f._paging_state)), len(self.pairs)]
        for p in self.pairs:
            o += [len(p['cb']), len(p['eb']), p['cb'][-1] if p['cb'] else 0, p['eb'][-1] if p['eb'] else 0]
        last = self.result_log[-1] if self.result_log else (-1, 0)
        o += [len(self.result_log), last[0], last[1]]
        o += [len(self.swallowed), int(bool(self.session.is_shutdown)), len(self.refreshes), len(self.chains)]
        for ch in self.chains:
            hs = sorted(ch['waiting'])
            o += [len(hs), int(ch['err'])] + hs
        return o


def run_history(cfg, ops):
    """-> (world, [observation after init, after op1, ...], [enabled flags])"""
    w = World(cfg)
    obs = [w.observe()]
    en = []
    for op in ops:
        en.append(w.step(op))
        obs.append(w.observe())
    return w, obs, en
