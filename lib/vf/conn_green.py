"""The REAL EventletConnection / GeventConnection without a socket: handle_read / handle_write / close / push are the reactor's
own code running in REAL greenthreads (reader and writer); only the socket is an in-memory object whose recv()/sendall() follow
a script (bytes, EOF, an exception, or block until killed).  No monkey patching."""
import errno, socket, ssl
from vf.impl import import_cluster
import_cluster()
from cassandra.connection import Connection, ConnectionShutdown
from cassandra.protocol import QueryMessage
from vf.conn_impl import frame, body_for
from vf.conn_aio import ERRORS


def backend(kind):
    if kind == 'eventlet':
        import eventlet
        from eventlet.event import Event
        from eventlet.queue import Queue
        from cassandra.io.eventletreactor import EventletConnection as C
        return dict(C=C, spawn=eventlet.spawn, sleep=eventlet.sleep, Event=Event, Queue=Queue, wait=lambda e: e.wait(), kill=lambda g: g.kill())
    import gevent
    from gevent.event import Event
    from gevent.queue import Queue
    from cassandra.io.geventreactor import GeventConnection as C
    return dict(C=C, spawn=gevent.spawn, sleep=gevent.sleep, Event=Event, Queue=Queue, wait=lambda e: e.wait(), kill=lambda g: g.kill(block=False))


class MemSock(object):
    def __init__(self, g, be):
        self.g, self.be = g, be
        self.closed = False
        self.block = be['Event']()

    def recv(self, n):
        g = self.g
        while not g.recv_script:
            self.be['wait'](self.block)          # nothing to read: blocked in recv() until data arrives or the greenthread is killed
            self.block = self.be['Event']()
        x = g.recv_script.pop(0)
        if isinstance(x, BaseException):
            raise x
        return x

    def sendall(self, data):
        g = self.g
        g.sent += 1
        if g.send_script:
            x = g.send_script.pop(0)
            if isinstance(x, BaseException):
                raise x

    def close(self):
        self.closed = True

    def fileno(self):
        return 987655


class Green(object):
    def __init__(self, kind, n_requests=2, raising=()):
        be = self.be = backend(kind)
        cls = type('NoSock' + be['C'].__name__, (be['C'],), {})
        c = cls.__new__(cls)
        c.max_in_flight = 8
        Connection.__init__(c, host='127.0.0.1', protocol_version=4)
        c.uses_legacy_ssl_options = False
        c._write_queue = be['Queue']()
        self.recv_script, self.send_script, self.sent = [], [], 0
        c._socket = MemSock(self, be)
        self.conn = c
        self.counts, self.raising = {}, set(raising)
        c._read_watcher = be['spawn'](c.handle_read)
        c._write_watcher = be['spawn'](c.handle_write)
        self.step()
        for r in range(1, n_requests + 1):
            self.send(r)

    def step(self, n=4):
        for _ in range(n):
            self.be['sleep'](0)

    def cb(self, tok):
        def f(resp):
            c = self.counts.setdefault(tok, [0, 0, 0])
            if isinstance(resp, ConnectionShutdown):
                c[2] += 1
                if tok in self.raising:
                    raise RuntimeError('handler raises')
            elif isinstance(resp, Exception) and not hasattr(resp, 'to_exception'):
                c[1] += 1
            else:
                c[0] += 1
        return f

    def send(self, tok):
        c = self.conn
        with c.lock:
            c.in_flight += 1
            rid = c.get_request_id()
        try:
            c.send_msg(QueryMessage(query='SELECT 1', consistency_level=1), rid, self.cb(tok))
        except ConnectionShutdown:
            return 'refused'
        return rid

    def wake(self):
        b = self.conn._socket.block
        b.send() if hasattr(b, 'send') else b.set()

    def finish(self):
        for w in (self.conn._read_watcher, self.conn._write_watcher):
            try:
                self.be['kill'](w)
            except BaseException:
                pass
        self.step(2)


def scenario(kind, name, arg, n_requests, raising):
    g = Green(kind, n_requests, raising)
    c = g.conn
    if name == 'send_error':
        # the WRITER greenthread notices the failure first; the reader is still blocked in recv()
        g.send_script = [ERRORS[arg]()]
        g.step()
        if g.sent == 0:              # nothing queued (no request): write something so that sendall runs
            c.push(b'x')
            g.step()
    elif name == 'recv_error':
        g.step()                     # let the writer drain its queue first
        g.recv_script = [ERRORS[arg]()]
        g.wake()
        g.step()
    elif name == 'eof':
        g.step()
        g.recv_script = [b'']
        g.wake()
        g.step()
    elif name == 'close':
        g.step()
        c.close()
        g.step()
    elif name == 'defunct':
        g.step()
        c.defunct(Exception('heartbeat failure'))
        g.step()
    elif name == 'decode_error_frame':
        g.step()
        op, body = body_for('DFail')
        rid = sorted(c._requests)[0]
        g.recv_script = [frame(rid, op, body)]
        g.wake()
        g.step()
    return g


SCENARIOS = ([('send_error', e) for e in ('EPIPE', 'ETIMEDOUT', 'EHOSTUNREACH', 'ECONNRESET')] +
             [('recv_error', e) for e in ('ECONNRESET', 'ETIMEDOUT')] +
             [('eof', None), ('close', None), ('defunct', None), ('decode_error_frame', None)])


def main(argv):
    """python -m vf.conn_green <kind> [name arg n raising-json]: runs the scenarios in THIS process (own hub), prints JSON"""
    import json, sys, faulthandler
    faulthandler.dump_traceback_later(90, exit=True)
    kind = argv[0]
    todo = []
    if len(argv) > 1:
        todo = [(argv[1], None if argv[2] == '-' else argv[2], int(argv[3]), tuple(json.loads(argv[4])))]
    else:
        for name, arg in SCENARIOS:
            for n in (1, 3):
                for raising in (((), (1,), (2, 3)) if n == 3 else ((),)):
                    todo.append((name, arg, n, raising))
    out = []
    for name, arg, n, raising in todo:
        rec = {'kind': kind, 'name': name, 'arg': arg, 'n': n, 'raising': list(raising)}
        try:
            g = scenario(kind, name, arg, n, raising)
            c = g.conn
            rec.update(defunct=bool(c.is_defunct), closed=bool(c.is_closed), sock_closed=bool(c._socket.closed),
                       registered=sorted(c._requests), counts={str(k): v for k, v in g.counts.items()}, later_send=str(g.send(99)))
            g.finish()
        except BaseException as e:
            rec['error'] = repr(e)
        out.append(rec)
    sys.stdout.write('\nJSON:' + json.dumps(out) + '\n')


if __name__ == '__main__':
    import sys
    main(sys.argv[1:])
