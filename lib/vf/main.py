"""bin/check Cxx [--tier quick|thorough] [--replay file]"""
import argparse, importlib.util, json, os, sys, traceback
from . import core


def main():
    ap = argparse.ArgumentParser()
    ap.add_argument('pid')
    ap.add_argument('--tier', default=None)
    ap.add_argument('--replay', default=None)
    a = ap.parse_args()
    tier = os.environ.get('VERIF_TIER') or a.tier or 'quick'
    if tier not in ('quick', 'thorough'):
        tier = 'quick'
    try:
        seed = int(os.environ.get('VERIF_SEED', '1'))
    except ValueError:
        seed = 1
    path = os.path.join(core.VERIF, 'checks', a.pid + '.py')
    if not os.path.exists(path):
        print('no check for %s' % a.pid)
        return 2
    spec = importlib.util.spec_from_file_location('check_' + a.pid, path)
    mod = importlib.util.module_from_spec(spec)
    sys.path.insert(0, os.path.join(core.VERIF, 'checks'))
    spec.loader.exec_module(mod)
    # runs against a tree other than /repo regenerate coq/Gen from that tree: keep them apart from normal runs
    import fcntl
    lockf = open(os.path.join(core.VERIF, '.repo.lock'), 'w')
    fcntl.flock(lockf, fcntl.LOCK_EX if os.path.realpath(core.REPO) != '/repo' else fcntl.LOCK_SH)
    ctx = core.Ctx(a.pid, tier, seed, replay=a.replay)
    try:
        if a.replay:
            with open(a.replay) as f:
                rp = json.load(f)
            if not hasattr(mod, 'replay'):
                print('replay not supported for %s' % a.pid)
                return 2
            try:
                return mod.replay(ctx, rp)
            finally:
                import shutil
                shutil.rmtree(ctx.scratch, ignore_errors=True)
        mod.run(ctx)
    except Exception:
        # a crash of the machinery is not a verdict about the driver: report it loudly, fail the run
        traceback.print_exc()
        ctx.proof_broken.append(('harness-error', traceback.format_exc()[-1500:]))
    return ctx.finish()


if __name__ == '__main__':
    sys.exit(main())
