"""Translation validation of the T-marshal layer (DESIGN 2.2: "the generated Gallina is also run against the Python
function on generated inputs -- translation validation by testing, covering the translator's own bugs").

    gen(ctx)        regenerate Gen/MarshalGen.v, SegmentConsts.v, SegmentGen.v, UtilTimeConsts.v, UtilTimeGen.v
    build(ctx)      build the .vo files the validation (and the T-layer proofs, with proofs=True) needs
    validate(ctx)   run the REAL functions of cassandra/marshal.py, segment.py, util.py on boundary pools and random inputs,
                    evaluate the generated Gallina (and the independent specs / hand models next to it) inside coqc
                    through ctx.coq_filter, report every difference with ctx.disagreement.

Property checks (C01/C02: marshal; C06: segment; C34: time) call gen(ctx) from their own gen() and validate(ctx, parts=...)
from run().  Nothing here calls ctx.case (the evaluated-case statistics belong to the calling property); the input
distribution is recorded with ctx.count('t_marshal', kind).

Pools: 0, +-1, +-127, +-128, +-2^15, +-2^31, +-2^63, 2^64-1, 2^64, every 2^k and 2^k +- 1 around byte / 7-bit
boundaries, random magnitudes up to 2^4096; lists of int64 for vints; random 3/5-byte headers for crc24.
"""
import io
from . import py2coq, core
from .specs import marshal as marshal_spec, segment_crc, util_time

REQUIRES = {
    'marshal': ['PyBase', 'JavaBigInteger', 'VIntCoding', 'MarshalGen'],
    'segment': ['PyBase', 'SegmentConsts', 'SegmentGen', 'Crc24'],
    'time': ['PyBase', 'UtilTimeConsts', 'UtilTimeGen', 'UuidFields'],
}
VO = {
    'marshal': ['Gen/MarshalGen.vo', 'Model/JavaBigInteger.vo', 'Model/VIntCoding.vo'],
    'segment': ['Gen/SegmentConsts.vo', 'Gen/SegmentGen.vo', 'Model/Crc24.vo'],
    'time': ['Gen/UtilTimeConsts.vo', 'Gen/UtilTimeGen.vo', 'Model/UuidFields.vo'],
}
PROOFS = ['Proofs/MarshalGen_proofs.vo', 'Proofs/MarshalBridge.vo', 'Proofs/SegmentCrc_proofs.vo',
          'Proofs/UtilTime_proofs.vo']

PRELUDE = '''
Definition res_l (r : res (list Z)) (e : option (list Z)) : bool :=
  match r, e with Ok a, Some b => py_list_eqb a b | Raise, None => true | _, _ => false end.
Definition res_z (r : res Z) (e : option Z) : bool :=
  match r, e with Ok a, Some b => a =? b | Raise, None => true | _, _ => false end.
Definition res_zz (r : res (Z * Z)) (e : option (Z * Z)) : bool :=
  match r, e with Ok (a, b), Some (c, d) => (a =? c) && (b =? d) | Raise, None => true | _, _ => false end.
Definition opt_l (r : option (list Z)) (e : option (list Z)) : bool :=
  match r, e with Some a, Some b => py_list_eqb a b | None, None => true | _, _ => false end.
Definition opt_z (r : option Z) (e : option Z) : bool :=
  match r, e with Some a, Some b => a =? b | None, None => true | _, _ => false end.
Definition opt_zz (r : option (Z * Z)) (e : option (Z * Z)) : bool :=
  match r, e with Some (a, b), Some (c, d) => (a =? c) && (b =? d) | None, None => true | _, _ => false end.
'''
PRELUDE_SEGMENT = '''
Definition trace_bytes (r : res (list (Z * Z))) : option (list Z) :=
  match r with Ok t => Some (List.concat (map write_uint_le_model t)) | _ => None end.
Definition opt_l (r : option (list Z)) (e : option (list Z)) : bool :=
  match r, e with Some a, Some b => py_list_eqb a b | None, None => true | _, _ => false end.
Definition res_hdr (r : res (Z * Z * bool)) (e : option (Z * Z * bool)) : bool :=
  match r, e with
  | Ok (a, b, c), Some (a', b', c') => (a =? a') && (b =? b') && Bool.eqb c c'
  | Raise, None => true
  | _, _ => false
  end.
'''
PRELUDE_TIME = '''
Definition res_uz (r : res (unit * Z)) (e : option Z) : bool :=
  match r, e with Ok (_, a), Some b => a =? b | Raise, None => true | _, _ => false end.
Definition fields_eqb (a b : uuid_fields) : bool :=
  let '(a1, a2, a3, a4, a5, a6) := a in let '(b1, b2, b3, b4, b5, b6) := b in
  (a1 =? b1) && (a2 =? b2) && (a3 =? b3) && (a4 =? b4) && (a5 =? b5) && (a6 =? b6).
Definition uuid_case (node cs iv : Z) (e : option (uuid_fields * Z * Z)) : bool :=
  match uuid_from_time_tail node cs iv, e with
  | Ok (f, v), Some (f', i', t') =>
      match py_uuid_int f v with
      | Some i => fields_eqb (let '(tl, tm, thv, csh, csl, nd) := f in (tl, tm, thv + v * 4096, csh, csl, nd)) f' && (i =? i') && (py_uuid_time i =? t')
      | None => false
      end
  | Raise, None => true
  | _, _ => false
  end.
'''


# ----------------------------------------------------------------------------- generation / build
def gen(ctx, parts=('marshal', 'segment', 'time')):
    ok = True
    if 'marshal' in parts:
        ok &= ctx.generate('MarshalGen.v', lambda: py2coq.Translator(core.REPO, marshal_spec.fns()).emit())
    if 'segment' in parts:
        ok &= ctx.generate('SegmentConsts.v', lambda: py2coq.emit_consts(core.REPO, segment_crc.consts()))
        ok &= ctx.generate('SegmentGen.v', lambda: py2coq.Translator(core.REPO, segment_crc.fns()).emit())
    if 'time' in parts:
        ok &= ctx.generate('UtilTimeConsts.v', lambda: py2coq.emit_consts(core.REPO, util_time.consts()))
        ok &= ctx.generate('UtilTimeGen.v', lambda: py2coq.Translator(core.REPO, util_time.fns()).emit())
    return bool(ok)


def build(ctx, parts=('marshal', 'segment', 'time'), proofs=False, timeout=2400):
    """make the .vo files needed; a failure is a broken obligation (the proofs are about the regenerated code)."""
    targets = [t for p in parts for t in VO[p]] + (PROOFS if proofs else [])
    with core.BuildLock():
        core.ensure_makefile()
        if proofs:
            deps = []
            for t in PROOFS:
                for d in core.coq_deps(t[:-1]):
                    if d not in deps:
                        deps.append(d)
            bad = core.scan_forbidden(deps)
            if bad:
                ctx.proof_broken.append(('forbidden-vernacular', '; '.join(bad[:5])))
                return False
        try:
            rc, out = core.sh(['timeout', str(timeout), 'make', '-C', core.COQ, '-j%d' % core.JOBS] + targets,
                              timeout=timeout + 30)
        except Exception as e:   # subprocess.TimeoutExpired
            rc, out = 124, 'make timed out: %s' % e
    ctx.checker_cmds.append('make -C coq %s' % ' '.join(targets))
    if rc != 0:
        import re
        m = re.search(r'File "([^"]+)", line (\d+)[\s\S]{0,1500}', out)
        ctx.proof_broken.append((m.group(1) if m else 'T-marshal build', (m.group(0) if m else out[-1500:])[:1500]))
        return False
    ctx.extra.setdefault('t_marshal', {})['built'] = targets
    return True


# ----------------------------------------------------------------------------- literals
def zl(v):
    return '(%d)' % v if v < 0 else '%d' % v


def bl(b):
    return '[' + '; '.join(zl(int(x)) for x in b) + ']'


def ob(b):
    return 'None' if b is None else '(Some %s)' % bl(b)


def oz(v):
    return 'None' if v is None else '(Some %s)' % zl(v)


def ozz(v):
    return 'None' if v is None else '(Some (%s, %s))' % (zl(v[0]), zl(v[1]))


def cb(b):
    return 'true' if b else 'false'


def attempt(f, *a):
    """(value, None) or (None, exception class name)."""
    try:
        return f(*a), None
    except Exception as e:      # the Python function raised: Raise in the translation
        return None, type(e).__name__


# ----------------------------------------------------------------------------- pools
def int_pool(rng, tier):
    base = [0, 1, -1, 127, -127, 128, -128, 129, -129, 255, 256, -255, -256, -257, 2**15, -2**15, 2**15 - 1, -2**15 - 1,
            2**31, -2**31, 2**31 - 1, -2**31 - 1, 2**63, -2**63, 2**63 - 1, -2**63 - 1, 2**64 - 1, 2**64, 2**64 + 1, -2**64]
    for k in list(range(6, 73)) + [127, 128, 255, 256, 1023, 1024]:
        base += [2**k, 2**k - 1, 2**k + 1, -2**k, -2**k - 1, -2**k + 1]
    n = 60 if tier == 'quick' else 400
    for _ in range(n):
        bits = rng.choice([3, 7, 8, 9, 14, 15, 16, 31, 32, 33, 56, 57, 63, 64, 65, 100, 500, 2000, 4096])
        v = rng.getrandbits(bits)
        base.append(v if rng.random() < 0.5 else -v)
    seen, out = set(), []
    for v in base:
        if v not in seen:
            seen.add(v)
            out.append(v)
    return out


def int64_pool(rng, tier):
    base = [0, 1, -1, 63, 64, -64, -65, 8191, 8192, -8192, -8193, 2**31, -2**31, 2**62, -2**62, 2**63 - 1, -2**63]
    for k in range(1, 10):
        base += [2**(7 * k - 1) - 1, 2**(7 * k - 1), -2**(7 * k - 1), -2**(7 * k - 1) - 1]
    base = [v for v in base if -2**63 <= v < 2**63]
    for _ in range(40 if tier == 'quick' else 300):
        base.append(rng.randrange(-2**rng.choice([6, 13, 20, 34, 48, 55, 62, 63]), 2**rng.choice([6, 13, 20, 34, 48, 55, 62, 63])))
    return base


# ----------------------------------------------------------------------------- marshal
def marshal_cases(ctx):
    from cassandra import marshal as M
    rng = ctx.rng
    cases, meta = [], []

    def add(kind, expr, info):
        cases.append(expr)
        meta.append((kind, info))
        ctx.count('t_marshal', kind)

    ints = int_pool(rng, ctx.tier)
    for z in ints:
        packed, exc = attempt(M.varint_pack, z)
        pb = None if exc else list(packed)
        back = None
        if pb is not None:
            back, e2 = attempt(M.varint_unpack, bytes(pb))
        add('varint', '(res_l (varint_pack %s) %s) && (py_list_eqb (java_toByteArray %s) %s) && (res_z (varint_unpack %s) %s) && (opt_z (java_fromByteArray %s) %s)'
            % (zl(z), ob(pb), zl(z), bl(pb or []), bl(pb or []), oz(back), bl(pb or []), oz(back)),
            {'fn': 'varint_pack/unpack', 'z': z, 'impl': pb, 'impl_back': back})
        add('zigzag', '(encode_zig_zag %s =? %s) && (decode_zig_zag %s =? %s) && (bit_length %s =? %s)'
            % (zl(z), zl(M.encode_zig_zag(z)), zl(z), zl(M.decode_zig_zag(z)), zl(z), zl(M.bit_length(z))),
            {'fn': 'zig_zag/bit_length', 'z': z})
        if -2**63 <= z < 2**63:
            enc = M.encode_zig_zag(z)
            add('zigzag-spec', '(zigzag_encode %s =? %s) && (zigzag_decode %s =? %s)'
                % (zl(z), zl(enc), zl(enc), zl(M.decode_zig_zag(enc))),
                {'fn': 'zigzag spec vs implementation', 'z': z, 'impl': [enc, M.decode_zig_zag(enc)]})
        up, exc = attempt(M.uvint_pack, z)
        ub = None if exc else list(up)
        add('uvint', '(res_l (uvint_pack %s) %s) && (opt_l (uvint_encode %s) %s)' % (zl(z), ob(ub), zl(z), ob(ub)),
            {'fn': 'uvint_pack', 'v': z, 'impl': ub, 'exc': exc})
        if ub is not None:
            tail = [rng.randrange(256) for _ in range(rng.randrange(0, 4))]
            r, exc = attempt(M.uvint_unpack, bytes(ub + tail))
            add('uvint-unpack', '(res_zz (uvint_unpack %s) %s) && (opt_zz (uvint_decode %s) %s)'
                % (bl(ub + tail), ozz(r), bl(ub + tail), ozz(r)), {'fn': 'uvint_unpack', 'bytes': ub + tail, 'impl': r})
    # decoders on arbitrary / truncated byte strings
    for _ in range(60 if ctx.tier == 'quick' else 400):
        n = rng.randrange(0, 12)
        bs = [rng.choice([0, 1, 0x7f, 0x80, 0xbf, 0xc0, 0xfe, 0xff, rng.randrange(256)]) for _ in range(n)]
        r, exc = attempt(M.varint_unpack, bytes(bs))
        add('varint-unpack-any', '(res_z (varint_unpack %s) %s) && (opt_z (java_fromByteArray %s) %s)' % (bl(bs), oz(r), bl(bs), oz(r)),
            {'fn': 'varint_unpack', 'bytes': bs, 'impl': r, 'exc': exc})
        r, exc = attempt(M.uvint_unpack, bytes(bs))
        add('uvint-unpack-any', '(res_zz (uvint_unpack %s) %s) && (opt_zz (uvint_decode %s) %s)' % (bl(bs), ozz(r), bl(bs), ozz(r)),
            {'fn': 'uvint_unpack', 'bytes': bs, 'impl': r, 'exc': exc})
        r, exc = attempt(M.vints_unpack, bytes(bs))
        add('vints-unpack-any', '(res_l (vints_unpack %s) %s) && (opt_l (vints_decode %s) %s)'
            % (bl(bs), ob(None if exc else list(r)), bl(bs), ob(None if exc else list(r))),
            {'fn': 'vints_unpack', 'bytes': bs, 'impl': None if exc else list(r), 'exc': exc})
    # vints lists
    p64 = int64_pool(rng, ctx.tier)
    lists = [[], [0], [-1], [2**63 - 1], [-2**63], p64[:12], p64[12:40]]
    for _ in range(40 if ctx.tier == 'quick' else 300):
        lists.append([rng.choice(p64) for _ in range(rng.randrange(0, 7))])
    for bad in (2**63, -2**63 - 1, 2**64, 2**100, -2**70):
        lists.append([1, bad])
        lists.append([bad, -5, 7])
    for vals in lists:
        r, exc = attempt(M.vints_pack, vals)
        pb = None if exc else list(r)
        e = '(res_l (vints_pack %s) %s) && (opt_l (vints_encode %s) %s)' % (bl(vals), ob(pb), bl(vals), ob(pb))
        if pb is not None:
            back, exc2 = attempt(M.vints_unpack, bytes(pb))
            e += ' && (res_l (vints_unpack %s) %s)' % (bl(pb), ob(None if exc2 else list(back)))
        add('vints', e, {'fn': 'vints_pack/unpack', 'values': vals, 'impl': pb, 'exc': exc})
    return cases, meta


# ----------------------------------------------------------------------------- segment
def segment_cases(ctx):
    from cassandra import segment as S
    rng = ctx.rng
    cases, meta = [], []

    def add(kind, expr, info):
        cases.append(expr)
        meta.append((kind, info))
        ctx.count('t_marshal', kind)

    datas = [(0, 3), (0, 5), (1, 3), (0xffffff, 3), (0xffffffffff, 5), (0x1ffff, 3), (1 << 17, 3), (1 << 34, 5), (-1, 3), (-2**40, 5),
             (12345, 0), (12345, -1), (2**64 + 5, 8)]
    for _ in range(60 if ctx.tier == 'quick' else 500):
        ln = rng.choice([3, 5, 3, 5, 1, 2, 4, 8])
        datas.append((rng.getrandbits(8 * ln), ln))
    for (d, ln) in datas:
        got = S.compute_crc24(d, ln)
        add('crc24', '(compute_crc24 %s %s =? %s) && (crc24_ref (le_bytes (Z.to_nat %s) %s) =? %s)' % (zl(d), zl(ln), zl(got), zl(ln), zl(d), zl(got)),
            {'fn': 'compute_crc24', 'data': d, 'length': ln, 'impl': got})
    # the constants of the native-protocol v5 specification (section 2.2; Cassandra's Crc.java), independent of the source
    add('crc24-consts', '(CRC24_INIT =? 8867936) && (CRC24_POLY =? 26693387) && (CRC24_LENGTH =? 3) && (MAX_PAYLOAD_LENGTH =? 131071)',
        {'fn': 'CRC24_INIT/CRC24_POLY', 'impl': [S.CRC24_INIT, S.CRC24_POLY], 'spec': [0x875060, 0x1974F0B]})
    ident = lambda b: b
    for comp in (False, True):
        codec = S.SegmentCodec(ident, ident) if comp else S.SegmentCodec()
        hl = codec.header_length
        add('header-length', '(header_length %s =? %d) && (header_length_with_crc %s =? %d)' % (cb(comp), hl, cb(comp), codec.header_length_with_crc),
            {'fn': 'header_length', 'compression': comp})
        pls = [0, 1, 2**17 - 1, 2**17, 2**17 + 1, 2**16, 12345] + [rng.randrange(0, 2**17) for _ in range(10 if ctx.tier == 'quick' else 80)]
        for pl in pls:
            for ul in (0, 1, 2**17 - 1, rng.randrange(0, 2**17)):
                for sc in (False, True):
                    buf = io.BytesIO()
                    _, exc = attempt(codec.encode_header, buf, pl, ul, sc)
                    out = None if exc else list(buf.getvalue())
                    e = '(opt_l (trace_bytes (encode_header %s %s %s %s %d)) %s)' % (zl(pl), zl(ul), cb(sc), cb(comp), hl, ob(out))
                    if out is not None:
                        hd = int.from_bytes(bytes(out[:hl]), 'little')
                        crc = int.from_bytes(bytes(out[hl:]), 'little')
                        for flip in (0, 1 << rng.randrange(24)):
                            rb = io.BytesIO(bytes(out[:hl]) + (crc ^ flip).to_bytes(3, 'little'))
                            h, exc2 = attempt(codec.decode_header, rb)
                            exp = 'None' if exc2 else '(Some (%s, %s, %s))' % (zl(h.payload_length), zl(h.uncompressed_payload_length), cb(h.is_self_contained))
                            e += ' && (res_hdr (decode_header %s %d %s %s) %s)' % (cb(comp), hl, zl(hd), zl(crc ^ flip), exp)
                            if not exc2:
                                e += ' && (segment_length %s %s =? %d)' % (zl(h.payload_length), zl(h.uncompressed_payload_length), h.segment_length)
                                # implementation-side oracle: a header written by encode_header reads back unchanged
                                want = (pl, ul if comp else -1, sc)
                                have = (h.payload_length, h.uncompressed_payload_length, h.is_self_contained)
                                if flip == 0 and ul <= S.Segment.MAX_PAYLOAD_LENGTH and have != want:
                                    ctx.disagreement('t-marshal.segment.header-roundtrip-oracle',
                                                     'decode_header(encode_header%r) = %r with compression=%s' % (want, have, comp),
                                                     case={'compression': comp, 'header': list(want)}, actual=list(have))
                            elif flip == 0:
                                ctx.disagreement('t-marshal.segment.header-roundtrip-oracle',
                                                 'decode_header rejects the header written by encode_header(%d, %d, %s): %s' % (pl, ul, sc, exc2),
                                                 case={'compression': comp, 'header': [pl, ul, sc]}, actual=exc2)
                    add('header', e, {'fn': 'encode_header/decode_header', 'compression': comp, 'payload_length': pl,
                                      'uncompressed_length': ul, 'self_contained': sc, 'impl': out, 'exc': exc})
    return cases, meta


# ----------------------------------------------------------------------------- time
def time_cases(ctx):
    from cassandra import util as U
    rng = ctx.rng
    cases, meta = [], []

    def add(kind, expr, info):
        cases.append(expr)
        meta.append((kind, info))
        ctx.count('t_marshal', kind)

    day = U.Time.DAY
    nts = [0, 1, 999, 1000, 10**9 - 1, 10**9, 60 * 10**9 - 1, 60 * 10**9, 3600 * 10**9 - 1, 3600 * 10**9, day - 1, day, day + 1, -1, -10**9, -day,
           86401 * 10**9]
    nts += [rng.randrange(0, day) for _ in range(60 if ctx.tier == 'quick' else 500)] + [rng.randrange(-2 * day, 3 * day) for _ in range(20)]
    for nt in nts:
        t = U.Time(0)
        t.nanosecond_time = nt
        add('time-fields', '(time_hour %s =? %s) && (time_minute %s =? %s) && (time_second %s =? %s) && (time_nanosecond %s =? %s)'
            % (zl(nt), zl(t.hour), zl(nt), zl(t.minute), zl(nt), zl(t.second), zl(nt), zl(t.nanosecond)), {'fn': 'Time fields', 'nt': nt})
        # implementation-side oracle (independent arithmetic): the fields recompose and are in range
        flds = (t.hour, t.minute, t.second, t.nanosecond)
        if (flds[0] * 3600 + flds[1] * 60 + flds[2]) * 10**9 + flds[3] != nt or not (0 <= flds[1] < 60 and 0 <= flds[2] < 60 and 0 <= flds[3] < 10**9):
            ctx.disagreement('t-marshal.time.fields-oracle', 'Time fields of %d ns are %r: they do not recompose / are out of range' % (nt, flds),
                             case={'nanosecond_time': nt}, actual=list(flds))
        r, exc = attempt(U.Time, nt)
        add('time-init', '(res_uz (time_from_timestamp %s 0) %s)' % (zl(nt), oz(None if exc else r.nanosecond_time)),
            {'fn': 'Time._from_timestamp', 't': nt, 'exc': exc})
    # uuid_from_time: the float prefix is re-run in Python exactly as in the source, the integer tail is compared
    secs = [0, 1, 1234567890, 1700000000, 2**31, 4102444800, 10**10, -1, -12219292800, 1e-6, 0.5, 1234567890.123456]
    secs += [rng.randrange(0, 2**33) for _ in range(20 if ctx.tier == 'quick' else 200)]
    nodes = [0, 1, 2**48 - 1, 0x808080808080, 0x7f7f7f7f7f7f, 2**48, -1]
    seqs = [0, 1, 0x80, 0x3f7f, 0x3fff, 0x4000, 2**20]
    for s in secs:
        microseconds = int(s * 1e6)
        iv = int(microseconds * 10) + 0x01b21dd213814000
        for (node, cs) in [(rng.choice(nodes), rng.choice(seqs)), (rng.randrange(2**48), rng.randrange(2**14)), (0x808080808080, 0x80), (0x7f7f7f7f7f7f, 0x3f7f)]:
            u, exc = attempt(U.uuid_from_time, s, node, cs)
            if exc and cs <= 0x3fff:
                # raised by uuid.UUID itself (field out of range): hand model must say None for the int
                add('uuid-reject', '(match uuid_from_time_tail %s %s %s with Ok (f, v) => match py_uuid_int f v with None => true | Some _ => false end | _ => false end)'
                    % (zl(node), zl(cs), zl(iv)), {'fn': 'uuid_from_time', 'seconds': s, 'node': node, 'clock_seq': cs, 'exc': exc})
                continue
            exp = 'None' if exc else '(Some ((%s), %s, %s))' % (', '.join(zl(x) for x in u.fields), zl(u.int), zl(u.time))
            add('uuid', '(uuid_case %s %s %s %s)' % (zl(node), zl(cs), zl(iv), exp),
                {'fn': 'uuid_from_time (tail)', 'seconds': s, 'node': node, 'clock_seq': cs, 'intervals': iv, 'exc': exc})
    return cases, meta


# ----------------------------------------------------------------------------- driver
def validate(ctx, parts=('marshal', 'segment', 'time'), do_build=True):
    """Returns {'cases': n, 'disagreements': k, 'by_part': {...}}; disagreements are reported via ctx.disagreement."""
    summary = {'cases': 0, 'disagreements': 0, 'by_part': {}}
    if any(x[0].startswith('translate:') for x in ctx.proof_broken):
        summary['skipped'] = 'translation failed closed'
        return summary
    if do_build and not build(ctx, parts):
        summary['skipped'] = 'build failed'
        return summary
    ctx.trust('translation validation of py2coq output against the real cassandra.marshal / segment / util functions '
              '(lib/vf/marshal_validation.py); hand models tied the same way: write_uint_le (little-endian bytes), '
              'uuid.UUID(fields, version).int/.time (Model/UuidFields.v)')
    makers = {'marshal': (marshal_cases, PRELUDE), 'segment': (segment_cases, PRELUDE_SEGMENT), 'time': (time_cases, PRELUDE + PRELUDE_TIME)}
    for part in parts:
        mk, prelude = makers[part]
        cases, meta = mk(ctx)
        summary['cases'] += len(cases)
        try:
            bad = ctx.coq_filter(REQUIRES[part], '(fun b : bool => b)', cases, shard=120, prelude=prelude)
        except RuntimeError as e:
            ctx.proof_broken.append(('correspondence:T-marshal:' + part, str(e)[-600:]))
            summary['by_part'][part] = 'coqc failed'
            continue
        summary['by_part'][part] = {'cases': len(cases), 'disagreements': len(bad)}
        summary['disagreements'] += len(bad)
        for i in bad[:10]:
            kind, info = meta[i]
            ctx.disagreement('t-marshal.%s.%s' % (part, kind),
                             'generated Gallina / spec / hand model differs from the implementation: %s %r' % (kind, {k: info[k] for k in list(info)[:4]}),
                             case=info, actual=info.get('impl'), model=cases[i][:400])
    ctx.extra.setdefault('t_marshal', {})['validation'] = summary
    return summary
