"""C04: run the REAL cassandra.protocol._ProtocolHandler.decode_message and canonicalise what it returns into the
term language of resp_spec (constructors of coq/Model/Response.v).  Canonicalisation is independent of the driver's
own tables: type classes are named by their CQL typename through the table below, error classes by class name."""
import logging, socket

from .resp_spec import some, opt

# CQL type name -> option id (native protocol spec 4.2.5.2)
TYPENAME_CODE = {'ascii': 1, 'bigint': 2, 'blob': 3, 'boolean': 4, 'counter': 5, 'decimal': 6, 'double': 7, 'float': 8,
                 'int': 9, 'text': 10, 'timestamp': 11, 'uuid': 12, 'varchar': 13, 'varint': 14, 'timeuuid': 15,
                 'inet': 16, 'date': 17, 'time': 18, 'smallint': 19, 'tinyint': 20, 'duration': 21}

ERRCLASS = {'ErrorMessage': 'CErrorMessage', 'ServerError': 'CServerError', 'ProtocolException': 'CProtocolException',
            'BadCredentials': 'CBadCredentials', 'UnavailableErrorMessage': 'CUnavailable',
            'OverloadedErrorMessage': 'COverloaded', 'IsBootstrappingErrorMessage': 'CIsBootstrapping',
            'TruncateError': 'CTruncateError', 'WriteTimeoutErrorMessage': 'CWriteTimeout',
            'ReadTimeoutErrorMessage': 'CReadTimeout', 'ReadFailureMessage': 'CReadFailure',
            'FunctionFailureMessage': 'CFunctionFailure', 'WriteFailureMessage': 'CWriteFailure',
            'CDCWriteException': 'CCDCWrite', 'SyntaxException': 'CSyntax', 'UnauthorizedErrorMessage': 'CUnauthorized',
            'InvalidRequestException': 'CInvalidRequest', 'ConfigurationException': 'CConfiguration',
            'AlreadyExistsException': 'CAlreadyExists', 'PreparedQueryNotFound': 'CPreparedQueryNotFound',
            'ClientWriteError': 'CClientWriteError'}


class Uncanonical(Exception):
    """the implementation returned something the model's message type cannot express"""


def _b(s):
    if isinstance(s, bytes):
        return s
    if isinstance(s, str):
        return s.encode('utf8')
    raise Uncanonical('not a string: %r' % (s,))


def _int(v):
    if isinstance(v, bool) or not isinstance(v, int):
        raise Uncanonical('not an int: %r' % (v,))
    return v


def addr_bytes(a):
    return socket.inet_pton(socket.AF_INET6 if ':' in a else socket.AF_INET, a)


def canon_type(t):
    from cassandra import cqltypes as ct
    if isinstance(t, type) and issubclass(t, ct.UserType):
        return ('TUdt', _b(t.keyspace), _b(t.typename),
                [('pair', _b(n), canon_type(s)) for n, s in zip(t.fieldnames, t.subtypes)])
    if isinstance(t, type) and issubclass(t, ct.TupleType):
        return ('TTuple', [canon_type(s) for s in t.subtypes])
    if isinstance(t, type) and issubclass(t, ct.ListType):
        return ('TList', canon_type(t.subtypes[0]))
    if isinstance(t, type) and issubclass(t, ct.SetType):
        return ('TSet', canon_type(t.subtypes[0]))
    if isinstance(t, type) and issubclass(t, ct.MapType):
        return ('TMap', canon_type(t.subtypes[0]), canon_type(t.subtypes[1]))
    if isinstance(t, type) and issubclass(t, ct._UnrecognizedType):
        return ('TCustom', _b(t.cassname))
    name = getattr(t, 'typename', None)
    if name in TYPENAME_CODE and not getattr(t, 'subtypes', ()):
        return ('TPrim', TYPENAME_CODE[name])
    raise Uncanonical('type %r' % (t,))


def driver_type(t):
    """term -> driver type class, only used to BUILD the result_metadata argument (pass-through data)"""
    from cassandra import cqltypes as ct
    from cassandra.protocol import ResultMessage
    k = t[0]
    if k == 'TPrim':
        return ResultMessage.type_codes[t[1]]
    if k == 'TCustom':
        return ct.lookup_casstype(t[1].decode('utf8'))
    if k == 'TList':
        return ct.ListType.apply_parameters((driver_type(t[1]),))
    if k == 'TSet':
        return ct.SetType.apply_parameters((driver_type(t[1]),))
    if k == 'TMap':
        return ct.MapType.apply_parameters((driver_type(t[1]), driver_type(t[2])))
    if k == 'TTuple':
        return ct.TupleType.apply_parameters(tuple(driver_type(x) for x in t[1]))
    if k == 'TUdt':
        return ct.UserType.make_udt_class(t[1].decode('utf8'), t[2].decode('utf8'),
                                          tuple(p[1].decode('utf8') for p in t[3]), tuple(driver_type(p[2]) for p in t[3]))
    raise ValueError(k)


def driver_result_metadata(rm):
    if rm is None:
        return None
    return [(c[1].decode('utf8'), c[2].decode('utf8'), c[3].decode('utf8'), driver_type(c[4])) for c in rm[1]]


def canon_cols(cols):
    if cols is None:
        return None
    return some([('mkcol', _b(c[0]), _b(c[1]), _b(c[2]), canon_type(c[3])) for c in cols])


def canon_schema(d):
    from cassandra import UserFunctionDescriptor, UserAggregateDescriptor
    d = dict(d)
    try:
        target, change, ks = d.pop('target_type'), d.pop('change_type'), d.pop('keyspace')
    except KeyError as e:
        raise Uncanonical('schema event without %s' % e)
    if not d:
        extra = ('SxNone',)
    elif len(d) == 1:
        (k, v), = d.items()
        if k == 'function' and isinstance(v, UserFunctionDescriptor):
            extra = ('SxFunction', _b(v.name), [_b(a) for a in v.argument_types])
        elif k == 'aggregate' and isinstance(v, UserAggregateDescriptor):
            extra = ('SxAggregate', _b(v.name), [_b(a) for a in v.argument_types])
        else:
            extra = ('SxName', _b(k), _b(v))
    else:
        raise Uncanonical('schema event keys %r' % sorted(d))
    return ('mksch', _b(target), _b(change), _b(ks), extra)


def canon_reasons(m):
    if m is None:
        return None
    return some([('pair', addr_bytes(a), _int(c)) for a, c in m.items()])


def canon_einfo(clsname, info):
    if info is None:
        return ('EiNone',)
    if isinstance(info, bytes):
        return ('EiUnprepared', info)
    if not isinstance(info, dict):
        raise Uncanonical('error info %r' % (info,))
    i = info
    try:
        if clsname == 'UnavailableErrorMessage':
            return ('EiUnavailable', _int(i['consistency']), _int(i['required_replicas']), _int(i['alive_replicas']))
        if clsname == 'WriteTimeoutErrorMessage':
            return ('EiWriteTimeout', _int(i['consistency']), _int(i['received_responses']), _int(i['required_responses']),
                    _int(i['write_type']), opt(i.get('contentions')))
        if clsname == 'ReadTimeoutErrorMessage':
            return ('EiReadTimeout', _int(i['consistency']), _int(i['received_responses']), _int(i['required_responses']),
                    bool(i['data_retrieved']))
        if clsname == 'ReadFailureMessage':
            return ('EiReadFailure', _int(i['consistency']), _int(i['received_responses']), _int(i['required_responses']),
                    _int(i['failures']), canon_reasons(i['error_code_map']), bool(i['data_retrieved']))
        if clsname == 'WriteFailureMessage':
            return ('EiWriteFailure', _int(i['consistency']), _int(i['received_responses']), _int(i['required_responses']),
                    _int(i['failures']), canon_reasons(i['error_code_map']), _int(i['write_type']))
        if clsname == 'FunctionFailureMessage':
            return ('EiFunctionFailure', _b(i['keyspace']), _b(i['function']), [_b(a) for a in i['arg_types']])
        if clsname == 'AlreadyExistsException':
            return ('EiAlreadyExists', _b(i['keyspace']), _b(i['table']))
        if set(i) == {'consistency', 'received_responses', 'required_responses'}:
            return ('EiCasWriteUnknown', _int(i['consistency']), _int(i['received_responses']), _int(i['required_responses']))
    except KeyError as e:
        raise Uncanonical('error info of %s lacks %s' % (clsname, e))
    raise Uncanonical('error info %r for %s' % (info, clsname))


def canon_msg(msg):
    from cassandra import protocol as P
    trace = getattr(msg, 'trace_id', None)
    warnings = msg.warnings
    payload = msg.custom_payload
    head = (_int(msg.stream_id),
            None if trace is None else some(trace.bytes),
            None if warnings is None else some([_b(w) for w in warnings]),
            None if payload is None else some([('pair', _b(k), opt(v)) for k, v in payload.items()]))
    if isinstance(msg, P.ErrorMessage):
        name = type(msg).__name__
        body = ('BError', (ERRCLASS.get(name, 'CErrorMessage'),), _int(msg.code), _b(msg.message), canon_einfo(name, msg.info))
    elif isinstance(msg, P.ReadyMessage):
        body = ('BReady',)
    elif isinstance(msg, P.AuthenticateMessage):
        body = ('BAuthenticate', _b(msg.authenticator))
    elif isinstance(msg, P.SupportedMessage):
        body = ('BSupported', [_b(v) for v in msg.cql_versions],
                [('pair', _b(k), [_b(x) for x in v]) for k, v in msg.options.items()])
    elif isinstance(msg, P.ResultMessage):
        rows = msg.parsed_rows
        if rows is not None:
            rows = [[opt(c if c is None or isinstance(c, bytes) else _b(c)) for c in row] for row in rows]
        body = ('BResult', ('mkr', _int(msg.kind), opt(msg.paging_state), opt(msg.continuous_paging_seq),
                            opt(msg.continuous_paging_last), opt(getattr(msg, 'result_metadata_id', None)),
                            canon_cols(msg.column_metadata),
                            None if msg.column_names is None else some([_b(n) for n in msg.column_names]),
                            None if msg.column_types is None else some([canon_type(t) for t in msg.column_types]),
                            None if rows is None else some(rows),
                            opt(None if msg.new_keyspace is None else _b(msg.new_keyspace)),
                            opt(msg.query_id), canon_cols(msg.bind_metadata),
                            None if msg.pk_indexes is None else some([_int(i) for i in msg.pk_indexes]),
                            None if msg.schema_change_event is None else some(canon_schema(msg.schema_change_event))))
    elif isinstance(msg, P.EventMessage):
        a = msg.event_args
        if msg.event_type == 'SCHEMA_CHANGE':
            args = ('EaSchema', canon_schema(a))
        else:
            args = ('EaNode', _b(a['change_type']), addr_bytes(a['address'][0]), _int(a['address'][1]))
        body = ('BEvent', _b(msg.event_type), args)
    elif isinstance(msg, P.AuthChallengeMessage):
        body = ('BAuthChallenge', _b(msg.challenge))
    elif isinstance(msg, P.AuthSuccessMessage):
        if msg.token is None:
            raise Uncanonical('AuthSuccess token None')
        body = ('BAuthSuccess', _b(msg.token))
    else:
        raise Uncanonical('message class %s' % type(msg).__name__)
    return ('mkmsg',) + head + (body,)


def canon_exn(msg, exc, server_message):
    """the exception to_exception() produced.  The server's message text must survive in the exception's text where
    the documented exception carries a message (all but AlreadyExists, whose text is generated from its fields)."""
    import cassandra as C
    name = type(exc).__name__
    text_ok = server_message.decode('utf8', 'replace') in str(exc)
    lost = b'<server message lost>'

    def rs(m):
        return canon_reasons(m)
    if exc is msg:
        cm = canon_msg(msg)[5]
        return ('XMessage',) + cm[1:]
    if isinstance(exc, C.Unavailable) and type(exc) is C.Unavailable:
        t = ('XUnavailable', _int(exc.consistency), _int(exc.required_replicas), _int(exc.alive_replicas))
    elif type(exc) is C.WriteTimeout:
        t = ('XWriteTimeout', _int(exc.consistency), _int(exc.received_responses), _int(exc.required_responses), _int(exc.write_type))
    elif type(exc) is C.ReadTimeout:
        t = ('XReadTimeout', _int(exc.consistency), _int(exc.received_responses), _int(exc.required_responses), bool(exc.data_retrieved))
    elif type(exc) is C.ReadFailure:
        t = ('XReadFailure', _int(exc.consistency), _int(exc.received_responses), _int(exc.required_responses), _int(exc.failures),
             rs(exc.error_code_map), bool(exc.data_retrieved))
    elif type(exc) is C.WriteFailure:
        t = ('XWriteFailure', _int(exc.consistency), _int(exc.received_responses), _int(exc.required_responses), _int(exc.failures),
             rs(exc.error_code_map), _int(exc.write_type))
    elif type(exc) is C.FunctionFailure:
        t = ('XFunctionFailure', _b(exc.keyspace), _b(exc.function), [_b(a) for a in exc.arg_types])
    elif type(exc) is C.AlreadyExists:
        return ('XAlreadyExists', _b(exc.keyspace), _b(exc.table))
    elif type(exc) is C.InvalidRequest:
        return ('XInvalidRequest', server_message if text_ok else lost)
    elif type(exc) is C.Unauthorized:
        return ('XUnauthorized', server_message if text_ok else lost)
    else:
        raise Uncanonical('exception class %s' % name)
    if not text_ok:
        raise Uncanonical('server message text missing from %s: %r' % (name, str(exc)))
    return t


class RawType(object):
    """cells stay the raw [bytes] the server sent: value decoding is property C01"""
    @staticmethod
    def from_binary(b, protocol_version):
        return b


class RawPolicy(object):
    def contains_column(self, col_desc):
        return True

    def column_type(self, col_desc):
        return RawType

    def decrypt(self, col_desc, val):
        return val


_handlers = {}


def handlers():
    if not _handlers:
        from cassandra.protocol import _ProtocolHandler
        logging.getLogger('cassandra.protocol').disabled = True
        logging.getLogger('cassandra.cqltypes').disabled = True

        class RawHandler(_ProtocolHandler):
            column_encryption_policy = RawPolicy()
        _handlers['plain'] = _ProtocolHandler
        _handlers['raw'] = RawHandler
    return _handlers


def decode(pv, rm_term, stream, flags, opcode, body, raw=True):
    """-> ('ok', msg object) | ('raise', exception)"""
    h = handlers()['raw' if raw else 'plain']
    try:
        rm = driver_result_metadata(rm_term)
        return 'ok', h.decode_message(pv, {}, stream, flags, opcode, bytes(body), None, rm)
    except Exception as e:        # any exception = the frame is rejected
        return 'raise', e
