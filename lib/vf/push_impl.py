"""C11 harness: real AsyncioConnection.push/_push_msg/handle_write and TwistedConnection.push on a local socketpair.

asyncio : a subclass that skips only socket creation (its _socket is one end of socket.socketpair(), non-blocking); the
          real class-level loop thread is started by the real initialize_reactor(); handle_write is the real coroutine.
twisted : the real global reactor runs in a thread; `transport` is a minimal object whose write() does a blocking
          sendall on one end of a socketpair (TwistedConnection.push is `reactor.callFromThread(self.transport.write, data)`).
N threads push tagged messages; a reader collects what arrives at the peer end.
Everything started here is stopped by shutdown().
"""
import asyncio, socket, threading, time

_state = {'asyncio_cls': None, 'twisted_started': False, 'twisted_thread': None}


def _asyncio_class():
    if _state['asyncio_cls'] is None:
        from cassandra.io.asyncioreactor import AsyncioConnection
        from cassandra.connection import Connection

        class PushAsyncio(AsyncioConnection):
            def __init__(self, sock, out_buffer_size):
                Connection.__init__(self, 'verif-host')
                self.out_buffer_size = out_buffer_size
                self._socket = sock
                self._socket.setblocking(0)
                # as in AsyncioConnection.__init__ (minus _connect_socket, handle_read and the OPTIONS message)
                self._write_queue = asyncio.Queue()
                self._write_queue_lock = asyncio.Lock()
                self._read_watcher = None
                self._write_watcher = asyncio.run_coroutine_threadsafe(self.handle_write(), loop=self._loop)
        PushAsyncio.initialize_reactor()
        _state['asyncio_cls'] = PushAsyncio
    return _state['asyncio_cls']


class PartialSock(socket.socket):
    """a real socket whose send() accepts only part of the data, following a scripted pattern (0 = EAGAIN, None = all):
    what a kernel send buffer under back-pressure does.  loop.sock_sendall and any direct send() go through it."""
    pattern = (None,)
    pos = 0
    log = None

    def send(self, data, *a):
        k = self.pattern[self.pos % len(self.pattern)]
        self.pos += 1
        if self.log is None:
            self.log = []
        if k == 0:
            self.log.append(0)
            raise BlockingIOError(11, 'verif: send buffer full')
        n = socket.socket.send(self, bytes(data[:k]) if k is not None else data, *a)
        self.log.append(n)
        return n


def partial_socket(sock, pattern):
    ps = PartialSock(sock.family, sock.type, sock.proto, fileno=sock.detach())
    ps.pattern = tuple(pattern)
    ps.log = []
    return ps


class _SockTransport(object):
    def __init__(self, sock):
        self.sock = sock
        self.connector = self

    def write(self, data):
        self.sock.sendall(data)

    def disconnect(self):
        pass


def _twisted_conn(sock):
    from cassandra.io import twistedreactor as T
    from cassandra.connection import Connection
    from twisted.internet import reactor
    if not _state['twisted_started']:
        th = threading.Thread(target=lambda: reactor.run(installSignalHandlers=False), name='verif-twisted', daemon=True)
        th.start()
        _state['twisted_started'] = True
        _state['twisted_thread'] = th
        for _ in range(200):
            if reactor.running:
                break
            time.sleep(0.01)

    class PushTwisted(T.TwistedConnection):
        def __init__(self, sock):
            Connection.__init__(self, 'verif-host')
            self.is_closed = False
            self.connector = None
            self.transport = _SockTransport(sock)
    return PushTwisted(sock)


def run_pushes(reactor_kind, progs, out_buffer_size=4096, timeout=5.0, switch=1e-5, partial=None, log=None):
    """progs: list (one per thread) of lists of bytes.  Returns (received bytes, errors) after all threads pushed and the
    expected number of bytes arrived (or `timeout` s of silence)."""
    import sys
    a, b = socket.socketpair()
    b.settimeout(0.05)
    errors = []
    if reactor_kind == 'asyncio':
        if partial:
            a = partial_socket(a, partial)
        conn = _asyncio_class()(a, out_buffer_size)
    else:
        conn = _twisted_conn(a)
    total = sum(len(m) for p in progs for m in p)
    got = bytearray()
    start = threading.Barrier(len(progs) + 1)

    def worker(p):
        start.wait()
        for m in p:
            try:
                conn.push(m)
            except Exception as e:           # push() itself raised in the caller
                errors.append('%s: %s' % (type(e).__name__, e))
    ths = [threading.Thread(target=worker, args=(p,)) for p in progs]
    old = sys.getswitchinterval()
    sys.setswitchinterval(switch)
    try:
        for t in ths:
            t.start()
        start.wait()
        deadline = time.time() + timeout
        while len(got) < total and time.time() < deadline:
            try:
                d = b.recv(1 << 16)
            except socket.timeout:
                continue
            if not d:
                break
            got += d
            deadline = time.time() + timeout
        for t in ths:
            t.join()
        # anything beyond the expected total (duplicates)?
        b.settimeout(0.05)
        try:
            d = b.recv(1 << 16)
            if d:
                got += d
        except socket.timeout:
            pass
    finally:
        sys.setswitchinterval(old)
        if log is not None and partial:
            log.extend(a.log or [])
        if reactor_kind == 'asyncio':
            w = conn._write_watcher
            if w is not None:
                w.cancel()
        try:
            a.close()
        finally:
            b.close()
    return bytes(got), errors


def _read_all(b, total, timeout):
    got = bytearray()
    b.settimeout(0.05)
    deadline = time.time() + timeout
    while len(got) < total and time.time() < deadline:
        try:
            d = b.recv(1 << 16)
        except socket.timeout:
            continue
        if not d:
            break
        got += d
        deadline = time.time() + timeout
    try:
        d = b.recv(1 << 16)
        if d:
            got += d
    except socket.timeout:
        pass
    return bytes(got)


def run_asyncio_loop_pushes(app_msgs, loop_msgs, out_buffer_size, timeout=3.0):
    """asyncio: an application thread pushes app_msgs[0], response-callback style pushes are made ON the loop thread
    (loop_msgs = [(bytes, depth)]: pushed `depth` loop iterations after the iteration that first sees the application
    push), then the application thread pushes the rest of app_msgs.  The loop is held while everything is scheduled, so
    the relative order in its ready queue is deterministic.  Returns the bytes received by the peer."""
    a, b = socket.socketpair()
    try:
        conn = _asyncio_class()(a, out_buffer_size)
        loop = conn._loop
        gate = threading.Event()
        loop.call_soon_threadsafe(gate.wait, 5)

        def deferred(m, d):
            def f():
                if d == 0:
                    conn.push(m)            # on the loop thread: the `else` branch of AsyncioConnection.push
                else:
                    loop.call_soon(deferred(m, d - 1))
            return f
        if app_msgs:
            conn.push(app_msgs[0])
        for m, d in loop_msgs:
            loop.call_soon_threadsafe(deferred(m, d))
        for m in app_msgs[1:]:
            conn.push(m)
        gate.set()
        total = sum(len(m) for m in app_msgs) + sum(len(m) for m, _ in loop_msgs)
        got = _read_all(b, total, timeout)
        conn._write_watcher.cancel()
        return got
    finally:
        a.close()
        b.close()


def run_twisted_read_pushes(m1, m2, m3, timeout=3.0):
    """twisted: thread A pushes m1 while the reactor is busy and has handle_read() for this connection queued BEFORE it;
    the reactor then decodes a real RESULT frame inside handle_read()/process_msg and runs the request's callback, which
    pushes m3 (as handshake/retry callbacks do) and waits; meanwhile thread A pushes m2; the callback is released.
    Program order: thread 0 = [m1, m2], thread 1 (reactor) = [m3].  Returns the bytes received by the peer."""
    import struct
    from twisted.internet import reactor
    from cassandra.protocol import ProtocolHandler
    a, b = socket.socketpair()
    try:
        conn = _twisted_conn(a)
        e1, inside, e2 = threading.Event(), threading.Event(), threading.Event()

        def cb(response):
            if m3 is not None:
                conn.push(m3)
            inside.set()
            e2.wait(5)
        conn._requests[5] = (cb, ProtocolHandler.decode_message, None)
        reactor.callFromThread(e1.wait, 5)                       # the reactor is busy
        conn._iobuf.write(struct.pack('>BBhBi', 0x84, 0, 5, 0x08, 4) + struct.pack('>i', 1))   # RESULT void on stream 5
        reactor.callFromThread(conn.handle_read)
        conn.push(m1)
        e1.set()
        ok = inside.wait(5)
        conn.push(m2)
        e2.set()
        total = len(m1) + len(m2) + (len(m3) if m3 else 0)
        got = _read_all(b, total, timeout)
        return got, ok
    finally:
        a.close()
        b.close()


def shutdown():
    cls = _state['asyncio_cls']
    if cls is not None:
        loop, th = cls._loop, cls._loop_thread
        if loop is not None and th is not None and th.is_alive():
            async def _drain():
                ts = [t for t in asyncio.all_tasks() if t is not asyncio.current_task()]
                for t in ts:
                    t.cancel()
                await asyncio.gather(*ts, return_exceptions=True)
            try:
                asyncio.run_coroutine_threadsafe(_drain(), loop).result(5)
            except Exception:
                pass
            loop.call_soon_threadsafe(loop.stop)
            th.join(5)
            if not th.is_alive():
                loop.close()
        cls._loop = None
        cls._loop_thread = None
        from cassandra.io.asyncioreactor import AsyncioConnection
        AsyncioConnection._loop = None
        AsyncioConnection._loop_thread = None
        _state['asyncio_cls'] = None
    if _state['twisted_started']:
        from twisted.internet import reactor
        if reactor.running:
            reactor.callFromThread(reactor.stop)
        th = _state['twisted_thread']
        if th is not None:
            th.join(5)
        _state['twisted_started'] = False
