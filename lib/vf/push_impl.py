"""C11 harness: real AsyncioConnection.push/_push_msg/handle_write and TwistedConnection.push on a local socketpair.

asyncio : a subclass that skips only socket creation (its _socket is one end of socket.socketpair(), non-blocking); the
          real class-level loop thread is started by the real initialize_reactor(); handle_write is the real coroutine.
twisted : the real global reactor runs in a thread; `transport` is a minimal object whose write() does a blocking
          sendall on one end of a socketpair (TwistedConnection.push is `reactor.callFromThread(self.transport.write, data)`).
N threads push tagged messages; a reader collects what arrives at the peer end.
Everything started here is stopped by shutdown().
"""
import asyncio, socket, threading, time

_state = {'asyncio_cls': None, 'twisted_started': False, 'twisted_thread': None}


def _asyncio_class():
    if _state['asyncio_cls'] is None:
        from cassandra.io.asyncioreactor import AsyncioConnection
        from cassandra.connection import Connection

        class PushAsyncio(AsyncioConnection):
            def __init__(self, sock, out_buffer_size):
                Connection.__init__(self, 'verif-host')
                self.out_buffer_size = out_buffer_size
                self._socket = sock
                self._socket.setblocking(0)
                # as in AsyncioConnection.__init__ (minus _connect_socket, handle_read and the OPTIONS message)
                self._write_queue = asyncio.Queue()
                self._write_queue_lock = asyncio.Lock()
                self._read_watcher = None
                self._write_watcher = asyncio.run_coroutine_threadsafe(self.handle_write(), loop=self._loop)
        PushAsyncio.initialize_reactor()
        _state['asyncio_cls'] = PushAsyncio
    return _state['asyncio_cls']


class _SockTransport(object):
    def __init__(self, sock):
        self.sock = sock
        self.connector = self

    def write(self, data):
        self.sock.sendall(data)

    def disconnect(self):
        pass


def _twisted_conn(sock):
    from cassandra.io import twistedreactor as T
    from cassandra.connection import Connection
    from twisted.internet import reactor
    if not _state['twisted_started']:
        th = threading.Thread(target=lambda: reactor.run(installSignalHandlers=False), name='verif-twisted', daemon=True)
        th.start()
        _state['twisted_started'] = True
        _state['twisted_thread'] = th
        for _ in range(200):
            if reactor.running:
                break
            time.sleep(0.01)

    class PushTwisted(T.TwistedConnection):
        def __init__(self, sock):
            Connection.__init__(self, 'verif-host')
            self.is_closed = False
            self.connector = None
            self.transport = _SockTransport(sock)
    return PushTwisted(sock)


def run_pushes(reactor_kind, progs, out_buffer_size=4096, timeout=5.0, switch=1e-5):
    """progs: list (one per thread) of lists of bytes.  Returns (received bytes, errors) after all threads pushed and the
    expected number of bytes arrived (or `timeout` s of silence)."""
    import sys
    a, b = socket.socketpair()
    b.settimeout(0.05)
    errors = []
    if reactor_kind == 'asyncio':
        conn = _asyncio_class()(a, out_buffer_size)
    else:
        conn = _twisted_conn(a)
    total = sum(len(m) for p in progs for m in p)
    got = bytearray()
    start = threading.Barrier(len(progs) + 1)

    def worker(p):
        start.wait()
        for m in p:
            try:
                conn.push(m)
            except Exception as e:           # push() itself raised in the caller
                errors.append('%s: %s' % (type(e).__name__, e))
    ths = [threading.Thread(target=worker, args=(p,)) for p in progs]
    old = sys.getswitchinterval()
    sys.setswitchinterval(switch)
    try:
        for t in ths:
            t.start()
        start.wait()
        deadline = time.time() + timeout
        while len(got) < total and time.time() < deadline:
            try:
                d = b.recv(1 << 16)
            except socket.timeout:
                continue
            if not d:
                break
            got += d
            deadline = time.time() + timeout
        for t in ths:
            t.join()
        # anything beyond the expected total (duplicates)?
        b.settimeout(0.05)
        try:
            d = b.recv(1 << 16)
            if d:
                got += d
        except socket.timeout:
            pass
    finally:
        sys.setswitchinterval(old)
        if reactor_kind == 'asyncio':
            w = conn._write_watcher
            if w is not None:
                w.cancel()
        try:
            a.close()
        finally:
            b.close()
    return bytes(got), errors


def shutdown():
    cls = _state['asyncio_cls']
    if cls is not None:
        loop, th = cls._loop, cls._loop_thread
        if loop is not None and th is not None and th.is_alive():
            async def _drain():
                ts = [t for t in asyncio.all_tasks() if t is not asyncio.current_task()]
                for t in ts:
                    t.cancel()
                await asyncio.gather(*ts, return_exceptions=True)
            try:
                asyncio.run_coroutine_threadsafe(_drain(), loop).result(5)
            except Exception:
                pass
            loop.call_soon_threadsafe(loop.stop)
            th.join(5)
            if not th.is_alive():
                loop.close()
        cls._loop = None
        cls._loop_thread = None
        from cassandra.io.asyncioreactor import AsyncioConnection
        AsyncioConnection._loop = None
        AsyncioConnection._loop_thread = None
        _state['asyncio_cls'] = None
    if _state['twisted_started']:
        from twisted.internet import reactor
        if reactor.running:
            reactor.callFromThread(reactor.stop)
        th = _state['twisted_thread']
        if th is not None:
            th.join(5)
        _state['twisted_started'] = False
