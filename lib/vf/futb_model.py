"""Scenario -> Gallina (coq/Model/FutB.v) for the C16/C17/C19 correspondence, translation spec, generators, oracles."""
import itertools
from .py2coq import Fn, Z, B
from . import py2coq, core
from . import futb_harness as H

PSTATE = ['PMissing', 'PShutdown', 'PNoConn', 'PBusy', 'PFail', 'PSendFail', 'PHealthy', 'PNoConnSlow']
DECISION = ['DRetry', 'DRethrow', 'DIgnore', 'DNextHost']
EKIND = ['KReadTimeout', 'KWriteTimeout', 'KUnavailable', 'KOverloaded', 'KBootstrapping', 'KTruncate', 'KServerError',
         'KConnExc', 'KConnShutdown']
TARGET_P = 0.15
REQUIRES = ['PyBase', 'FutbProto', 'FutB']


def gen(ctx):
    """(T) ProtocolVersion.uses_keyspace_flag is regenerated from cassandra/__init__.py on every run"""
    fns = [Fn('cassandra/__init__.py', 'ProtocolVersion.uses_keyspace_flag', 'uses_keyspace_flag', [('version', Z)], B)]
    return ctx.generate('FutbProto.v', lambda: py2coq.Translator(core.REPO, fns).emit())


def z(v):
    return '(%d)' % v if v < 0 else '%d' % v


def optz(v):
    return 'None' if v is None else '(Some %s)' % z(v)


def zlist(l):
    return '[' + '; '.join(z(x) for x in l) + ']'


def ps_term(p):
    return '(%s, %s, %s)' % (z(p[0]), z(p[1]), optz(p[2]))


def resp_term(r):
    k = r[0]
    if k == 0:
        return 'RRows'
    if k == 1:
        return 'RVoid'
    if k == 8:
        return 'RRowsMore'
    if k == 2:
        return '(RPrepared %s)' % z(r[1])
    if k == 3:
        return '(RRetryable %s %s)' % (EKIND[r[1]], z(r[2]))
    if k == 4:
        return '(RUnprepared %s %s)' % (z(r[1]), z(r[2]))
    if k == 5:
        return '(ROtherError %s)' % z(r[1])
    if k == 6:
        return '(ROtherExc %s)' % z(r[1])
    return 'RJunk'


def op_term(o, sc=None):
    k = o[0]
    if k == 'start':
        return 'Start'
    if k == 'resp':
        return '(Resp %d%%nat %s)' % (o[1], resp_term(o[2]))
    if k == 'run':
        return '(Run %d%%nat)' % o[1]
    if k == 'spec':
        return 'Spec'
    if k == 'pool':
        return '(SetPool %s %s)' % (z(o[1]), PSTATE[o[2]])
    if k == 'ks':
        return '(SetKs %s)' % optz(o[1])
    if k == 'shutdown':
        return '(SetPool (-1) PShutdown)'      # the session is the pseudo-host -1 of the model's environment
    if k == 'page':
        a = (sc or {}).get('analytics')
        if sc and sc.get('target') is None and a and a.get('master') is not None:
            return '(NextPage (replan_master %s %s))' % (z(a['master']), zlist(o[1]))
        return '(NextPage %s)' % zlist(o[1])
    raise ValueError(o)


def config_term(sc):
    script = '[' + '; '.join('(%s, %s)' % (DECISION[d], optz(c)) for d, c in sc['script']) + ']'
    known = '[' + '; '.join('(%s, %s)' % (z(p[0]), ps_term(p)) for p in sc.get('known', [])) + ']'
    fps = 'None' if sc['ps'] is None else '(Some %s)' % ps_term(sc['ps'])
    return '{| pol := scripted %s; fut_ps := %s; known := %s; pv := %s; tgt := %s; inline_retry := %s |}' % (script, fps, known, z(sc['pv']), optz(sc.get('target')),
                                                                                              'true' if sc.get('inline') else 'false')


def init_term(sc):
    pools = '[' + '; '.join('(%d, %s)' % (i, PSTATE[p]) for i, p in enumerate(sc['pools'])) + ']'
    lbplan = zlist(sc['plan'])
    a = sc.get('analytics')
    if a and a.get('master') is not None:
        lbplan = '(replan_master %s %s)' % (z(a['master']), lbplan)
    return '(init %s %s %s %s %s %s %s %s)' % (lbplan, optz(sc.get('target')), pools, optz(sc['cl']),
                                               'true' if sc['idem'] else 'false', 'true' if sc['spec'][0] else 'false',
                                               z(sc['spec'][1]), optz(sc.get('ks')))


def ops_term(sc):
    return '[' + '; '.join(op_term(o, sc) for o in sc['ops']) + ']'


def case_term(sc, obs):
    flat = [x for o in obs for x in o]
    return 'py_list_eqb (trace %s %s %s) %s' % (config_term(sc), init_term(sc), ops_term(sc), zlist(flat))


# --------------------------------------------------------------------------------------------- history generation
def enabled_ops(run, rng, sc, started, allow_env=True):
    """ops enabled in the implementation's current state (legal histories): answer an open attempt, run a queued
    task, fire a live speculative timer, change the environment"""
    ops = []
    if not started:
        return [['start']]
    for i in run.open_attempts():
        ops.append(('resp', i))
    for k in range(len(run.env.queue)):
        ops.append(('run', k))
    if run.spec_armed():
        ops.append(('spec',))
    return ops


def random_resp(rng, sc, prep_attempt, weights=None, tagger=None):
    """a response for an open attempt; tags are unique per scenario"""
    tag = tagger()
    if prep_attempt:
        c = rng.random()
        myid = sc['ps'][0] if sc['ps'] else (sc['known'][0][0] if sc.get('known') else 1)
        if c < 0.45:
            return [2, myid]
        if c < 0.6:
            others = [k[0] for k in sc.get('known', []) if k[0] != myid]      # another cached statement's id
            return [2, rng.choice(others) if others and rng.random() < 0.6 else myid + rng.choice([1, -1])]
        if c < 0.75:
            return [3, rng.choice([7, 8, 3, 6]), tag]
        return rng.choice([[0], [1], [4, myid, tag], [5, tag], [6, tag], [7]])
    c = rng.random()
    w = weights or {}
    if c < w.get('retryable', 0.55):
        return [3, rng.randrange(9), tag]
    if c < w.get('retryable', 0.55) + w.get('unprepared', 0.15):
        myid = sc['ps'][0] if sc['ps'] else (sc['known'][0][0] if sc.get('known') and rng.random() < 0.8 else 1)
        if rng.random() < 0.1:
            myid += 1
        return [4, myid, tag]
    return rng.choice([[0], [1], [2, 3], [5, tag], [6, tag], [7], [0], [1], [8], [8]])


def random_scenario(rng, weights=None, max_hosts=4, max_ops=14, env_changes=True):
    n = rng.randint(1, max_hosts)
    hosts = list(range(n))
    rng.shuffle(hosts)
    plan = hosts[:rng.randint(0, n)] if rng.random() < 0.25 else hosts
    pools = [rng.choice([6, 6, 6, 6, 0, 1, 2, 3, 4, 5]) for _ in range(n)]
    sc = {'n': n, 'plan': plan, 'target': rng.randrange(n) if rng.random() < TARGET_P else None, 'pools': pools,
          'idem': rng.random() < 0.6, 'spec': [rng.random() < 0.7, rng.randint(0, 2)], 'cl': rng.choice([1, 4, 6]),
          'pv': rng.choice([3, 4, 4, 5, 65, 66]), 'ks': rng.choice([None, 1, 2]),
          'ps': [7, 3, rng.choice([None, 1, 2])] if rng.random() < 0.6 else None,
          'known': [], 'script': [], 'ops': []}
    if sc['ps'] is not None and rng.random() < 0.5:
        sc['pidem'] = rng.random() < 0.5
    if sc['ps'] is not None and rng.random() < 0.3:
        sc['markers'] = True          # statement with a bind marker (other branch of PreparedStatement.from_message)
    if sc['target'] is None and rng.random() < 0.12:
        sc['analytics'] = {'master': rng.choice([None] + list(range(n)))}
    if rng.random() < 0.15:
        sc['timeout'] = True
        sc['pools'] = [7 if (p != 6 and rng.random() < 0.5) else p for p in sc['pools']]
    sc['inline'] = rng.random() < 0.25      # executor-first schedule of retries
    sc['metrics'] = rng.random() < 0.4    # Cluster(metrics_enabled=True)
    sc['nids'] = rng.choice([1, 1, 2, 4, 300])   # size of the connections' stream-id deque (id 0 first, FIFO recycling)
    if rng.random() < 0.5:
        sc['known'] = [[7, rng.choice([3, 4]), rng.choice([None, 1, 2])]]
        if rng.random() < 0.5:       # the same text prepared under another keyspace: a second cached id
            sc['known'].append([rng.choice([6, 8]), 3, rng.choice([1, 2])])
    sc['script'] = [[rng.choice([0, 0, 3, 3, 1, 2]), rng.choice([None, None, 0, 0] + list(range(11)))] for _ in range(8)]
    return sc


def grow_history(sc, rng, max_ops=14, weights=None, env_changes=True):
    """walk the implementation's enabled operations (legal history); returns (obs list, Run)"""
    run = H.Run(sc)
    obs = []
    tagc = itertools.count(10)
    tagger = lambda: next(tagc)
    started = False
    for _ in range(max_ops):
        choices = enabled_ops(run, rng, sc, started)
        if env_changes and started and rng.random() < 0.12:
            if rng.random() < 0.8:
                op = ['pool', rng.randrange(sc['n']), rng.choice([0, 1, 2, 3, 4, 5, 6, 6, 6])]
            else:
                op = ['ks', rng.choice([None, 1, 2])]
        elif not choices:
            break
        else:
            c = rng.choice(choices)
            if c[0] == 'resp':
                op = ['resp', c[1], random_resp(rng, sc, run.env.sent[c[1]]['kind'] == 1, weights, tagger)]
            else:
                op = list(c)
        started = True
        sc['ops'].append(op)
        obs.append(run.step(op))
    return obs, run
