"""Shared driver of checks/C14.py and checks/C15.py: run histories on the real ResponseFuture, apply the Python oracle of
the property after every step, and compare every observation with the Coq model (Model/FutureOnce.v, variant g=pf=true)."""
import json, os, re
from vf import core, futa_gen as G, futa_harness as H

MODEL = (True, True)     # the model variant that describes the code in the tree: first-wins guard, per-page timer
REQUIRES = ['FutureState', 'FutureOnce']


def load_corpus(pid):
    d = os.path.join(core.VERIF, 'corpus', pid)
    out = []
    if os.path.isdir(d):
        for fn in sorted(os.listdir(d)):
            if fn.endswith('.json'):
                with open(os.path.join(d, fn)) as f:
                    c = json.load(f)
                out.append((c['cfg'], c['ops'], bool(c.get('punctual')), 'corpus:' + fn))
    return out


def norm_cfg(cfg):
    c = dict(cfg)
    c['pools'] = dict((int(k), v) for k, v in cfg.get('pools', {}).items())
    return c


def features(ops, en, w):
    fires = sum(1 for o, e in zip(ops, en) if o[0] == 'fire' and e)
    runs = sum(1 for o, e in zip(ops, en) if o[0] == 'run' and e)
    pages = sum(1 for o, e in zip(ops, en) if o[0] == 'nextpage' and e)
    resps = sum(1 for o, e in zip(ops, en) if o[0] == 'resp' and e)
    return {'attempts': len(w.attempts), 'fires': fires, 'runs': runs, 'pages': pages, 'resps': resps}


class Batch(object):
    def __init__(self, ctx, prop):
        self.ctx, self.prop = ctx, prop
        self.cases, self.meta = [], []

    def add(self, cfg, ops, punctual, source, nontrivial_rule):
        ctx = self.ctx
        cfg = norm_cfg(cfg)
        w, obs, en, orc = G.run_with_oracle(cfg, ops, punctual)
        ft = features(ops, en, w)
        canon = [sorted(cfg.items(), key=str), ops]
        ctx.case(canon, nontrivial=nontrivial_rule(ft, cfg, ops, en),
                 sample={'cfg': cfg, 'ops': ops, 'final_observation': obs[-1], 'source': source})
        ctx.count('source', source.split(':')[0])
        ctx.count('history_length', min(len(ops), 20))
        ctx.count('attempts_sent', ft['attempts'])
        ctx.count('timer_fires', min(ft['fires'], 6))
        ctx.count('page_fetches', ft['pages'])
        for o, e in zip(ops, en):
            ctx.count('op', o[0] if e else o[0] + '(disabled)')
            if o[0] == 'resp' and e:
                ctx.count('response', o[2] if o[2] not in ('retry',) else 'retry:' + H.DECISIONS[o[3]])
                if o[4]:
                    ctx.count('message_class', o[4])
        for (p, key, what, i) in orc.found:
            if p != self.prop:
                continue
            ctx.violation(key, '%s (after step %d of the history)' % (what, i),
                          case={'cfg': cfg, 'ops': ops[:i], 'punctual': punctual}, kind='history',
                          expected='exactly one outcome per page fetch' if p == 'C14' else 'outcome within timeout + 30 ms',
                          actual={'observation': obs[i], 'pairs': [dict(x) for x in w.pairs]},
                          theorem='C14_exactly_once' if p == 'C14' else 'C15_bounded')
        self.cases.append(G.corrh_case(MODEL[0], MODEL[1], cfg, ops, obs))
        self.meta.append((cfg, ops, obs, punctual))
        return orc

    def compare(self, shard=400):
        """model vs implementation, every observation of every history"""
        ctx = self.ctx
        try:
            bad = ctx.coq_filter(REQUIRES, '(fun b : bool => b)', self.cases, shard=shard)
        except RuntimeError as e:
            ctx.proof_broken.append(('correspondence:FutureOnce', str(e)[-600:]))
            return
        for i in bad[:8]:
            cfg, ops, obs, punctual = self.meta[i]
            where, mod = 'unknown', None
            try:
                res = ctx.coq_eval(REQUIRES, ['map obs (trace %s %s (init %s) %s)' % (
                    'true' if MODEL[0] else 'false', 'true' if MODEL[1] else 'false', G.coq_cfg(cfg), G.coq_ops(ops))])
                rows = [[int(x) for x in re.findall(r'-?\d+', row)] for row in re.findall(r'\[([^\[\]]*)\]', res[0])]
                for j, (a, b) in enumerate(zip(obs, rows)):
                    if a != b:
                        where = 'after step %d (%r)' % (j, ops[j - 1] if j else 'init')
                        mod = b
                        obs_i = a
                        break
            except Exception as e:   # diagnosis only
                where = 'diagnosis failed: %s' % (str(e)[-200:],)
            ctx.disagreement('model-vs-impl', 'ResponseFuture and Model/FutureOnce.v differ %s: cfg=%s ops=%s' % (where, json.dumps(cfg), json.dumps(ops)),
                             case={'cfg': cfg, 'ops': ops, 'punctual': punctual}, actual=obs[-1], model=mod)
        if bad:
            ctx.extra['model_disagreements'] = len(bad)


def replay(ctx, rp, prop):
    case = rp.get('case') or {}
    if not case.get('ops'):
        print('nothing to replay on the implementation: %s' % (rp.get('theorem'),))
        return 1
    cfg = norm_cfg(case['cfg'])
    w, obs, en, orc = G.run_with_oracle(cfg, case['ops'], bool(case.get('punctual')))
    for op, o in zip([['init']] + case['ops'], obs):
        print('%-40s %s' % (json.dumps(op), o))
    found = [f for f in orc.found if f[0] == prop]
    for f in found:
        print('property fails: %s: %s (step %d)' % (f[1], f[2], f[3]))
    print(('VIOLATION property=%s replay=%s' % (prop, ctx.replay_path)) if found else 'not reproduced')
    return 1 if found else 0
