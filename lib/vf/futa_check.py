"""Shared driver of checks/C14.py and checks/C15.py: run histories on the real ResponseFuture, apply the Python oracle of
the property after every step, and compare every observation with the Coq model (Model/FutureOnce.v, variant g=pf=true)."""
import json, os, re
from vf import core, futa_gen as G, futa_harness as H

MODEL = (True, True)     # the model variant that describes the code in the tree: first-wins guard, per-page timer
REQUIRES = ['FutureState', 'FutureOnce']


def load_corpus(pid):
    d = os.path.join(core.VERIF, 'corpus', pid)
    out = []
    if os.path.isdir(d):
        for fn in sorted(os.listdir(d)):
            if fn.endswith('.json'):
                with open(os.path.join(d, fn)) as f:
                    c = json.load(f)
                out.append((c['cfg'], c['ops'], bool(c.get('punctual')), 'corpus:' + fn))
    return out


def norm_cfg(cfg):
    c = dict(cfg)
    c['pools'] = dict((int(k), v) for k, v in cfg.get('pools', {}).items())
    return c


def features(ops, en, w):
    fires = sum(1 for o, e in zip(ops, en) if o[0] == 'fire' and e)
    runs = sum(1 for o, e in zip(ops, en) if o[0] == 'run' and e)
    pages = sum(1 for o, e in zip(ops, en) if o[0] == 'nextpage' and e)
    resps = sum(1 for o, e in zip(ops, en) if o[0] == 'resp' and e)
    return {'attempts': len(w.attempts), 'fires': fires, 'runs': runs, 'pages': pages, 'resps': resps}


class Batch(object):
    def __init__(self, ctx, prop):
        self.ctx, self.prop = ctx, prop
        self.cases, self.meta = [], []

    def add(self, cfg, ops, punctual, source, nontrivial_rule):
        ctx = self.ctx
        cfg = norm_cfg(cfg)
        w, obs, en, orc = G.run_with_oracle(cfg, ops, punctual)
        ft = features(ops, en, w)
        canon = [sorted(cfg.items(), key=str), ops]
        ctx.case(canon, nontrivial=nontrivial_rule(ft, cfg, ops, en),
                 sample={'cfg': cfg, 'ops': ops, 'final_observation': obs[-1], 'source': source})
        ctx.count('source', source.split(':')[0])
        ctx.count('history_length', min(len(ops), 20))
        ctx.count('attempts_sent', ft['attempts'])
        ctx.count('timer_fires', min(ft['fires'], 6))
        ctx.count('page_fetches', ft['pages'])
        for o, e in zip(ops, en):
            ctx.count('op', o[0] if e else o[0] + '(disabled)')
            if o[0] == 'resp' and e:
                ctx.count('response', o[2] if o[2] not in ('retry',) else 'retry:' + H.DECISIONS[o[3]])
                if o[4]:
                    ctx.count('message_class', o[4])
        for (p, key, what, i) in orc.found:
            if p != self.prop:
                continue
            ctx.violation(key, '%s (after step %d of the history)' % (what, i),
                          case={'cfg': cfg, 'ops': ops[:i], 'punctual': punctual}, kind='history',
                          expected='exactly one outcome per page fetch' if p == 'C14' else 'outcome within timeout + 30 ms',
                          actual={'observation': obs[i], 'pairs': [dict(x) for x in w.pairs]},
                          theorem='C14_exactly_once' if p == 'C14' else 'C15_bounded')
        self.cases.append(G.corrh_case(MODEL[0], MODEL[1], cfg, ops, obs))
        self.meta.append((cfg, ops, obs, punctual))
        return orc

    def compare(self, shard=400):
        """model vs implementation, every observation of every history"""
        ctx = self.ctx
        try:
            bad = ctx.coq_filter(REQUIRES, '(fun b : bool => b)', self.cases, shard=shard)
        except RuntimeError as e:
            ctx.proof_broken.append(('correspondence:FutureOnce', str(e)[-600:]))
            return
        for i in bad[:8]:
            cfg, ops, obs, punctual = self.meta[i]
            where, mod = 'unknown', None
            try:
                res = ctx.coq_eval(REQUIRES, ['map obs (trace %s %s (init %s) %s)' % (
                    'true' if MODEL[0] else 'false', 'true' if MODEL[1] else 'false', G.coq_cfg(cfg), G.coq_ops(ops))])
                rows = [[int(x) for x in re.findall(r'-?\d+', row)] for row in re.findall(r'\[([^\[\]]*)\]', res[0])]
                for j, (a, b) in enumerate(zip(obs, rows)):
                    if a != b:
                        where = 'after step %d (%r)' % (j, ops[j - 1] if j else 'init')
                        mod = b
                        obs_i = a
                        break
            except Exception as e:   # diagnosis only
                where = 'diagnosis failed: %s' % (str(e)[-200:],)
            ctx.disagreement('model-vs-impl', 'ResponseFuture and Model/FutureOnce.v differ %s: cfg=%s ops=%s' % (where, json.dumps(cfg), json.dumps(ops)),
                             case={'cfg': cfg, 'ops': ops, 'punctual': punctual}, actual=obs[-1], model=mod)
        if bad:
            ctx.extra['model_disagreements'] = len(bad)


def replay(ctx, rp, prop):
    case = rp.get('case') or {}
    if case.get('concurrent'):
        w, orc, r = race_once(case['cfg'], case['ops'], case['concurrent'][0], case['concurrent'][1], case['schedule'])
        print('two threads %r || %r -> pairs %r, final_result set=%r, final_exception=%r' % (
            case['concurrent'][0], case['concurrent'][1], w.pairs, w.f._final_result is not H.cluster_mod()._NOT_SET, w.f._final_exception))
        found = [f for f in orc.found if f[0] == prop]
        for f in found:
            print('property fails: %s: %s' % (f[1], f[2]))
        print(('VIOLATION property=%s replay=%s' % (prop, ctx.replay_path)) if found else 'not reproduced')
        return 1 if found else 0
    if not case.get('ops'):
        print('nothing to replay on the implementation: %s' % (rp.get('theorem'),))
        return 1
    cfg = norm_cfg(case['cfg'])
    w, obs, en, orc = G.run_with_oracle(cfg, case['ops'], bool(case.get('punctual')))
    for op, o in zip([['init']] + case['ops'], obs):
        print('%-40s %s' % (json.dumps(op), o))
    found = [f for f in orc.found if f[0] == prop]
    for f in found:
        print('property fails: %s: %s (step %d)' % (f[1], f[2], f[3]))
    print(('VIOLATION property=%s replay=%s' % (prop, ctx.replay_path)) if found else 'not reproduced')
    return 1 if found else 0


def directed(ctx):
    for cfg, ops, punctual in G.directed_histories():
        yield (cfg, ops, punctual and G.is_punctual(norm_cfg(cfg), ops), 'directed')


# ---------------------------------------------------------------------------------------------- two threads (detsched)
RACES = [
    # (config, prefix, op A, op B): two completions that the driver may run on different threads
    ({'plan': [1, 2, 3], 'timeout': 1000, 'specs': [100], 'pools': {1: 'ok', 2: 'ok', 3: 'ok'}, 'now': 0},
     [['addcb'], ['send'], ['tick', 100], ['fire', 0]], ['resp', 0, 'rows', False, None], ['resp', 1, 'rows', False, None]),
    ({'plan': [1, 2, 3], 'timeout': 1000, 'specs': [100], 'pools': {1: 'ok', 2: 'ok', 3: 'ok'}, 'now': 0},
     [['addcb'], ['send'], ['tick', 100], ['fire', 0]], ['resp', 0, 'rows', False, None], ['resp', 1, 'other', None, 'Invalid']),
    ({'plan': [1, 2, 3], 'timeout': 1000, 'specs': [100], 'pools': {1: 'ok', 2: 'ok', 3: 'ok'}, 'now': 0},
     [['addcb'], ['send'], ['tick', 100], ['fire', 0], ['tick', 900]], ['fire', 1], ['resp', 0, 'rows', False, None]),
    # the application registers callbacks while the event loop completes the request
    ({'plan': [1, 2, 3], 'timeout': 1000, 'specs': [], 'pools': {1: 'ok', 2: 'ok', 3: 'ok'}, 'now': 0},
     [['send']], ['addcb'], ['resp', 0, 'rows', False, None]),
    ({'plan': [1, 2, 3], 'timeout': 1000, 'specs': [], 'pools': {1: 'ok', 2: 'ok', 3: 'ok'}, 'now': 0},
     [['send']], ['addcb'], ['resp', 0, 'other', None, 'Invalid']),
]


def race_once(cfg, prefix, op_a, op_b, schedule):
    """-> (world, oracle, detsched run) after the prefix and the two concurrent calls"""
    w = H.World(norm_cfg(cfg))
    orc = G.Oracle(w, False)
    for op in prefix:
        w.step(op)
    orc.before(['init'])
    r = w.step_concurrent(op_a, op_b, schedule)
    if r is not None:
        orc.after(['threads'], True, len(prefix) + 1)
    return w, orc, r


def explore_races(ctx, prop='C14'):
    """Directed search, not a proof: the two completions run on two real threads, switched at every source line of
    cassandra/cluster.py, under every schedule with one preemption (A runs k lines, B runs to its end, A finishes) and a
    sample of schedules with two."""
    from vf import detsched
    n = 0
    for cfg, prefix, op_a, op_b in RACES:
        scheds = detsched.schedules_two_threads(70, 1)
        if ctx.tier == 'thorough':
            scheds = scheds + [s for i, s in enumerate(detsched.schedules_two_threads(70, 2)) if i % 23 == 0]
        for sched in scheds:
            w, orc, r = race_once(cfg, prefix, op_a, op_b, sched)
            if r is None:
                continue
            n += 1
            errs = [e for e in r.errors if e is not None]
            found = [f for f in orc.found if f[0] == prop]
            if errs:
                found.append((prop, 'thread-raised.threads', 'a completion raised on its thread: %r' % (errs,), len(prefix) + 1))
            for (p, key, what, i) in found:
                ctx.violation(key.rsplit('.', 1)[0] + '.two-threads', '%s -- two threads: %r || %r after %r, schedule %r' % (what, op_a, op_b, prefix, compact(sched)),
                              case={'cfg': cfg, 'ops': prefix, 'concurrent': [op_a, op_b], 'schedule': sched}, kind='interleaving',
                              expected='exactly one outcome', actual={'pairs': [dict(x) for x in w.pairs]}, theorem='C14_exactly_once')
            if found:
                break
    ctx.count('threads', 'detsched_schedules', n)
    ctx.trust('lib/vf/detsched.py (deterministic line-granular scheduler; search aid for two-thread completions)')


def compact(sched):
    out = []
    for x in sched:
        if out and out[-1][0] == x:
            out[-1][1] += 1
        else:
            out.append([x, 1])
    return out
