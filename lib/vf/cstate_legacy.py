"""C45, native protocol v1/v2: the REAL HostConnectionPool of a real Session (protocol_version=2) across Session/Cluster
shutdown, with fake connections, the manual executor and a hooking lock (vf.cstate_harness)."""
from vf.cstate_harness import Harness, HookLock
from vf.cstate_c45 import NeverConvict, _harness_wait


class HLegacy(Harness):
    protocol_version = 2

    def __init__(self):
        Harness.__init__(self, {'nhosts': 1, 'hosts': ['up'], 'nsess': 0, 'sched': None}, real_control=True)
        c = self.cluster
        self.cl.wait_futures = _harness_wait
        self.hosts[0].conviction_policy = NeverConvict(self.hosts[0])
        c.control_connection.connect()
        self.executor.inline = True
        try:
            s = self.cl.Session(c, c.metadata.all_hosts())
        finally:
            self.executor.inline = False
        c.sessions.add(s)
        self.sessions.append(s)
        self.session = s
        self.pool = s._pools[self.hosts[0]]
        assert type(self.pool).__name__ == 'HostConnectionPool', type(self.pool)
        self.base = min(x.cid for x in self.pool._connections)      # local id = cid - base
        self.trash_order = []

    def lid(self, conn):
        return conn.cid - self.base

    def task(self, item):
        name = getattr(item[1], '__name__', '')
        return {'_create_new_connection': 'create', '_retrying_replace': 'retry'}.get(name, 'other:' + name)

    def snap(self):
        p = self.pool
        mine = [x for x in self.conns if x.cid >= self.base]
        return {'nconn': len(mine), 'shut': int(bool(p.is_shutdown)), 'sess_down': int(bool(self.session.is_shutdown)),
                'open': p.open_count, 'sched': p._scheduled_for_creation,
                'closed': sorted(self.lid(x) for x in mine if x.is_closed),
                'conns': [self.lid(x) for x in p._connections],
                'trash': [self.lid(x) for x in self.trash_order if x in p._trash],
                'queue': [self.task(t) for t in self.executor.queue]}

    def enabled(self):
        ops = [('spawn',), ('shutdown',)]
        p = self.pool
        for k, t in enumerate(self.executor.queue):
            for ok in (1, 0):
                for d in (0, 1, 2):
                    if d and (not ok or p.is_shutdown):
                        continue
                    ops.append(('run', k, ok, d))
            if not self.session.is_shutdown:
                ops.append(('racing', k))
        for i, cn in enumerate(p._connections):
            if not cn.is_closed:
                ops += [('trash', i, 0), ('trash', i, 1), ('lost', i)]
        live_trash = [x for x in self.trash_order if x in p._trash]
        for i, cn in enumerate(live_trash):
            if not cn.is_closed:
                ops.append(('trashdone', i))
        return ops

    def step(self, op):
        p, c = self.pool, self.cluster
        k = op[0]
        if k == 'spawn':
            p._maybe_spawn_new_connection()
        elif k == 'shutdown':
            c.shutdown()
        elif k == 'run':
            if op[1] < len(self.executor.queue):
                self.outcome[0] = 'ok' if op[2] else 'fail'
                orig = p._lock
                if op[3] == 1:
                    self.after_connect = c.shutdown
                elif op[3] == 2:
                    p._lock = HookLock(orig, 1, c.shutdown)       # 1st acquisition: the entry check of _add_conn_if_under_max
                try:
                    self.executor.run(op[1])
                finally:
                    self.after_connect = None
                    p._lock = orig
        elif k == 'racing':
            if op[1] < len(self.executor.queue) and not self.session.is_shutdown:
                item = self.executor.queue[op[1]]
                self.outcome[0] = 'ok'
                orig = p._lock

                def other_thread():
                    # an executor thread completes a connection creation in the window right before shutdown() takes the pool lock
                    p._lock = orig
                    self.executor.run(self.executor.queue.index(item))
                p._lock = HookLock(orig, 0, other_thread)
                try:
                    c.shutdown()
                finally:
                    p._lock = orig
        elif k == 'trash':
            conns = p._connections
            if op[1] < len(conns):
                cn = conns[op[1]]
                cn.in_flight = 1 if op[2] else 0
                before = set(p._trash)
                p._maybe_trash_connection(cn)
                if cn in p._trash and cn not in before:
                    self.trash_order.insert(0, cn)
        elif k == 'lost':
            conns = p._connections
            if op[1] < len(conns):
                cn = conns[op[1]]
                cn.is_defunct = True
                cn.close()
                cn.in_flight = 1
                p.return_connection(cn)
        elif k == 'trashdone':
            live = [x for x in self.trash_order if x in p._trash]
            if op[1] < len(live) and not live[op[1]].is_closed:
                cn = live[op[1]]
                cn.in_flight = 1
                p.return_connection(cn)
        else:
            raise ValueError(op)
        self.executor.queue[:] = [t for t in self.executor.queue if not t[0].cancelled()]
        return self.snap()


def encode(s):
    return ([s['nconn'], s['shut'], s['sess_down'], s['open'], s['sched'], -1] + s['closed'] + [-2] + s['conns'] + [-3] + s['trash'] + [-4]
            + [{'create': 1, 'retry': 2}.get(t, 9) for t in s['queue']])


def coq_op(op):
    k = op[0]
    b = lambda x: 'true' if x else 'false'
    if k == 'spawn':
        return 'LSpawn'
    if k == 'shutdown':
        return 'LShutdown'
    if k == 'run':
        return 'LRun %d %s %d' % (op[1], b(op[2]), op[3])
    if k == 'racing':
        return 'LShutdownRacing %d' % op[1]
    if k == 'trash':
        return 'LTrash %d %s' % (op[1], b(op[2]))
    if k == 'lost':
        return 'LLost %d' % op[1]
    if k == 'trashdone':
        return 'LTrashDone %d' % op[1]
    raise ValueError(op)


def zl(v):
    return '(%d)' % v if v < 0 else '%d' % v


def coq_case(ops, encs):
    return 'lcorr [%s] [%s]' % ('; '.join(coq_op(o) for o in ops), '; '.join('[' + '; '.join(zl(v) for v in e) + ']' for e in encs))


def oracle(op, snap, prev):
    finds = []
    if snap['shut']:
        open_ = [c for c in range(snap['nconn']) if c not in snap['closed']]
        if open_:
            finds.append(('legacy-pool.open-after-shutdown', 'HostConnectionPool (protocol v2): connections %r still open after the shutdown' % open_, 'C45_legacy_all_closed'))
    if prev is not None and prev['shut'] and snap['nconn'] > prev['nconn']:
        finds.append(('legacy-pool.connection-opened-after-shutdown', 'HostConnectionPool opened a connection after its shutdown (%r)' % (op,), 'C45_legacy_no_new_connections'))
    if prev is not None and prev['sess_down'] and len(snap['queue']) > len(prev['queue']):
        finds.append(('legacy-pool.task-accepted-after-shutdown', 'a pool task was accepted after Session.shutdown (%r)' % (op,), 'C45_legacy_no_new_connections'))
    held = set(snap['conns']) | set(snap['trash'])
    orphan = [c for c in range(snap['nconn']) if c not in snap['closed'] and c not in held]
    if orphan:
        finds.append(('legacy-pool.connection-without-owner', 'connections %r are open but neither in _connections nor in _trash' % orphan, 'C45_legacy_all_closed'))
    return finds


def gen_and_run(rng, n, script=None):
    H = HLegacy()
    try:
        ops, encs, finds = [], [], []
        prev = H.snap()
        shut_at = rng.randrange(1, n) if script is None else None
        for i in range(n if script is None else len(script)):
            if script is not None:
                op = tuple(script[i])
            else:
                en = H.enabled()
                if i == shut_at and not H.session.is_shutdown:
                    rac = [o for o in en if o[0] == 'racing']
                    op = rng.choice(rac) if rac and rng.random() < 0.5 else ('shutdown',)
                else:
                    en = [o for o in en if o[0] not in ('shutdown', 'racing')] or [('shutdown',)]
                    runs = [o for o in en if o[0] == 'run']
                    op = rng.choice(runs) if runs and rng.random() < 0.4 else rng.choice(en)
            snap = H.step(op)
            ops.append(op)
            encs.append(encode(snap))
            for (k, m, t) in oracle(op, snap, prev):
                finds.append((k, m, t, len(ops)))
            prev = snap
        return ops, encs, finds
    finally:
        H.close()
