"""Harness for C37 (and shared by C35): clause/statement specs <-> real cqlengine objects <-> Gallina literals,
a parser of the CQL text cqlengine renders, and the Python oracle of C37 applied to real statement objects.

Spec formats (JSON-able):
  val     : None | int | ['L',[ints]] | ['S',[sorted ints]] | ['M',[[k,v],...]] | ['Q', val]   (InQuoter)
  qval    : ['v', val] | ['fn', 0|1, local_ms, utc_offset_minutes] | ['tok', [ints], ncols]
  clause  : ['where', f, quote, op, qval] | ['notnull', f] | ['assign', f, val] | ['cond', f, val]
          | ['set', f, S|None, 'add'|'remove'|None, S|None] | ['list', f, L|None, 'append'|'prepend'|None, L|None]
          | ['map', f, M, 'update'|'remove'|None, M|None] | ['counter', f, int, int|None]
          | ['delf', f] | ['mapdel', f, M|None, M|None]
  sop     : ['add', part, clause] | ['renum', i]          part in 'W','A','C','F'
  stmt    : [kind, [sop...]]                              kind in 'Select','Insert','Update','Delete'
"""
import re
from datetime import datetime, timedelta

PH = r'%\((\d+)\)s'
TABLE = 'ks.t'
OPS = ['EQ', 'NE', 'IN', 'GT', 'GTE', 'LT', 'LTE', 'CONTAINS', 'LIKE']
OPSYM = ['=', '!=', 'IN', '>', '>=', '<', '<=', 'CONTAINS', 'LIKE']
OPCOQ = ['OpEQ', 'OpNE', 'OpIN', 'OpGT', 'OpGTE', 'OpLT', 'OpLTE', 'OpCONTAINS', 'OpLIKE']
PARTCOQ = {'W': 'PWhere', 'A': 'PAssign', 'C': 'PCond', 'F': 'PField'}
RENDER_PARTS = {'Select': ['W'], 'Insert': ['A'], 'Update': ['A', 'W', 'C'], 'Delete': ['F', 'W', 'C']}
TOKEN_FIELD = -1


def fname(f):
    return 'f%d' % f


# ---------------------------------------------------------------------------------------------- values
def py_val(v):
    if v is None or isinstance(v, int):
        return v
    t, x = v
    if t == 'L':
        return list(x)
    if t == 'S':
        return set(x)
    if t == 'M':
        return dict((k, w) for k, w in x)
    raise ValueError(v)


def canon_val(x):
    """python object found in a context dict -> spec val"""
    from cassandra.cqlengine.statements import InQuoter, ValueQuoter
    if x is None:
        return None
    if isinstance(x, bool):
        return ['?', repr(x)]
    if isinstance(x, int):
        return x
    if isinstance(x, InQuoter):
        return ['Q', canon_val(x.value)]
    if isinstance(x, (list, tuple)):
        return ['L', [canon_atom(e) for e in x]]
    if isinstance(x, (set, frozenset)) or type(x).__name__ in ('dict_keys', 'SortedSet'):
        return ['S', sorted(canon_atom(e) for e in x)]
    if isinstance(x, dict):
        return ['M', [[canon_atom(k), canon_atom(w)] for k, w in x.items()]]
    return ['?', repr(x)]


def canon_atom(e):
    """element of a collection -> integer atom.  A nested (frozen) collection is one atomic cell for Cassandra and for the
    models: it is encoded injectively as an integer (elements 0..997)."""
    if isinstance(e, int) and not isinstance(e, bool):
        return e
    if isinstance(e, (list, tuple)) and all(isinstance(x, int) and 0 <= x < 998 for x in e):
        c = 1
        for x in e:
            c = c * 1000 + x + 1
        return -c          # negative: never collides with the plain integers used as values
    return -999999


def z(n):
    return '(%d)' % n if n < 0 else '%d' % n


def zl(l):
    return '[' + '; '.join(z(x) for x in l) + ']'


def zm(m):
    return '[' + '; '.join('(%s, %s)' % (z(k), z(-999998 if w is None else w)) for k, w in m) + ']'


def coq_val(v):
    if v is None:
        return 'VNone'
    if isinstance(v, int):
        return '(VInt %s)' % z(v)
    t, x = v
    if t == 'L':
        return '(VList %s)' % zl(x)
    if t == 'S':
        return '(VSet %s)' % zl(x)
    if t == 'M':
        return '(VMap %s)' % zm(x)
    if t == 'Q':
        return '(VInQ %s)' % coq_val(x)
    return '(VInt (-424242))'      # an object the model has no counterpart for: never equal to a model value


def opt(x, f):
    return 'None' if x is None else '(Some %s)' % f(x)


def fn_off(q):
    return q[3] if len(q) > 3 else 0


def fn_datetime(q):
    """the datetime handed to MinTimeUUID/MaxTimeUUID: wall clock local_ms after 1970-01-01 in a zone with the given UTC offset"""
    from datetime import timezone
    dt = datetime(1970, 1, 1) + timedelta(milliseconds=q[2])
    off = fn_off(q)
    return dt.replace(tzinfo=timezone(timedelta(minutes=off))) if off else dt


def coq_qval(q):
    if q[0] == 'v':
        return '(QPlain %s)' % coq_val(q[1])
    if q[0] == 'fn':
        return '(QTimeFn %d %s %s)' % (q[1], z(q[2]), z(fn_off(q) * 60000))
    return '(QToken %s %d%%nat)' % (zl(q[1]), q[2])


def b(x):
    return 'true' if x else 'false'


def coq_clause(c):
    k = c[0]
    if k == 'where':
        return '(CWhere %s %s %s %s)' % (z(c[1]), b(c[2]), OPCOQ[c[3]], coq_qval(c[4]))
    if k == 'notnull':
        return '(CIsNotNull %s)' % z(c[1])
    if k == 'assign':
        return '(CAssign %s %s)' % (z(c[1]), coq_val(c[2]))
    if k == 'cond':
        return '(CCond %s %s)' % (z(c[1]), coq_val(c[2]))
    if k == 'set':
        op = {None: 'None', 'add': '(Some SAdd)', 'remove': '(Some SRemove)'}[c[3]]
        return '(CSetUpd %s %s %s %s)' % (z(c[1]), opt(c[2], lambda v: zl(v[1])), op, opt(c[4], lambda v: zl(v[1])))
    if k == 'list':
        op = {None: 'None', 'append': '(Some LAppend)', 'prepend': '(Some LPrepend)'}[c[3]]
        return '(CListUpd %s %s %s %s)' % (z(c[1]), opt(c[2], lambda v: zl(v[1])), op, opt(c[4], lambda v: zl(v[1])))
    if k == 'map':
        op = {None: 'None', 'update': '(Some MUpdate)', 'remove': '(Some MRemove)'}[c[3]]
        return '(CMapUpd %s %s %s %s)' % (z(c[1]), zm(c[2][1]), op, opt(c[4], lambda v: zm(v[1])))
    if k == 'counter':
        return '(CCounter %s %s %s)' % (z(c[1]), z(c[2]), opt(c[3], z))
    if k == 'delf':
        return '(CDelField %s)' % z(c[1])
    if k == 'mapdel':
        return '(CMapDel %s %s %s)' % (z(c[1]), opt(c[2], lambda v: zm(v[1])), opt(c[3], lambda v: zm(v[1])))
    raise ValueError(c)


def coq_sop(o):
    if o[0] == 'add':
        return '(Add %s %s)' % (PARTCOQ[o[1]], coq_clause(o[2]))
    return '(Renum %s)' % z(o[1])


def coq_sops(ops):
    return '[' + '; '.join(coq_sop(o) for o in ops) + ']'


def coq_stmt(st):
    return '(build %s %s)' % (st[0], coq_sops(st[1]))


# ---------------------------------------------------------------------------------------------- real objects
def mk_clause(c):
    from cassandra.cqlengine import statements as S, operators as O, functions as F, columns
    k = c[0]
    if k == 'where':
        _, f, quote, op, q = c
        operator = O.BaseWhereOperator.get_operator(OPS[op])()
        if q[0] == 'v':
            value = py_val(q[1])
        elif q[0] == 'fn':
            value = (F.MinTimeUUID if q[1] == 0 else F.MaxTimeUUID)(fn_datetime(q))
        else:
            value = F.Token(*q[1])
            value.set_columns([columns.Integer() for _ in range(q[2])])
        return S.WhereClause(fname(f), operator, value, quote_field=quote)
    if k == 'notnull':
        return S.IsNotNullClause(fname(c[1]))
    if k == 'assign':
        return S.AssignmentClause(fname(c[1]), py_val(c[2]))
    if k == 'cond':
        return S.ConditionalClause(fname(c[1]), py_val(c[2]))
    if k == 'set':
        return S.SetUpdateClause(fname(c[1]), py_val(c[2]), operation=c[3], previous=py_val(c[4]))
    if k == 'list':
        return S.ListUpdateClause(fname(c[1]), py_val(c[2]), operation=c[3], previous=py_val(c[4]))
    if k == 'map':
        return S.MapUpdateClause(fname(c[1]), py_val(c[2]), operation=c[3], previous=py_val(c[4]))
    if k == 'counter':
        return S.CounterUpdateClause(fname(c[1]), c[2], previous=c[3])
    if k == 'delf':
        return S.FieldDeleteClause(fname(c[1]))
    if k == 'mapdel':
        return S.MapDeleteClause(fname(c[1]), py_val(c[2]), py_val(c[3]))
    raise ValueError(c)


def new_stmt(kind):
    from cassandra.cqlengine import statements as S
    return {'Select': S.SelectStatement, 'Insert': S.InsertStatement, 'Update': S.UpdateStatement,
            'Delete': S.DeleteStatement}[kind](TABLE)


def apply_sop(st, o):
    """one building step on the real statement; returns the clause object added (or None)"""
    if o[0] == 'renum':
        st.update_context_id(o[1])
        return None
    cl = mk_clause(o[2])
    p = o[1]
    if p == 'W':
        st._add_where_clause(cl)
    elif p == 'C':
        st.add_conditional_clause(cl)
    elif p == 'A':
        st._add_assignment_clause(cl)
    else:
        st.add_field(cl)
    return cl


def build_real(stspec):
    """-> (statement, [(part, spec, clause object)])"""
    st = new_stmt(stspec[0])
    objs = []
    for o in stspec[1]:
        cl = apply_sop(st, o)
        if cl is not None:
            objs.append((o[1], o[2], cl))
    return st, objs


# ---------------------------------------------------------------------------------------------- parsing rendered CQL
class ParseError(Exception):
    pass


NAMEMAP = {}


def _f(s):
    if s in NAMEMAP:
        return NAMEMAP[s]
    m = re.fullmatch(r'f(\d+)', s)
    if not m:
        raise ParseError('field %r' % s)
    return int(m.group(1))


def parse_set_frag(s):
    m = re.fullmatch(r'"(\w+)" = %s' % PH, s)
    if m:
        return ('KAssign', _f(m.group(1)), [int(m.group(2))])
    m = re.fullmatch(r'"(\w+)" = "(\w+)" ([+-]) %s' % PH, s)
    if m and m.group(1) == m.group(2):
        return ('KPlus' if m.group(3) == '+' else 'KMinus', _f(m.group(1)), [int(m.group(4))])
    m = re.fullmatch(r'"(\w+)" = %s \+ "(\w+)"' % PH, s)
    if m and m.group(1) == m.group(3):
        return ('KPrepend', _f(m.group(1)), [int(m.group(2))])
    m = re.fullmatch(r'"(\w+)"\[%s\] = %s' % (PH, PH), s)
    if m:
        return ('KMapPut', _f(m.group(1)), [int(m.group(2)), int(m.group(3))])
    raise ParseError('SET fragment %r' % s)


def parse_where_frag(s):
    m = re.fullmatch(r'"(\w+)" IS NOT NULL', s)
    if m:
        return ('KIsNotNull', _f(m.group(1)), [])
    m = re.fullmatch(r'("?)(\w+|token\([^)]*\))\1 (=|!=|IN|>=|<=|>|<|CONTAINS|LIKE) (.*)', s)
    if not m:
        raise ParseError('WHERE fragment %r' % s)
    quote = m.group(1) == '"'
    fld = m.group(2)
    f = TOKEN_FIELD if fld.startswith('token(') else _f(fld)
    op = OPSYM.index(m.group(3))
    rhs = m.group(4)
    m2 = re.fullmatch(PH, rhs)
    if m2:
        return (('KWhere', quote, op, 0), f, [int(m2.group(1))])
    m2 = re.fullmatch(r'(Min|Max)TimeUUID\(%s\)' % PH, rhs)
    if m2:
        return (('KWhere', quote, op, 1 if m2.group(1) == 'Min' else 2), f, [int(m2.group(2))])
    m2 = re.fullmatch(r'token\((.*)\)', rhs)
    if m2:
        inner = m2.group(1)
        ids = []
        if inner:
            for piece in inner.split(', '):
                m3 = re.fullmatch(PH, piece)
                if not m3:
                    raise ParseError('token arg %r' % piece)
                ids.append(int(m3.group(1)))
        return (('KWhere', quote, op, 3), f, ids)
    raise ParseError('WHERE value %r' % rhs)


def parse_del_frag(s):
    m = re.fullmatch(r'"(\w+)"', s)
    if m:
        return ('KDelField', _f(m.group(1)), [])
    m = re.fullmatch(r'"(\w+)"\[%s\]' % PH, s)
    if m:
        return ('KDelKey', _f(m.group(1)), [int(m.group(2))])
    raise ParseError('DELETE fragment %r' % s)


def _split(s, sep):
    return [x for x in (s or '').split(sep) if x.strip() != '']


def parse_statement(q):
    """CQL text rendered by cqlengine -> dict(kind, parts=[(part, [frag])], extra={...})"""
    q = q.lstrip()
    extra = {}
    if q.startswith('SELECT '):
        m = re.fullmatch(r'SELECT (.*?) FROM (\S+)(?: WHERE (.*?))?(?: ORDER BY (.*?))?(?: LIMIT (\d+))?( ALLOW FILTERING)?', q)
        if not m:
            raise ParseError(q)
        sel = m.group(1)
        extra['fields'] = [] if sel == '*' else [x.strip('"') for x in sel.split(', ')]
        extra['order'] = _split(m.group(4), ', ')
        extra['limit'] = int(m.group(5)) if m.group(5) else 0
        extra['allow'] = bool(m.group(6))
        extra['table'] = m.group(2)
        return {'kind': 'Select', 'extra': extra, 'parts': [('W', [parse_where_frag(x) for x in _split(m.group(3), ' AND ')])]}
    if q.startswith('INSERT '):
        m = re.fullmatch(r'INSERT INTO (\S+) \((.*?)\) VALUES \((.*?)\)( IF NOT EXISTS)?(?: USING (.*))?', q)
        if not m:
            raise ParseError(q)
        cols = _split(m.group(2), ', ')
        vals = _split(m.group(3), ', ')
        if len(cols) != len(vals):
            raise ParseError('INSERT arity: %r' % q)
        frs = []
        for c_, v_ in zip(cols, vals):
            mc = re.fullmatch(r'"(\w+)"', c_)
            mv = re.fullmatch(PH, v_)
            if not mc or not mv:
                raise ParseError('INSERT item %r %r' % (c_, v_))
            frs.append(('KAssign', _f(mc.group(1)), [int(mv.group(1))]))
        extra.update(table=m.group(1), if_not_exists=bool(m.group(4)), using=m.group(5))
        return {'kind': 'Insert', 'extra': extra, 'parts': [('A', frs)]}
    if q.startswith('UPDATE '):
        m = re.fullmatch(r'UPDATE (\S+)(?: USING (.*?))? SET (.*?)(?: WHERE (.*?))?(?: IF (?!EXISTS)(.*?))?( IF EXISTS)?', q)
        if not m:
            raise ParseError(q)
        extra.update(table=m.group(1), using=m.group(2), if_exists=bool(m.group(6)))
        return {'kind': 'Update', 'extra': extra, 'parts': [
            ('A', [parse_set_frag(x) for x in _split(m.group(3), ', ')]),
            ('W', [parse_where_frag(x) for x in _split(m.group(4), ' AND ')]),
            ('C', [parse_where_frag(x) for x in _split(m.group(5), ' AND ')])]}
    if q.startswith('DELETE'):
        m = re.fullmatch(r'DELETE(?: (.*?))? FROM (\S+)(?:  USING (.*?) )?(?: WHERE (.*?))?(?: IF (?!EXISTS)(.*?))?( IF EXISTS)?', q)
        if not m:
            raise ParseError(q)
        extra.update(table=m.group(2), using=m.group(3), if_exists=bool(m.group(6)))
        return {'kind': 'Delete', 'extra': extra, 'parts': [
            ('F', [parse_del_frag(x) for x in _split(m.group(1), ', ')]),
            ('W', [parse_where_frag(x) for x in _split(m.group(4), ' AND ')]),
            ('C', [parse_where_frag(x) for x in _split(m.group(5), ' AND ')])]}
    raise ParseError(q)


def coq_frag(fr):
    k, f, ps = fr
    if isinstance(k, tuple):
        ks = '(KWhere %s %d %d)' % (b(k[1]), k[2], k[3])
    else:
        ks = k
    return '(mk %s %s %s)' % (ks, z(f), zl(ps))


def coq_rendered(parts):
    return '[' + '; '.join('(%s, [%s])' % (PARTCOQ[p], '; '.join(coq_frag(fr) for fr in frs)) for p, frs in parts) + ']'


def coq_dict(items):
    return '[' + '; '.join('(%s, %s)' % (z(int(k)), coq_val(v)) for k, v in items) + ']'


def observe_real(st):
    """-> (parsed parts, [(key, canonical value)] in dict order, raw string)"""
    s = str(st)
    parsed = parse_statement(s)
    ctx = st.get_context()
    return parsed, [(k, canon_val(v)) for k, v in ctx.items()], s


def coq_obs(parsed, items):
    return '(%s, %s)' % (coq_rendered(parsed['parts']), coq_dict(items))


# ---------------------------------------------------------------------------------------------- the property on the implementation
def expected_bindings(spec):
    """Independent reading of 'the value of the clause': for clause kinds whose bound values are stated directly by
    the caller, the list of (fragment kind, value) the clause must bind, in order.  None = derived by analysis
    (covered by the model correspondence instead)."""
    k = spec[0]
    if k == 'assign':
        return [('KAssign', spec[2])]
    if k == 'cond':
        return [('KWhere', spec[2])]
    if k == 'where':
        q = spec[4]
        if q[0] == 'v':
            return [('KWhere', ['Q', q[1]] if spec[3] == 2 else q[1])]
        if q[0] == 'fn' and spec[3] != 2:
            return [('KWhere', q[2] - fn_off(q) * 60000)]      # the UTC instant of the given datetime, in ms
        if q[0] == 'tok' and spec[3] != 2 and q[2] == len(q[1]):
            return [('KWhere', v) for v in q[1]]
        return None
    if k == 'counter':
        d = spec[2] - (spec[3] or 0)
        return [('KMinus' if d < 0 else 'KPlus', abs(d))]
    if k in ('list', 'set') and spec[3] and spec[2] is not None and spec[2] != spec[4] and not spec[2][1]:
        return []          # adding / removing nothing requests nothing (UpdateStatement.add_update drops such clauses)
    if k == 'list' and spec[3] is None and spec[2] is not None and spec[2] != spec[4]:
        # independent reading of the documented diff: the stored list is kept where it occurs as a contiguous run of the new list
        # (first occurrence), what stands before it is prepended, what follows is appended; otherwise the list is rewritten
        v = spec[2][1]
        prev = spec[4][1] if spec[4] else None
        if prev and len(v) >= len(prev):
            for i in range(len(v) - len(prev) + 1):
                if v[i:i + len(prev)] == prev:
                    out = []
                    if v[:i]:
                        out.append(('KPrepend', ['L', v[:i]]))
                    if v[i + len(prev):]:
                        out.append(('KPlus', ['L', v[i + len(prev):]]))
                    return out or [('KAssign', ['L', v])]
        return [('KAssign', ['L', v])]
    if k == 'list' and spec[3] and spec[2] is not None and spec[2] != spec[4]:
        return [('KPlus' if spec[3] == 'append' else 'KPrepend', spec[2])]
    if k == 'set' and spec[3] and spec[2] is not None and spec[2] != spec[4]:
        return [('KPlus' if spec[3] == 'add' else 'KMinus', spec[2])]
    if k == 'map' and spec[3] == 'update' and spec[2][1]:
        out = []
        for kk, vv in spec[2][1]:
            out += [('KMapPut', kk), ('KMapPut', vv)]
        return out
    if k == 'mapdel':
        cur = dict(map(tuple, spec[2][1])) if spec[2] else {}
        prev = dict(map(tuple, spec[3][1])) if spec[3] else {}
        return [('KDelKey', kk) for kk in sorted(prev) if kk not in cur]
    if k in ('delf', 'notnull'):
        return []
    return None


def frag_kind_name(fr):
    return fr[0][0] if isinstance(fr[0], tuple) else fr[0]


def oracle(st, objs, kind):
    """C37 on one real statement.  Returns list of (key-suffix, message).  Uses only the implementation."""
    probs = []
    try:
        text = str(st)
        ctx = st.get_context()
    except Exception as e:   # rendering a statement cqlengine built must not fail
        return [('raises', 'rendering raised %r' % e)]
    phs = re.findall(PH, text)
    if len(set(phs)) != len(phs):
        dup = sorted(set(p for p in phs if phs.count(p) > 1), key=int)
        probs.append(('duplicate-placeholder', 'placeholder ids %s occur more than once in %r' % (dup, text)))
    if set(phs) != set(ctx.keys()):
        probs.append(('placeholders-differ-from-context',
                      'placeholders %s but context keys %s in %r' % (sorted(set(phs), key=int), sorted(ctx.keys(), key=int), text)))
    rendered_parts = RENDER_PARTS[kind]
    seen = {}
    for part, spec, cl in objs:
        if part not in rendered_parts:
            continue
        cname = type(cl).__name__
        ids = re.findall(PH, str(cl))
        own = {}
        cl.update_context(own)
        if cl.get_context_size() != len(ids):
            probs.append(('%s.size-differs-from-rendered-placeholders' % cname,
                          '%s(%s) spec %r: get_context_size() is %d but %d placeholders are rendered (%r), so following clauses reuse its ids: %r'
                          % (cname, cl.field, spec, cl.get_context_size(), len(ids), str(cl), text)))
        for i in ids:
            if i in seen:
                probs.append(('%s.id-reuse' % cname, 'placeholder %%(%s)s rendered by %s(%s) is also rendered by %s in %r'
                              % (i, cname, cl.field, seen[i], text)))
            seen[i] = '%s(%s)' % (cname, cl.field)
        if set(ids) != set(own.keys()):
            probs.append(('%s.own-context-differs' % cname, '%s(%s) renders placeholders %s but supplies values for %s'
                          % (cname, cl.field, ids, sorted(own.keys(), key=int))))
        for i in ids:
            if i in own and i in ctx and canon_val(ctx[i]) != canon_val(own[i]):
                probs.append(('%s.foreign-value' % cname, 'placeholder %%(%s)s of %s(%s) is bound to %r, the clause supplied %r (%r)'
                              % (i, cname, cl.field, ctx[i], own[i], text)))
        exp = expected_bindings(spec)
        if exp is not None:
            try:
                frs = []
                for piece in _split(str(cl), ', ') if part in ('A', 'F') else [str(cl)]:
                    frs.append(parse_set_frag(piece) if part == 'A' else parse_del_frag(piece) if part == 'F' else parse_where_frag(piece))
            except ParseError as e:
                probs.append(('%s.unparseable' % cname, 'clause renders %r: %s' % (str(cl), e)))
                continue
            got = [(frag_kind_name(fr), canon_val(ctx.get(str(p), '<missing>'))) for fr in frs for p in fr[2]]
            if got != [(kk, vv) for kk, vv in exp]:
                probs.append(('%s.not-the-requested-value' % cname, '%s(%s) spec %r binds %r, requested %r (%r)'
                              % (cname, cl.field, spec, got, exp, text)))
    return probs


# ---------------------------------------------------------------------------------------------- generators
INTS = [0, 1, 2, 3, 5, -1, 7, 2 ** 31]
TZ_OFFSETS = [0, 0, 120, -300, 330, 0]      # naive, UTC+02:00, UTC-05:00, UTC+05:30
PKINTS = [0, 1, 2, 3, 5, -1, 7, 2 ** 31 - 1]
LISTS = [[], [1], [1, 2], [2, 1, 2], [1, 2, 3], [3, 3], [1, 2, 1, 2, 3], [5, 1, 2, 6]]
SETS = [[], [1], [1, 2], [1, 2, 3], [2, 5], [0, 7]]
MAPS = [[], [[1, 2]], [[1, 2], [3, 4]], [[3, 4], [1, 9]], [[1, 2], [3, 4], [5, 6]], [[2, 0]]]


def gen_val(rng):
    r = rng.random()
    if r < 0.5:
        return rng.choice(INTS)
    if r < 0.65:
        return ['L', rng.choice(LISTS)]
    if r < 0.8:
        return ['S', rng.choice(SETS)]
    if r < 0.95:
        return ['M', rng.choice(MAPS)]
    return None


def gen_list_pair(rng):
    prev = rng.choice(LISTS + [None])
    if prev is None or rng.random() < 0.3:
        return rng.choice(LISTS), prev
    r = rng.random()
    pre = rng.choice([[], [9], [9], [1], [prev[0]] if prev else [4], [8, 9]])
    app = rng.choice([[], [9], [2], [2], [prev[-1]] if prev else [4], [7, 7]])
    if r < 0.6:
        return pre + prev + app, prev
    if r < 0.8 and prev:
        cut = list(prev)
        cut.pop(rng.randrange(len(cut)))
        return cut + app, prev
    mid = list(prev)
    mid.insert(rng.randrange(len(mid) + 1), 6)
    return mid, prev


def gen_clause(rng, kind, part, f):
    """a clause cqlengine itself may place in `part` of a `kind` statement"""
    if part == 'W' or (part == 'C' and rng.random() < 0.5):
        r = rng.random()
        if part == 'W' and r < 0.08:
            return ['notnull', f]
        if r < 0.2:
            return ['where', f, True, 2, ['v', ['L', rng.choice(LISTS)]]]
        if r < 0.32 and part == 'W':
            vals = [rng.choice(INTS) for _ in range(rng.choice([1, 1, 2, 3]))]
            return ['where', f, False, rng.choice([0, 3, 4, 5, 6]), ['tok', vals, len(vals)]]
        if r < 0.42:
            return ['where', f, True, rng.choice([0, 3, 4, 5, 6]), ['fn', rng.choice([0, 1]), 1000 * rng.randrange(0, 5000), rng.choice(TZ_OFFSETS)]]
        if r < 0.5:
            return ['where', f, True, 7, ['v', rng.choice(INTS)]]
        return ['where', f, True, rng.choice([0, 0, 0, 1, 3, 4, 5, 6, 8]), ['v', gen_val(rng) if rng.random() < 0.3 else rng.choice(INTS)]]
    if part == 'C':
        return ['cond', f, rng.choice(INTS)]
    if part == 'F':
        if rng.random() < 0.35:
            return ['delf', f]
        return ['mapdel', f, rng.choice([None] + [['M', m] for m in MAPS]), rng.choice([None] + [['M', m] for m in MAPS])]
    # assignments
    if kind == 'Insert':
        return ['assign', f, gen_val(rng)]
    r = rng.random()
    if r < 0.25:
        return ['assign', f, gen_val(rng)]
    if r < 0.45:
        op = rng.choice([None, None, 'add', 'remove'])
        v = rng.choice([None] + [['S', s] for s in SETS] * 2)
        p = rng.choice([None] + [['S', s] for s in SETS])
        return ['set', f, v, op, p if op is None or rng.random() < 0.3 else None]
    if r < 0.7:
        op = rng.choice([None, None, 'append', 'prepend'])
        if op is None:
            v, p = gen_list_pair(rng)
            return ['list', f, None if rng.random() < 0.05 else ['L', v], None, None if p is None else ['L', p]]
        return ['list', f, ['L', rng.choice(LISTS)], op, None if rng.random() < 0.8 else ['L', rng.choice(LISTS)]]
    if r < 0.9:
        op = rng.choice([None, None, 'update', 'remove'])
        p = rng.choice([None] + [['M', m] for m in MAPS])
        return ['map', f, ['M', rng.choice(MAPS)], op, p if op is None or rng.random() < 0.3 else None]
    return ['counter', f, rng.choice([-2, 0, 1, 5]), rng.choice([None, 0, 3, 5])]


PARTS_OF = {'Select': ['W'], 'Insert': ['A'], 'Update': ['A', 'A', 'W', 'C'], 'Delete': ['F', 'F', 'W', 'C']}


def gen_stmt(rng, kind=None, maxn=6):
    kind = kind or rng.choice(['Select', 'Insert', 'Update', 'Update', 'Delete'])
    n = rng.randint(1, maxn)
    ops = []
    f = 0
    if kind == 'Insert':
        ops.append(['add', 'A', gen_clause(rng, kind, 'A', f)])
        f += 1
    if kind == 'Delete' and rng.random() < 0.4:
        # key removals from several map columns in one DELETE (what one save of an instance with several maps emits), later renumbered
        for _ in range(rng.randint(2, 3)):
            prev = rng.choice([m for m in MAPS if m])
            keep = [kv for kv in prev if rng.random() < 0.4]
            if len(keep) == len(prev):
                keep = keep[1:]
            ops.append(['add', 'F', ['mapdel', f, ['M', keep], ['M', prev]]])
            f += 1
        if rng.random() < 0.5:
            ops.append(['renum', rng.choice([0, 1, 3, 10])])
    for _ in range(n):
        if rng.random() < 0.12:
            ops.append(['renum', rng.choice([0, 1, 3, 10, 100])])
            continue
        part = rng.choice(PARTS_OF[kind])
        ops.append(['add', part, gen_clause(rng, kind, part, f)])
        f += 1
    return [kind, ops]


# ---------------------------------------------------------------------------------------------- query-set chains
# chain op spec: ['filter', f, op, explicit, qval] | ['ftoken', op, explicit, [ints]] | ['fraw', clause] | ['iff', f, op, explicit, qval]
#              | ['iffraw', clause] | ['order', [[f, desc]...]] | ['limit', n] | ['only', [f...]] | ['defer', [f...]] | ['allow']
COLS = list(range(0, 11))
PKS = [0, 1]
ATTR = {6: 'a6'}
_MODEL = []


def attr(f):
    return ATTR.get(f, 'f%d' % f)


def chain_model():
    """the real Model class used for query-set chains (created once)"""
    if _MODEL:
        return _MODEL[0]
    from cassandra.cqlengine import columns as C
    from cassandra.cqlengine.models import Model

    class M(Model):
        __keyspace__ = 'ks'
        __table_name__ = 't'
        f0 = C.Integer(partition_key=True)
        f1 = C.Integer(partition_key=True)
        f2 = C.Integer(primary_key=True)
        f3 = C.Integer(primary_key=True)
        f4 = C.Integer(index=True)
        f5 = C.Integer()
        a6 = C.Integer(db_field='f6')
        f7 = C.List(C.Integer)
        f8 = C.Set(C.Integer)
        f9 = C.Map(C.Integer, C.Integer)
        f10 = C.TimeUUID()
    _MODEL.append(M)
    return M


class Recorder(object):
    """replaces cassandra.cqlengine.connection.execute / get_cluster: records (query string, params)"""
    def __init__(self):
        self.calls = []

    def __enter__(self):
        from cassandra.cqlengine import connection as conn
        self.conn = conn
        self.saved = (conn.execute, conn.get_cluster)
        rec = self

        class FakeCluster(object):
            protocol_version = 4

        def fake_execute(query, params=None, consistency_level=None, timeout=None, connection=None):
            rec.calls.append((getattr(query, 'query_string', query), params))
            return []
        conn.execute = fake_execute
        conn.get_cluster = lambda connection=None: FakeCluster()
        return self

    def __exit__(self, *a):
        self.conn.execute, self.conn.get_cluster = self.saved


def real_qval(q):
    from cassandra.cqlengine import functions as F
    if q[0] == 'v':
        return py_val(q[1])
    if q[0] == 'fn':
        return (F.MinTimeUUID if q[1] == 0 else F.MaxTimeUUID)(fn_datetime(q))
    raise ValueError(q)


def apply_chain(qs, ops):
    from cassandra.cqlengine import functions as F
    for o in ops:
        k = o[0]
        if k in ('filter', 'iff'):
            _, f, op, explicit, q = o
            key = attr(f) + ('__' + OPS[op].lower() if explicit else '')
            qs = getattr(qs, k)(**{key: real_qval(q)})
        elif k == 'ftoken':
            _, op, explicit, vals = o
            qs = qs.filter(**{'pk__token' + ('__' + OPS[op].lower() if explicit else ''): F.Token(*vals)})
        elif k == 'fraw':
            qs = qs.filter(mk_clause(o[1]))
        elif k == 'iffraw':
            qs = qs.iff(mk_clause(o[1]))
        elif k == 'order':
            qs = qs.order_by(*[('-' if d else '') + attr(f) for f, d in o[1]])
        elif k == 'limit':
            qs = qs.limit(o[1])
        elif k == 'only':
            qs = qs.only([attr(f) for f in o[1]])
        elif k == 'defer':
            qs = qs.defer([attr(f) for f in o[1]])
        elif k == 'allow':
            qs = qs.allow_filtering()
        else:
            raise ValueError(o)
    return qs


def coq_qop(o):
    k = o[0]
    if k == 'filter':
        _, f, op, explicit, q = o
        return '(QFilter %s %s %s %s)' % (z(f), OPCOQ[op], coq_qval(q), b((not explicit) and q[0] == 'v'))
    if k == 'iff':
        _, f, op, explicit, q = o
        return '(QIff %s %s %s)' % (z(f), OPCOQ[op], coq_qval(q))
    if k == 'ftoken':
        return '(QFilterToken %s %s %s)' % (z(TOKEN_FIELD), OPCOQ[o[1]], zl(o[3]))
    if k == 'fraw':
        return '(QFilterRaw %s)' % coq_clause(o[1])
    if k == 'iffraw':
        return '(QIffRaw %s)' % coq_clause(o[1])
    if k == 'order':
        return '(QOrder [%s])' % '; '.join('(%s, %s)' % (z(f), b(d)) for f, d in o[1])
    if k == 'limit':
        return '(QLimit %s)' % z(o[1])
    if k == 'only':
        return '(QOnly %s)' % zl(o[1])
    if k == 'defer':
        return '(QDefer %s)' % zl(o[1])
    return 'QAllow'


def coq_chain(ops):
    return '(chain [%s])' % '; '.join(coq_qop(o) for o in ops)


def gen_chain(rng):
    ops = []
    have_pk = rng.random() < 0.8
    if have_pk:
        for f in PKS:
            ops.append(['filter', f, 0, rng.random() < 0.2, ['v', rng.choice(PKINTS)]])
    else:
        ops.append(['allow'])
    for _ in range(rng.randint(0, 5)):
        r = rng.random()
        if r < 0.2:
            f = rng.choice([2, 3, 4, 5, 6])
            explicit = rng.random() < 0.7
            ops.append(['filter', f, rng.choice([0, 3, 4, 5, 6]) if explicit else 0, explicit, ['v', rng.choice(INTS)]])
        elif r < 0.28:
            ops.append(['filter', rng.choice([2, 4, 5, 6]), 2, True, ['v', ['L', rng.choice(LISTS)]]])
        elif r < 0.36:
            ops.append(['filter', rng.choice([7, 8, 9]), 7, True, ['v', rng.choice(INTS)]])
        elif r < 0.44:
            ops.append(['filter', 10, rng.choice([3, 4, 5, 6]), True, ['fn', rng.choice([0, 1]), 1000 * rng.randrange(0, 9999), rng.choice(TZ_OFFSETS)]])
        elif r < 0.52:
            explicit = rng.random() < 0.8
            ops.append(['ftoken', rng.choice([3, 4, 5, 6]) if explicit else 0, explicit, [rng.choice(INTS), rng.choice(INTS)]])
        elif r < 0.58:
            ops.append(['fraw', ['where', rng.choice([4, 5]), True, rng.choice([0, 3, 5]), ['v', rng.choice(INTS)]]])
        elif r < 0.68:
            explicit = rng.random() < 0.5
            ops.append(['iff', rng.choice([4, 5, 6]), rng.choice([0, 1, 3, 5]) if explicit else 0, explicit, ['v', rng.choice(INTS)]])
        elif r < 0.73:
            ops.append(['iffraw', ['cond', rng.choice([4, 5]), rng.choice(INTS)]])
        elif r < 0.8:
            ops.append(['order', rng.choice([[], [[2, False]], [[2, True], [3, False]], [[3, True]]])])
        elif r < 0.87:
            ops.append(['limit', rng.choice([0, 1, 5, 10000, 77])])
        elif r < 0.92:
            ops.append(['only', rng.sample([2, 3, 4, 5, 6, 7], rng.randint(1, 3))])
        elif r < 0.97:
            ops.append(['defer', rng.sample(COLS, rng.randint(1, 4))])
        else:
            ops.append(['allow'])
    if rng.random() < 0.3:
        rng.shuffle(ops)
    return ops


def gen_update_values(rng):
    """kwargs of ModelQuerySet.update as [(clause spec, kwarg name, python value)]"""
    out = []
    used = set()
    for _ in range(rng.randint(1, 4)):
        f = rng.choice([5, 6, 7, 8, 9, 4])
        if f in used:
            continue
        used.add(f)
        if f in (4, 5, 6):
            v = rng.choice(INTS)
            out.append((['assign', f, v], attr(f), v))
        elif f == 7:
            op = rng.choice([None, 'append', 'prepend'])
            v = rng.choice(LISTS)
            out.append((['list', f, ['L', v], op, None], attr(f) + ('__' + op if op else ''), list(v)))
        elif f == 8:
            op = rng.choice([None, 'add', 'remove'])
            v = rng.choice(SETS)
            out.append((['set', f, ['S', v], op, None], attr(f) + ('__' + op if op else ''), set(v)))
        else:
            op = rng.choice([None, 'update', 'remove'])
            m = rng.choice(MAPS)
            if op == 'remove':
                keys = sorted(k for k, _ in m)
                out.append((['map', f, ['M', [[k, None] for k in keys]], op, None], attr(f) + '__remove', set(keys)))
            else:
                out.append((['map', f, ['M', m], op, None], attr(f) + ('__' + op if op else ''), dict(map(tuple, m))))
    return out
