"""C47: the statement evaluated on the implementation (oracle), reply alphabets, tree enumeration and the
multiprocessing worker (must live in an importable module)."""
import itertools

NAMES = ['lz4', 'snappy', 'zstd', 'deflate']
CS_VERSIONS = (5, 6)          # protocol versions with checksummed (segment) framing: v5 and the v6 beta


ERR_CODE = {'none': 0, 'auth_failed': 1, 'conn_shutdown': 2, 'conn_exception': 3, 'protocol_error': 4,
            'server_protocol_exception': 5, 'unsupported_operation': 6, 'key_error': 7, 'os_error': 8, 'exception': 9}


def name_id(n):
    return None if n is None else (NAMES.index(n) if n in NAMES else 99)


def optcode(n):
    i = name_id(n)
    return 0 if i is None else i + 1


def code_frame(f):
    kind = {'options': 0, 'startup': 1, 'auth_response': 2, 'credentials': 3}.get(f['kind'])
    if kind is None:
        return 4095                        # unparsed / unknown message: can never match the model
    return (1 + kind + 4 * (int(f['compressed']) + 2 * int(f['checksummed']) + 4 * int(f['seg_compressed']))
            + 32 * optcode(f['startup_compression'] if f['kind'] == 'startup' else None))


def code_frames(fs):
    c = 0
    for f in reversed(fs):
        c = code_frame(f) + 4096 * c
    return c


def code_state(o):
    return (min(o['pending'], 1) + 2 * ERR_CODE[o['last_error']]
            + 32 * (int(o['closed']) + 2 * int(o['defunct']) + 4 * int(o['connected']) + 8 * int(o['seg_lz4']) + 16 * int(o['checksumming']))
            + 1024 * optcode(o['decompressor']) + 131072 * optcode(o['compressor']))


def nontrivial(replies, obs):
    """the handshake got past STARTUP: at least one reply was processed while a STARTUP/auth request was outstanding"""
    return len(obs) > 2 and obs[1]['pending'] == 1 and not obs[1]['connected']


def summarize(cfg, local, replies, obs):
    """compact record of one evaluated case (what the check needs; observations are kept only when the property fails)"""
    codes = []
    for o in obs:
        codes += [code_state(o) if o['pending'] <= 1 else -1, code_frames(o['sent'])]
    from vf import hs_impl as H
    fac = H.run_factory(cfg, local, replies)
    found = oracle(cfg, local, replies, obs, fac)
    last = obs[-1]
    # factory must agree with the observed flags (ready <-> event set and no error; timeout <-> event not set)
    derived = 'ready' if last['reported_ready'] else 'timeout' if not last['connected'] else 'error'
    fac_kind = fac if fac in ('ready', 'timeout') else 'error'
    mismatch = None if derived == fac_kind else 'Connection.factory() outcome %s but connected=%s last_error=%s' % (fac, last['connected'], last['last_error'])
    rec = {'cfg': cfg, 'local': local, 'replies': replies, 'codes': codes, 'found': found, 'nontrivial': nontrivial(replies, obs),
           'outcome': 'ready' if last['reported_ready'] else last['last_error'] if last['last_error'] != 'none' else 'pending',
           'obs': obs if found else None, 'sample': None, 'factory': fac, 'factory_mismatch': mismatch}
    if len(replies) >= 4 and last['reported_ready']:
        rec['sample'] = {'cfg': cfg, 'local': local, 'replies': replies, 'final': {k: v for k, v in last.items() if k != 'sent'},
                         'sent': [[f['kind'], f['compressed'], f['checksummed']] for o in obs for f in o['sent']]}
    return rec


# ------------------------------------------------------------------------------------------ the statement, on the implementation
def oracle(cfg, local, replies, obs, factory=None):
    """-> list of (key, what, theorem) : failures of the PROPERTY (not of the model) on the observed behaviour."""
    out = []
    v = cfg['version']
    cs = v in CS_VERSIONS
    localn = [NAMES[i] for i in local]
    remoten = [NAMES[i] for i in replies[0][1]] if replies and replies[0][0] == 'supported' else None
    ready_seen = accept_seen = False
    last_sent = 'options'

    def frames_check(o, allowed_compressed):
        for f in o['sent']:
            if (f['compressed'] or f['seg_compressed']) and not allowed_compressed:
                out.append(('compressed-before-accept.%s' % f['kind'], 'a %s frame left compressed before READY/AUTHENTICATE arrived' % f['kind'],
                            'C47_compress_only_after_accept'))
            if f['checksummed'] and not cs:
                out.append(('checksummed-frame.v%d' % v, 'a %s frame was sent in a checksummed segment on protocol v%d' % (f['kind'], v),
                            'C47_checksumming_iff_v5'))
            if f['kind'] == 'startup' and f['startup_compression'] is not None:
                n = f['startup_compression']
                if n not in localn or remoten is None or n not in remoten:
                    out.append(('compression-not-both.startup', 'STARTUP announced compression %r; local %r, remote %r' % (n, localn, remoten),
                                'C47_compression_both_sides'))

    frames_check(obs[0], False)
    announced = None        # the COMPRESSION option actually sent in STARTUP = what the server agreed to use
    for i, r in enumerate(replies):
        prev, o = obs[i], obs[i + 1]
        k = r[0]
        if k in ('ready', 'auth_success'):
            ready_seen = True
        if k in ('ready', 'authenticate'):
            accept_seen = True
        # reported ready only after READY / AUTH_SUCCESS
        became_ready = o['reported_ready'] and not prev['reported_ready']
        if became_ready and not ready_seen:
            out.append(('ready-without-ready.%s' % k, 'connection reported ready (connected_event set, last_error None) after %s although '
                        'neither READY nor AUTH_SUCCESS was received' % k, 'C47_ready_only_after'))
        # failures
        live = (not prev['connected']) and prev['last_error'] == 'none' and prev['pending'] == 1
        if o['last_error'] == 'auth_failed' and prev['last_error'] != 'auth_failed':
            seen = replies[:i + 1]
            if not (any(x[0] == 'authenticate' for x in seen) and (cfg['auth'] == 'none' or any(x[0] == 'error' for x in seen))):
                out.append(('auth-failed-without-cause.%s' % k, 'AuthenticationFailed reported after %s without an authentication cause' % k,
                            'C47_error_kinds'))
        must_auth = live and ((k == 'authenticate' and cfg['auth'] == 'none' and last_sent in ('startup', 'credentials'))
                              or (k == 'error' and r[1] == 'auth' and last_sent in ('auth_response', 'credentials')))
        if must_auth and o['last_error'] != 'auth_failed':
            out.append(('auth-failure-not-auth-error.%s' % k, 'authentication failure (%s after %s) surfaced as %s' % (k, last_sent, o['last_error']),
                        'C47_error_kinds'))
        if o['last_error'] != 'none':
            if o['reported_ready'] or not o['connected']:
                out.append(('failure-not-reported.%s' % k, 'failure %s but connected=%s reported_ready=%s' % (o['last_error'], o['connected'], o['reported_ready']),
                            'C47_error_kinds'))
        if prev['last_error'] != 'none' and o['last_error'] != prev['last_error']:
            out.append(('failure-overwritten.%s' % k, 'last_error changed from %s to %s' % (prev['last_error'], o['last_error']), 'C47_error_kinds'))
        if live and k not in ('supported', 'ready', 'authenticate', 'challenge', 'auth_success') and not o['connected']:
            out.append(('failure-hangs.%s' % k, '%s during the handshake left the connect attempt waiting (no error, not connected)' % k, 'C47_error_kinds'))
        # the waiter (Connection.factory) reads last_error as soon as connected_event fires: a failure must be recorded BEFORE the wake-up
        if o['wake_snaps'] and not prev['connected'] and o['last_error'] != 'none' and o['wake_snaps'][0] == 'none':
            out.append(('error-recorded-after-wakeup.%s' % k, 'connected_event was set while last_error was still None (failure %s recorded afterwards): '
                        'a waiting Connection.factory returns the failed connection as ready' % o['last_error'], 'C47_ready_only_after'))
        # compression
        for f in o['sent']:
            if f['kind'] == 'startup':
                announced = f['startup_compression']
        if o['compressor'] is not None and o['compressor'] != announced:
            out.append(('compressor-not-negotiated.%s' % o['compressor'], 'compressor %r is installed although STARTUP announced COMPRESSION=%r' % (o['compressor'], announced),
                        'C47_compression_both_sides'))
        if (o['seg_lz4'] or any(f['compressed'] or f['seg_compressed'] for f in o['sent'])) and announced is None:
            out.append(('compressed-without-negotiation', 'outgoing frames/segments are compressed although STARTUP announced no COMPRESSION', 'C47_compression_both_sides'))
        frames_check(o, accept_seen)
        # ... and once accepted, the negotiated compression IS applied, in the framing of the protocol version
        for f in o['sent']:
            if f['kind'] in ('auth_response', 'credentials'):
                applied = f['seg_compressed'] if cs else f['compressed']
                if applied != (announced is not None) or (cs and not f['checksummed']):
                    out.append(('negotiated-compression-not-applied.%s' % f['kind'],
                                '%s sent with compression applied=%s checksummed=%s although STARTUP announced COMPRESSION=%r on protocol v%d'
                                % (f['kind'], applied, f['checksummed'], announced, v), 'C47_negotiated_compression_applied'))
        if became_ready and ready_seen and cs and o['seg_lz4'] != (announced is not None):
            out.append(('negotiated-compression-not-applied.ready', 'connection ready on v%d with a %s segment codec although STARTUP announced COMPRESSION=%r'
                        % (v, 'compressing' if o['seg_lz4'] else 'non-compressing', announced), 'C47_negotiated_compression_applied'))
        for attr in ('compressor', 'decompressor'):
            n = o[attr]
            if n is not None and (n not in localn or remoten is None or n not in remoten):
                out.append(('compression-not-both.%s' % attr, '%s=%r; local %r, remote %r' % (attr, n, localn, remoten), 'C47_compression_both_sides'))
        # checksumming
        if o['checksumming'] and not cs:
            out.append(('checksumming-on.v%d' % v, 'checksumming enabled on protocol v%d' % v, 'C47_checksumming_iff_v5'))
        if became_ready and ready_seen and o['checksumming'] != cs:
            out.append(('checksumming-off.v%d' % v, 'ready connection on protocol v%d has checksumming=%s' % (v, o['checksumming']), 'C47_checksumming_iff_v5'))
        for f in o['sent']:
            last_sent = f['kind']
    # what the REAL Connection.factory() does with this connect attempt
    if factory is not None:
        if factory == 'ready' and not ready_seen:
            out.append(('factory-returned-unready',
                        'Connection.factory() returned the connection as ready although neither READY nor AUTH_SUCCESS was received '
                        '(is_closed=%s, last_error=%s)' % (obs[-1]['closed'], obs[-1]['last_error']), 'C47_ready_only_after'))
        if factory != 'ready' and obs[-1]['last_error'] == 'auth_failed' and factory != 'auth_failed':
            out.append(('factory-auth-error-lost', 'authentication failure surfaced from Connection.factory() as %s' % factory, 'C47_error_kinds'))
    return out


# ------------------------------------------------------------------------------------------ case generation
SUBSETS3 = [[], [0], [1], [2], [0, 1], [1, 0], [0, 2], [1, 2], [0, 1, 2]]
LATER = [['supported', [0]], ['ready', None], ['authenticate', None], ['challenge', 'good'], ['challenge', 'bad'], ['auth_success', None],
         ['error', 'auth'], ['error', 'server'], ['error', 'protocol'], ['unexpected', None], ['disconnect', None], ['sockerr', None]]
FIRST = [['supported', s] for s in SUBSETS3] + LATER[1:]
AFTER_TERMINAL = [['ready', None], ['auth_success', None], ['disconnect', None], ['sockerr', None]]


def all_configs(tier):
    auths = ['none', 'sasl', 'dict']
    comps = [True, False, 'lz4', 'snappy', 'zstd']
    locals_ = [[], [0], [1], [0, 1], [1, 0]]
    versions = [1, 2, 3, 4, 5, 6, 65, 66]
    out = []
    for fl in ('asyncio', 'twisted'):
        for a, c, l, v in itertools.product(auths, comps, locals_, versions):
            out.append(({'flavour': fl, 'auth': a, 'compression': c, 'version': v}, l))
    return out


def enumerate_tree(H, cfg, local, maxlen=5):
    """all reply sequences of length <= maxlen, extended until the connect attempt is decided (connected_event set) and then by
    one more reply from AFTER_TERMINAL; returns the maximal ones with their observation traces"""
    leaves = []

    def rec(prefix):
        obs = H.run_case(cfg, local, prefix)
        terminal = obs[-1]['connected']
        if len(prefix) >= maxlen:
            leaves.append((prefix, obs))
            return
        if terminal:
            if len(prefix) >= 1 and obs[-2]['connected']:
                leaves.append((prefix, obs))
                return
            for r in AFTER_TERMINAL:
                rec(prefix + [r])
            return
        for r in (FIRST if not prefix else LATER):
            rec(prefix + [r])
    rec([])
    return leaves


def random_walk(H, rng, cfg, local, n=5):
    """a reply sequence biased toward legal continuations (by the last frame the client sent), with illegal ones mixed in"""
    replies = []
    phase = 'options'
    for i in range(n):
        x = rng.random()
        if x < 0.55:
            if phase == 'options':
                r = ['supported', rng.choice(SUBSETS3)]
            elif phase == 'startup':
                r = rng.choice([['ready', None], ['authenticate', None], ['authenticate', None], ['error', 'server']])
            elif phase == 'auth':
                r = rng.choice([['challenge', 'good'], ['auth_success', None], ['error', 'auth'], ['ready', None], ['authenticate', None]])
            else:
                r = rng.choice(LATER)
        else:
            r = rng.choice(FIRST if i == 0 else LATER)
        replies.append(r)
        if r[0] == 'supported' and phase == 'options':
            phase = 'startup'
        elif r[0] == 'authenticate' and phase == 'startup':
            phase = 'auth'
        elif r[0] in ('ready', 'auth_success', 'disconnect', 'sockerr', 'error', 'unexpected'):
            phase = 'done'
    return replies


def _work(args):
    """thorough tier worker: the whole tree of one configuration"""
    cfg, local = args
    from vf import hs_impl as H
    with H.patched_reactors():
        leaves = enumerate_tree(H, cfg, local)
    H.shutdown()
    out = []
    for replies, obs in leaves:
        r = summarize(cfg, local, replies, obs)
        r['sample'] = None
        out.append(r)
    return out
