"""Harness for C35: real cqlengine models with connection.execute replaced by a recorder; emitted (query, params) parsed
into the CqlSem statement AST; value-manager state captured before/after every persisting operation."""
import copy, re
from vf import cqle_stmt as H

# db column name -> model id
NAMES = {'k': 0, 'c': 1, 'st': 2, 'x': 3, 'y': 4, 's': 5, 'l': 6, 'm': 7, 'n1': 8, 'n2': 9, 'm2': 10, 'st2': 11, 'ml': 12,
         'yy': 40}          # 'yy' is an ATTRIBUTE name (db_field 'y'): it must never appear in CQL
ROW_COLS = [2, 3, 4, 5, 6, 7, 10, 11, 12]
KIND = {0: 'KScalar', 1: 'KScalar', 2: 'KScalar', 3: 'KScalar', 4: 'KScalar', 5: 'KSetC', 6: 'KListC', 7: 'KMapC', 8: 'KCounterC', 9: 'KCounterC', 10: 'KMapC', 11: 'KScalar', 12: 'KMapC'}
SCHEMA_ROW = '{| pk_col := 0; ck_col := Some 1; static_cols := [2; 11] |}'
SCHEMA_CNT = '{| pk_col := 0; ck_col := None; static_cols := [] |}'
_M = {}


def models():
    if _M:
        return _M
    from cassandra.cqlengine import columns as C
    from cassandra.cqlengine.models import Model

    class Row(Model):
        __keyspace__ = 'ks'
        __table_name__ = 't'
        k = C.Integer(partition_key=True)
        c = C.Integer(primary_key=True)
        st = C.Integer(static=True)
        x = C.Integer()
        yy = C.Integer(db_field='y')
        s = C.Set(C.Integer)
        l = C.List(C.Integer)
        m = C.Map(C.Integer, C.Integer)
        m2 = C.Map(C.Integer, C.Integer)
        st2 = C.Integer(static=True)                       # a static column declared AFTER regular ones
        ml = C.Map(C.Integer, C.List(C.Integer))          # nested collection: map<int, frozen<list<int>>>

    class Cnt(Model):
        __keyspace__ = 'ks'
        __table_name__ = 't'
        k = C.Integer(partition_key=True)
        n1 = C.Counter()
        n2 = C.Counter()
    _M.update(Row=Row, Cnt=Cnt)
    return _M


def spec_val(x):
    """python value -> spec val, canonical for CqlSem (sets and maps sorted)"""
    v = H.canon_val(x)
    if isinstance(v, list) and v[0] == 'M':
        return ['M', sorted(v[1])]
    return v


def norm_val(v):
    if isinstance(v, list) and v[0] in ('L', 'S', 'M') and not v[1]:
        return None
    return v


def capture(inst):
    """value manager state of every column, in column definition order"""
    out = []
    for name, col in inst._columns.items():
        vm = inst._values[name]
        out.append({'f': NAMES[col.db_field_name], 'part': bool(col.partition_key), 'clust': bool(col.primary_key and not col.partition_key),
                    'static': bool(col.static), 'val': raw_val(vm.value), 'prev': raw_val(vm.previous_value), 'expl': bool(vm.explicit)})
    return out


def raw_val(x):
    v = H.canon_val(x)
    return v           # dict order preserved (python equality of dicts ignores order; the model compares VMap lists, so sort)


def coq_colst(c):
    def cv(v):
        if isinstance(v, list) and v[0] == 'M':
            v = ['M', sorted(v[1])]
        return H.coq_val(v)
    return ('{| c_name := %d; c_kind := %s; c_part := %s; c_clust := %s; c_static := %s; c_val := %s; c_prev := %s; c_expl := %s |}'
            % (c['f'], KIND[c['f']], H.b(c['part']), H.b(c['clust']), H.b(c['static']), cv(c['val']), cv(c['prev']), H.b(c['expl'])))


def coq_cols(cs):
    return '[' + '; '.join(coq_colst(c) for c in cs) + ']'


# ---------------------------------------------------------------------------------------------- emitted statements -> AST
def to_ast(text, params):
    """one recorded call -> list of Gallina cql terms (a batch yields several)"""
    if text.startswith('BEGIN'):
        lines = text.split('\n')[1:-1]
    else:
        lines = [text]
    out = []
    for line in lines:
        p = H.parse_statement(line)
        parts = dict(p['parts'])

        def val(i):
            return H.coq_val(spec_val(params[str(i)]))

        def key(frs):
            kv = []
            for fr in frs:
                if not (isinstance(fr[0], tuple) and fr[0][2] == 0 and fr[0][3] == 0):
                    raise H.ParseError('non-equality WHERE in DML: %r' % line)
                kv.append('(%s, %s)' % (H.z(fr[1]), val(fr[2][0])))
            return '[' + '; '.join(kv) + ']'
        if p['kind'] == 'Insert':
            out.append('(CInsert [%s])' % '; '.join('(%s, %s)' % (H.z(fr[1]), val(fr[2][0])) for fr in parts['A']))
        elif p['kind'] == 'Update':
            sets = []
            for fr in parts['A']:
                k, f, ps = fr
                if k == 'KMapPut':
                    pv = params[str(ps[1])]
                    sets.append('(APut %s %s %s)' % (H.z(f), val(ps[0]), H.coq_val(H.canon_atom(pv)) if isinstance(pv, (list, tuple)) else val(ps[1])))
                else:
                    sets.append('(%s %s %s)' % ({'KAssign': 'ASet', 'KPlus': 'APlus', 'KMinus': 'AMinus', 'KPrepend': 'APrepend'}[k], H.z(f), val(ps[0])))
            out.append('(CUpdate [%s] %s)' % ('; '.join(sets), key(parts['W'])))
        elif p['kind'] == 'Delete':
            items = []
            for fr in parts['F']:
                k, f, ps = fr
                items.append('(DCol %s)' % H.z(f) if k == 'KDelField' else '(DKey %s %s)' % (H.z(f), val(ps[0])))
            out.append('(CDelete [%s] %s)' % ('; '.join(items), key(parts['W'])))
        else:
            raise H.ParseError('unexpected statement %r' % line)
    return out


def install_names():
    H.NAMEMAP.clear()
    H.NAMEMAP.update(NAMES)


# ---------------------------------------------------------------------------------------------- histories
SCAL = [None, 0, 1, 5, -3]
LISTS = [[], [1], [1, 2], [2, 1, 2], [1, 2, 3], [7, 1, 2], [1, 2, 9], [7, 1, 2, 9]]
SETS = [[], [1], [1, 2], [2, 3], [1, 2, 3]]
MAPS = [[], [[1, 2]], [[1, 2], [3, 4]], [[1, 5], [3, 4]], [[3, 4]], [[2, 2], [1, 2]], [[1, 2], [2, 3], [3, 4], [9, 1]]]


def gen_attr_val(rng, attr):
    if attr in ('st', 'x', 'yy', 'st2'):
        return rng.choice(SCAL)
    if attr == 'ml':
        return rng.choice([None] + [['MN', v] for v in NESTED] * 2)
    if attr == 's':
        return rng.choice([None] + [['S', v] for v in SETS] * 2)
    if attr == 'l':
        return rng.choice([None] + [['L', v] for v in LISTS] * 2)
    return rng.choice([None] + [['M', v] for v in MAPS] * 2)


ATTRS = ['st', 'x', 'yy', 's', 'l', 'm', 'm2', 'st2', 'ml']
NESTED = [[], [[1, [1, 2]]], [[1, [5]], [2, [3, 4]]], [[3, []], [1, [7]]]]


def pyv(v):
    """spec value -> python value (adds the nested-map tag 'MN' to cqle_stmt.py_val)"""
    if isinstance(v, list) and v[0] == 'MN':
        return dict((k_, list(w)) for k_, w in v[1])
    return H.py_val(v)


def gen_scenario(rng):
    """structured prefixes: the edits one save must turn into several operations at once"""
    big = [[1, 2], [2, 3], [3, 4], [9, 1]]
    r = rng.random()
    persist = [rng.choice(['save', 'batch_save', 'batch_reuse', 'batch_with_execute'])]
    if r < 0.1:       # a stored list of >= 3 elements: an interior element replaced AND growth at head / tail, in one save
        base = rng.choice([[1, 2, 3], [4, 5, 6, 7], [1, 2, 1], [3, 3, 3]])
        return [['create', {'l': ['L', base], 'x': 1}]] + ([persist] if rng.random() < 0.5 else []) + [['mut', 'l', 'edit', rng.choice([1, 2, 3])], persist]
    if r < 0.2:       # one BatchQuery object executed more than once, with non-idempotent statements (list appends) in it
        how = rng.choice(['batch_reuse', 'batch_with_execute'])
        return [['create', {'l': ['L', [1, 2]], 'x': 1}], ['mut', 'l', 'add', rng.choice([1, 2, 3])], [how],
                ['mut', 'l', 'add', rng.choice([2, 9])], ['set', 'x', rng.choice(SCAL)], [rng.choice(['batch_reuse', 'save', 'batch_with_execute'])]]
    if r < 0.28:      # in-place change of an INNER collection of a nested collection column of a persisted instance
        return [['create', {'ml': ['MN', [[1, [5]], [2, [3, 4]]]], 'x': rng.choice(SCAL)}]] + ([persist] if rng.random() < 0.3 else []) + \
               [['mut', 'ml', 'inner', rng.choice([1, 2])]] + ([['set', 'x', 7]] if rng.random() < 0.5 else []) + [rng.choice([['save'], ['update', {}], ['batch_save']])]
    if r < 0.4:       # a regular column and a static column declared after it change in the same save of a persisted instance
        return [['create', {'x': 1, 'st2': 1, 'st': rng.choice(SCAL)}], persist, ['set', 'x', rng.choice([5, -3])], ['set', 'st2', rng.choice([5, 0])]] + \
               ([['set', 'st', 0]] if rng.random() < 0.3 else []) + [[rng.choice(['save', 'batch_save'])]]
    if r < 0.5:       # blind update whose collection operand happens to be empty, on a stored non-empty collection
        a, op = rng.choice([('s', 'add'), ('s', 'remove'), ('l', 'append'), ('l', 'prepend')])
        return [['create', {'s': ['S', [1, 2]], 'l': ['L', [1, 2]], 'x': 1}],
                ['qs_update', [[a, op, ['S', []] if a == 's' else ['L', []]]] + ([['x', None, 5]] if rng.random() < 0.5 else [])]]
    if r < 0.65:      # keys dropped from two map columns in the same (possibly batched) save
        ks = rng.sample([1, 2, 3, 9], 2)
        return [['create', {'m': ['M', big], 'm2': ['M', big], 'x': rng.choice(SCAL)}],
                ['mut', 'm', 'remove', ks[0]], ['mut', 'm2', 'remove', ks[1]]] + ([['mut', 'm', 'add', 5]] if rng.random() < 0.3 else []) + [persist]
    if r < 0.8:       # a stored list grows at both ends (and other containers change) in one save
        base = rng.choice([[2, 3], [1], [4, 4], [1, 2, 3]])
        return [['create', {'l': ['L', base], 's': ['S', [1, 2]]}], ['mut', 'l', 'grow', rng.choice([1, 2, 3])]] + \
               ([['mut', 's', 'grow', 5]] if rng.random() < 0.4 else []) + [persist]
    # the clustering key of a persisted instance is reassigned
    return [['create', dict((a, gen_attr_val(rng, a)) for a in rng.sample(ATTRS, rng.randint(2, 6)))],
            ['rekey', rng.choice([3, 4, 5])]] + ([['set', 'x', rng.choice(SCAL)]] if rng.random() < 0.5 else []) + [persist]


def gen_history(rng, maxn=8):
    if rng.random() < 0.3:
        pre = gen_scenario(rng)
        tail = gen_history(rng, maxn=max(2, maxn - len(pre)))[1:]
        return pre + tail
    n = rng.randint(2, maxn)
    ops = [['create', dict((a, gen_attr_val(rng, a)) for a in rng.sample(ATTRS, rng.randint(0, 6)))]]
    for _ in range(n - 1):
        r = rng.random()
        if r < 0.3:
            a = rng.choice(ATTRS)
            ops.append(['set', a, gen_attr_val(rng, a)])
        elif r < 0.36:
            ops.append(['del', rng.choice(ATTRS)])
        elif r < 0.5:
            a = rng.choice(['s', 'l', 'm', 'm2', 'm', 'm2', 'l', 'ml', 'ml'])
            how = rng.choice(['add', 'remove', 'remove', 'clear', 'grow'] + (['inner', 'inner', 'inner'] if a == 'ml' else []) + (['edit', 'edit'] if a == 'l' else []))
            ops.append(['mut', a, how, rng.choice([1, 2, 3, 9])])
            if a in ('m', 'm2') and how == 'remove' and rng.random() < 0.6:
                ops.append(['mut', 'm2' if a == 'm' else 'm', 'remove', rng.choice([1, 2, 3, 9])])   # keys dropped from both maps in one save
        elif r < 0.54:
            ops.append(['rekey', rng.choice([3, 4, 5, 6])])
        elif r < 0.64:
            ops.append([rng.choice(['save', 'save', 'batch_save', 'batch_reuse', 'batch_with_execute'])])
        elif r < 0.8:
            ops.append(['update', dict((a, gen_attr_val(rng, a)) for a in rng.sample(ATTRS, rng.randint(0, 2)))])
        elif r < 0.84:
            ops.append(['delete'])
            ops.append(['create', dict((a, gen_attr_val(rng, a)) for a in rng.sample(ATTRS, rng.randint(0, 6)))])
        elif r < 0.92:
            ops.append(['batch_save'])
        else:
            ops.append(['qs_update', gen_qs_update(rng)])
    return ops[:maxn + 1]


def gen_qs_update(rng):
    out = []
    used = set()
    for _ in range(rng.randint(1, 3)):
        a = rng.choice(ATTRS[:6])
        if a in used:
            continue
        used.add(a)
        if a in ('st', 'x', 'yy'):
            out.append([a, None, rng.choice(SCAL)])
        elif a == 's':
            out.append([a, rng.choice([None, 'add', 'remove']), rng.choice([None] + [['S', v] for v in SETS] * 2)])
        elif a == 'l':
            out.append([a, rng.choice([None, 'append', 'prepend']), rng.choice([None] + [['L', v] for v in LISTS] * 2)])
        else:
            op = rng.choice([None, 'update', 'remove'])
            if op == 'remove':
                out.append([a, op, ['S', rng.choice([[], [1], [1, 3], [9]])]])
            else:
                out.append([a, op, rng.choice([None] + [['M', v] for v in MAPS] * 2)])
    return [o for o in out if not (o[1] and o[2] is None)]


def doc_update(row, a, op, v):
    """documented semantics of ModelQuerySet.update on the stored row (dict attr -> python value or None)"""
    old = row.get(a)
    pv = pyv(v)
    if op is None:
        row[a] = pv
    elif op == 'add':
        row[a] = set(old or ()) | pv
    elif op == 'remove' and a == 's':
        row[a] = set(old or ()) - pv
    elif op == 'append':
        row[a] = list(old or ()) + pv
    elif op == 'prepend':
        row[a] = pv + list(old or ())
    elif op == 'update':
        d = dict(old or {})
        d.update(pv)
        row[a] = d
    elif op == 'remove':
        row[a] = dict((k_, w) for k_, w in (old or {}).items() if k_ not in pv)
    if not row[a] and not isinstance(row[a], int):
        row[a] = None


ATTR_COL = {'st': 2, 'x': 3, 'yy': 4, 's': 5, 'l': 6, 'm': 7, 'm2': 10, 'st2': 11, 'ml': 12}


def row_literal(row):
    """expected stored row -> Gallina [(col, val)] over ROW_COLS, normalised (empty collection = null)"""
    items = []
    for a, f in sorted(ATTR_COL.items(), key=lambda t: t[1]):
        items.append('(%d, %s)' % (f, H.coq_val(norm_val(spec_val(row.get(a))))))
    return '[' + '; '.join(items) + ']'


def inst_row(inst):
    return dict((a, copy.deepcopy(getattr(inst, a))) for a in ATTR_COL)
