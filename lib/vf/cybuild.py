"""Build the compiled extensions of the CURRENT working tree in a scratch copy (setup.py cannot run offline:
ez_setup downloads setuptools).  The extension list is read out of setup.py by AST; fail closed if the shape changes."""
import ast, os, shutil, subprocess, sys, tempfile, textwrap

# the statement of C07: row parser / deserializers (pyx), protocol, types and utility modules, C murmur3
WANTED_PY = ['protocol', 'cqltypes', 'util']


def read_setup(repo):
    src = open(os.path.join(repo, 'setup.py')).read()
    tree = ast.parse(src)
    cands, murmur_src = None, None
    for n in ast.walk(tree):
        if isinstance(n, ast.Assign) and len(n.targets) == 1 and isinstance(n.targets[0], ast.Name):
            if n.targets[0].id == 'cython_candidates' and isinstance(n.value, ast.List):
                cands = [e.value for e in n.value.elts if isinstance(e, ast.Constant)]
            if n.targets[0].id == 'murmur3_ext' and isinstance(n.value, ast.Call):
                for kw in n.value.keywords:
                    if kw.arg == 'sources' and isinstance(kw.value, ast.List):
                        murmur_src = [e.value for e in kw.value.elts if isinstance(e, ast.Constant)]
    if not cands or not murmur_src:
        raise RuntimeError('setup.py: cannot find cython_candidates / murmur3_ext (structure changed)')
    missing = [m for m in WANTED_PY if m not in cands]
    if missing:
        raise RuntimeError('setup.py no longer cythonizes %r' % missing)
    return cands, murmur_src


def source_hash(repo):
    import hashlib
    h = hashlib.sha1()
    files = ['setup.py']
    for root, dirs, fs in os.walk(os.path.join(repo, 'cassandra')):
        dirs[:] = sorted(d for d in dirs if d != '__pycache__')
        for f in sorted(fs):
            if f.endswith(('.py', '.pyx', '.pxd', '.c', '.h')):
                files.append(os.path.relpath(os.path.join(root, f), repo))
    for f in files:
        h.update(f.encode())
        with open(os.path.join(repo, f), 'rb') as fh:
            h.update(fh.read())
    return h.hexdigest()[:16]


CACHE_ROOT = '/var/tmp/verif-c07-cache'


def build_cached(repo, jobs=16, timeout=1500):
    """Build keyed by the content hash of every source file that goes into the build: an unchanged tree reuses the
    previous build, any edit rebuilds.  At most two cached builds are kept."""
    import fcntl
    os.makedirs(CACHE_ROOT, exist_ok=True)
    key = source_hash(repo)
    dest = os.path.join(CACHE_ROOT, key)
    with open(os.path.join(CACHE_ROOT, '.lock'), 'w') as lk:
        fcntl.flock(lk, fcntl.LOCK_EX)
        if os.path.exists(os.path.join(dest, '.complete')):
            os.utime(dest)
            sos = sorted(f for f in os.listdir(os.path.join(dest, 'cassandra')) if f.endswith('.so'))
            return dest, sos, True
        scratch, sos = build(repo, jobs, timeout)
        shutil.rmtree(dest, ignore_errors=True)
        shutil.move(scratch, dest)
        open(os.path.join(dest, '.complete'), 'w').close()
        olds = sorted((d for d in os.listdir(CACHE_ROOT) if not d.startswith('.')),
                      key=lambda d: os.path.getmtime(os.path.join(CACHE_ROOT, d)))
        for d in olds[:-2]:
            shutil.rmtree(os.path.join(CACHE_ROOT, d), ignore_errors=True)
        return dest, sos, False


def build(repo, jobs=16, timeout=1500):
    """Returns the path of a scratch directory whose `cassandra` package contains the compiled extensions."""
    cands, murmur_src = read_setup(repo)
    scratch = tempfile.mkdtemp(prefix='verif-c07-', dir='/var/tmp')
    shutil.copytree(os.path.join(repo, 'cassandra'), os.path.join(scratch, 'cassandra'),
                    ignore=shutil.ignore_patterns('*.so', '__pycache__', '*.pyc', 'build'))
    script = textwrap.dedent('''
        import sys
        from setuptools import setup, Extension
        from Cython.Build import cythonize
        exts = [Extension('cassandra.cmurmur3', sources=%r)]
        exts += cythonize([Extension('cassandra.%%s' %% m, ['cassandra/%%s.py' %% m], extra_compile_args=['-Wno-unused-function', '-O1'])
                           for m in %r], nthreads=%d, exclude_failures=False, language_level=3, quiet=True)
        exts += cythonize([Extension('*', ['cassandra/*.pyx'], extra_compile_args=['-Wno-unused-function', '-O1'])],
                          nthreads=%d, language_level=3, quiet=True)
        setup(name='c07build', ext_modules=exts, script_args=['-q', 'build_ext', '--inplace', '-j', '%d'])
    ''') % (murmur_src, WANTED_PY, jobs, jobs, jobs)
    with open(os.path.join(scratch, 'build_c07.py'), 'w') as f:
        f.write(script)
    env = dict(os.environ)
    env.pop('PYTHONPATH', None)
    p = subprocess.run(['/venv/bin/python', 'build_c07.py'], cwd=scratch, env=env, stdout=subprocess.PIPE,
                       stderr=subprocess.STDOUT, text=True, timeout=timeout)
    sos = [f for f in os.listdir(os.path.join(scratch, 'cassandra')) if f.endswith('.so')]
    if p.returncode != 0 or not any(s.startswith('cmurmur3') for s in sos):
        out = p.stdout[-3000:]
        shutil.rmtree(scratch, ignore_errors=True)
        raise RuntimeError('extension build failed (rc=%d): %s' % (p.returncode, out))
    shutil.rmtree(os.path.join(scratch, 'build'), ignore_errors=True)
    return scratch, sorted(sos)
