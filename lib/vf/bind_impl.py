"""C30: drive the real PreparedStatement / BoundStatement and render cases as Gallina terms."""
import struct

TYPES = ('int', 'text', 'blob')


def _types():
    from cassandra import cqltypes as T
    return {'int': T.Int32Type, 'text': T.UTF8Type, 'blob': T.BytesType}


class _Col(object):
    def __init__(self, name):
        self.name = name


class _Table(object):
    def __init__(self, pk):
        self.partition_key = [_Col(n) for n in pk]


class _Ks(object):
    def __init__(self, tables):
        self.tables = tables


class _ClusterMeta(object):
    def __init__(self, table_pk):
        self.keyspaces = {} if table_pk is None else {'ks': _Ks({'tb': _Table(table_pk)})}


def make_prepared(case):
    """case: {'names': [...], 'types': [...], 'server_pk': [...], 'table_pk': None|[names], 'pv': int}"""
    from cassandra.protocol import ColumnMetadata
    from cassandra.query import PreparedStatement
    tm = _types()
    cm = [ColumnMetadata('ks', 'tb', 'c%d' % n, tm[t]) for n, t in zip(case['names'], case['types'])]
    tpk = None if case['table_pk'] is None else ['c%d' % n for n in case['table_pk']]
    return PreparedStatement.from_message(b'qid', cm, list(case['server_pk']), _ClusterMeta(tpk),
                                          'q', 'ks', case['pv'], [], None)


def pyval(v):
    from cassandra.query import UNSET_VALUE
    if v is None:
        return None
    k = v[0]
    if k == 'unset':
        return UNSET_VALUE
    if k == 'int':
        return v[1]
    if k == 'str':
        return ''.join(chr(c) for c in v[1])
    if k == 'bytes':
        return bytes(v[1])
    raise ValueError(v)


def classify(e):
    s = str(e)
    if isinstance(e, KeyError) and 'not found in bound dict' in s:
        return 'EKey'
    if isinstance(e, ValueError) and s.startswith('Too many arguments'):
        return 'ETooMany'
    if isinstance(e, ValueError) and s.startswith('Too few arguments'):
        return 'ETooFew'
    if isinstance(e, ValueError) and 'unsuitable protocol version' in s:
        return 'EUnsetProto'
    if isinstance(e, ValueError) and s.startswith('Cannot bind UNSET_VALUE as a part of the routing key'):
        return 'EUnsetPk'
    return 'ESer'


def wire(vals):
    from cassandra.query import UNSET_VALUE
    out = []
    for v in vals:
        if v is None:
            out.append(None)
        elif v is UNSET_VALUE:
            out.append('unset')
        else:
            out.append(list(bytes(v)))
    return out


def run_impl(case):
    """-> {'idx': routing_key_indexes or [], 'bind': ('ok', wire values) | ('err', kind), 'rk': ('none',)|('err',)|('bytes', [...])}"""
    ps = make_prepared(case)
    res = {'idx': list(ps.routing_key_indexes or [])}
    inp = case['input']
    if inp[0] == 'list':
        vals = [pyval(v) for v in inp[1]]
        if inp[1] == [] and case.get('none_input'):
            vals = None
    else:
        vals = dict(('c%d' % k, pyval(v)) for k, v in inp[1])
    try:
        bs = ps.bind(vals)
    except Exception as e:
        res['bind'] = ('err', classify(e), '%s: %s' % (type(e).__name__, str(e)[:100]))
        res['rk'] = None
        return res
    res['bind'] = ('ok', wire(bs.values))
    try:
        rk = bs.routing_key
        res['rk'] = ('none',) if rk is None else ('bytes', list(bytes(rk)))
    except Exception as e:
        res['rk'] = ('err', '%s' % type(e).__name__)
    return res


# ---------------------------------------------------------------- Gallina rendering
def zl(v):
    return '(%d)' % v if v < 0 else '%d' % v


def zlist(l):
    """Gallina list literal; long constant runs are written `repeat v (Z.to_nat n)` (coqc parses huge literals slowly)"""
    if len(l) <= 64:
        return '[' + '; '.join(zl(x) for x in l) + ']'
    segs, i, lit = [], 0, []
    while i < len(l):
        j = i
        while j < len(l) and l[j] == l[i]:
            j += 1
        if j - i >= 32:
            if lit:
                segs.append('[' + '; '.join(zl(x) for x in lit) + ']')
                lit = []
            segs.append('repeat %s (Z.to_nat %d)' % (zl(l[i]), j - i))
        else:
            lit.extend(l[i:j])
        i = j
    if lit:
        segs.append('[' + '; '.join(zl(x) for x in lit) + ']')
    return '(' + ' ++ '.join(segs) + ')'


def natlist(l):
    return '[' + '; '.join('%d%%nat' % x for x in l) + ']'


def g_bval(v):
    if v is None:
        return 'BNone'
    if v[0] == 'unset':
        return 'BUnset'
    if v[0] == 'int':
        return '(BVal (CInt %s))' % zl(v[1])
    if v[0] == 'str':
        return '(BVal (CStr %s))' % zlist(v[1])
    return '(BVal (CBytes %s))' % zlist(v[1])


def g_input(inp):
    if inp[0] == 'list':
        return '(InList [%s])' % '; '.join(g_bval(v) for v in inp[1])
    return '(InDict [%s])' % '; '.join('(%s, %s)' % (zl(k), g_bval(v)) for k, v in inp[1])


def g_types(ts):
    return '[' + '; '.join({'int': 'TInt32', 'text': 'TText', 'blob': 'TBlob'}[t] for t in ts) + ']'


def g_wire(ws):
    return '[' + '; '.join('WNull' if w is None else ('WUnset' if w == 'unset' else 'WBytes ' + zlist(w)) for w in ws) + ']'


def g_result(res):
    b = res['bind']
    if b[0] == 'err':
        return '(%s, inl %s, RkNone)' % (natlist(res['idx']), b[1])
    rk = res['rk']
    g = 'RkNone' if rk[0] == 'none' else ('RkErr' if rk[0] == 'err' else 'RkBytes ' + zlist(rk[1]))
    return '(%s, inr %s, %s)' % (natlist(res['idx']), g_wire(b[1]), g)


def g_run(case):
    tpk = 'None' if case['table_pk'] is None else '(Some %s)' % zlist(case['table_pk'])
    return 'c30_run %s %s %s %s %s %s' % (zlist(case['names']), g_types(case['types']), natlist(case['server_pk']), tpk,
                                          zl(case['pv']), g_input(case['input']))


def g_case(case, res):
    return 'c30_eqb (%s) %s' % (g_run(case), g_result(res))


# ---------------------------------------------------------------- histories on ONE BoundStatement (bind / read routing_key)
def run_history(case):
    """case: metadata as for run_impl + 'explicit': None | [bytes] + 'ops': [['bind', input] | ['read']]
    -> {'idx': [...], 'obs': [['bind', None|errkind, wire values] | ['read', rk, wire values]]}"""
    from cassandra.query import BoundStatement
    ps = make_prepared(case)
    ex = case.get('explicit')
    bs = BoundStatement(ps, routing_key=None if ex is None else bytes(ex))
    obs = []
    for op in case['ops']:
        if op[0] == 'bind':
            inp = op[1]
            vals = [pyval(v) for v in inp[1]] if inp[0] == 'list' else dict(('c%d' % k, pyval(v)) for k, v in inp[1])
            try:
                bs.bind(vals)
                e = None
            except Exception as x:
                e = classify(x)
            obs.append(['bind', e, wire(bs.values)])
        else:
            try:
                rk = bs.routing_key
                r = ('none',) if rk is None else ('bytes', list(bytes(rk)))
            except Exception as x:
                r = ('err', type(x).__name__)
            obs.append(['read', r, wire(bs.values)])
    return {'idx': list(ps.routing_key_indexes or []), 'obs': obs}


def g_rk(rk):
    return 'RkNone' if rk[0] == 'none' else ('RkErr' if rk[0] == 'err' else 'RkBytes ' + zlist(rk[1]))


def g_hist(case, model='c30_hist'):
    tpk = 'None' if case['table_pk'] is None else '(Some %s)' % zlist(case['table_pk'])
    ex = 'None' if case.get('explicit') is None else '(Some %s)' % zlist(case['explicit'])
    ops = '[' + '; '.join(('OBind %s' % g_input(op[1])) if op[0] == 'bind' else 'ORead' for op in case['ops']) + ']'
    return '%s %s %s %s %s %s %s %s' % (model, zlist(case['names']), g_types(case['types']), natlist(case['server_pk']), tpk,
                                        zl(case['pv']), ex, ops)


def g_hist_case(case, res):
    obs = []
    for o in res['obs']:
        if o[0] == 'bind':
            obs.append('ObsBind %s %s' % ('None' if o[1] is None else '(Some %s)' % o[1], g_wire(o[2])))
        else:
            obs.append('ObsRead (%s) %s' % (g_rk(o[1]), g_wire(o[2])))
    return 'obs_eqb (%s) [%s]' % (g_hist(case), '; '.join(obs))
