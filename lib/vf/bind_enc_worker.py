"""C39 worker: run cases through the protocol handlers of the tree on PYTHONPATH (the compiled build) and dump the outcomes.
usage: python -m vf.bind_enc_worker in.json out.json"""
import json, sys


def main():
    from vf import bind_enc_impl as E
    spec = json.load(open(sys.argv[1]))
    import cassandra.protocol as P
    out = {'have_cython': bool(P.HAVE_CYTHON), 'results': []}
    for case in spec['cases']:
        per = {}
        for h in spec['handlers']:
            try:
                r = E.run_impl(case, handler=h)
                per[h] = {'decoded': r.get('decoded'), 'decode_err': r.get('decode_err'), 'bind_err': r.get('bind_err'), 'pre': r.get('pre')}
            except Exception as e:
                per[h] = {'harness_err': '%s: %s' % (type(e).__name__, str(e)[:200])}
        out['results'].append(per)
    json.dump(out, open(sys.argv[2], 'w'))


if __name__ == '__main__':
    main()
