"""Schema-export producers of cassandra/metadata.py driven with hostile names / texts (C27, agent ag-lex).

Every as_cql_query / export_as_string producer that prints an identifier or a quoted literal is a SLOT producer here:
`PRODUCERS` maps "Class.method:slot" to a function text -> CQL statement with `text` put into that slot and benign values
everywhere else.  The statement of C27 on a slot is differential: the token stream of the statement produced for a hostile
text must be the token stream produced for the placeholder with the placeholder's token replaced by an identifier (resp.
string) token carrying exactly the hostile text.  `audit()` scans the source (AST) for the producers and for the
protect_name / protect_names / protect_value / cql_encode / raw '%s' sites, and fails closed when a producer method exists
that no slot drives."""
import ast, os
from collections import OrderedDict
from . import lex_oracle as LO

PH = 'zzph'          # a bare-valid, unreserved placeholder
EMPTY_MEANS_ABSENT = {'Aggregate.as_cql_query:final_func'}     # `if self.final_func`: an empty name means no FINALFUNC clause


# ---------------------------------------------------------------- tokenizer (Python twin of CqlLex.tokenize)
def tokenize(s, reserved):
    """-> list of tokens ('id', name) ('kw', word) ('str', text) ('num', z) ('p', char), or None if a quoted token is
    unterminated"""
    out, i, n = [], 0, len(s)
    while i < n:
        c = s[i]
        if c in LO.SPACE:
            i += 1
        elif c == "'" or c == '"':
            r = LO.lex_quoted_body(c, s, i + 1)
            if r is None:
                return None
            out.append(('str' if c == "'" else 'id', r[0]))
            i = r[1]
        elif c in LO.LETTERS:
            j = LO.span(LO.IDENT, s, i)
            w = LO.ascii_lower(s[i:j])
            out.append(('kw', w) if w in reserved else ('id', w))
            i = j
        elif c in LO.DIGITS:
            j = LO.span(LO.DIGITS, s, i)
            v = 0
            for d in s[i:j]:
                v = v * 10 + (ord(d) - 48)
            out.append(('num', v))
            i = j
        else:
            out.append(('p', c))
            i += 1
    return out


def tok_lit(t):
    if t[0] == 'id':
        return '(TId %s)' % LO.zstr(t[1])
    if t[0] == 'kw':
        return '(TKw %s)' % LO.zstr(t[1])
    if t[0] == 'str':
        return '(TStrLit %s)' % LO.zstr(t[1])
    if t[0] == 'num':
        return '(TNum %s)' % LO.zl(t[1])
    return '(TP %d)' % ord(t[1])


def toks_lit(ts):
    return 'None' if ts is None else '(Some [%s])' % '; '.join(tok_lit(t) for t in ts)


# ---------------------------------------------------------------- building metadata objects
def _table(MD, cls, ks='ks1', name='t1', pk=('p1',), ck=('c1',), cols=('v1',), options=None, reversed_ck=False):
    t = cls(ks, name)
    for n in pk:
        col = MD.ColumnMetadata(t, n, 'int')
        t.columns[n] = col
        t.partition_key.append(col)
    for n in ck:
        col = MD.ColumnMetadata(t, n, 'text', is_reversed=reversed_ck)
        t.columns[n] = col
        t.clustering_key.append(col)
    for n in cols:
        t.columns[n] = MD.ColumnMetadata(t, n, 'blob')
    t.options = options if options is not None else {'comment': 'c', 'gc_grace_seconds': 864000}
    return t


def _edge_table(MD, label='e1', frm='person', fpk=('pid',), fck=(), to='soft', tpk=('sid',), tck=()):
    t = _table(MD, MD.TableMetadataDSE68, options={'comment': ''})
    t.edge = MD.EdgeMetadata('ks1', 't1', label, 'ft', frm, list(fpk), list(fck), 'tt', to, list(tpk), list(tck))
    return t


def _mv(MD, ks='ks1', name='mv1', base='t1', pk=('p1',), ck=('c1',), cols=('v1',), all_cols=False):
    v = MD.MaterializedViewMetadata(ks, name, base, all_cols, 'p1 IS NOT NULL', {'comment': 'c'})
    for n in pk:
        col = MD.ColumnMetadata(v, n, 'int')
        v.columns[n] = col
        v.partition_key.append(col)
    for n in ck:
        col = MD.ColumnMetadata(v, n, 'text')
        v.columns[n] = col
        v.clustering_key.append(col)
    for n in cols:
        v.columns[n] = MD.ColumnMetadata(v, n, 'blob')
    return v


def _func(MD, ks='ks1', name='f1', args=('a1', 'a2'), monotonic_on=()):
    return MD.Function(ks, name, ['int'] * len(args), list(args), 'int', 'java', 'return 1;', True,
                       deterministic=True, monotonic=False, monotonic_on=list(monotonic_on))


def producers(MD):
    """name -> (kind, fn) with kind 'ident' | 'literal'; fn(text) -> statement"""
    P = OrderedDict()
    T, T3, T68 = MD.TableMetadata, MD.TableMetadataV3, MD.TableMetadataDSE68

    def ident(name, fn):
        P[name] = ('ident', fn)

    def literal(name, fn):
        P[name] = ('literal', fn)
    # keyspace
    ident('KeyspaceMetadata.as_cql_query:name', lambda x: MD.KeyspaceMetadata(x, True, 'SimpleStrategy', {'replication_factor': '1'}).as_cql_query())
    ident('KeyspaceMetadata.export_as_string:name', lambda x: MD.KeyspaceMetadata(x, False, 'LocalStrategy', {}).export_as_string())
    literal('NetworkTopologyStrategy.export_for_schema:dc', lambda x: MD.KeyspaceMetadata('ks1', True, 'NetworkTopologyStrategy', {x: '3'}).as_cql_query())
    literal('KeyspaceMetadata.as_cql_query:graph_engine', lambda x: MD.KeyspaceMetadata('ks1', True, 'SimpleStrategy', {'replication_factor': '1'}, graph_engine=x).as_cql_query())
    # user type
    ident('UserType.as_cql_query:keyspace', lambda x: MD.UserType(x, 'ty', ['f1', 'f2'], ['int', 'text']).as_cql_query())
    ident('UserType.as_cql_query:name', lambda x: MD.UserType('ks1', x, ['f1', 'f2'], ['int', 'text']).as_cql_query(formatted=True))
    ident('UserType.as_cql_query:field', lambda x: MD.UserType('ks1', 'ty', ['f1', x], ['int', 'text']).export_as_string())
    # aggregate
    ident('Aggregate.as_cql_query:keyspace', lambda x: MD.Aggregate(x, 'ag', ['int'], 'sf', 'int', 'ff', '0', 'int', False).as_cql_query())
    ident('Aggregate.as_cql_query:name', lambda x: MD.Aggregate('ks1', x, ['int'], 'sf', 'int', 'ff', '0', 'int', False).as_cql_query())
    ident('Aggregate.as_cql_query:state_func', lambda x: MD.Aggregate('ks1', 'ag', ['int'], x, 'int', 'ff', '0', 'int', True).export_as_string())
    ident('Aggregate.as_cql_query:final_func', lambda x: MD.Aggregate('ks1', 'ag', ['int'], 'sf', 'int', x, None, 'int', False).as_cql_query())
    # function
    ident('Function.as_cql_query:keyspace', lambda x: _func(MD, ks=x).as_cql_query())
    ident('Function.as_cql_query:name', lambda x: _func(MD, name=x).export_as_string())
    ident('Function.as_cql_query:argument', lambda x: _func(MD, args=('a1', x)).as_cql_query())
    ident('Function.as_cql_query:monotonic_on', lambda x: _func(MD, args=('a1', x), monotonic_on=(x,)).as_cql_query())
    # tables (pre-3.0, 3.0+, DSE 6.8)
    for cname, cls in (('TableMetadata', T), ('TableMetadataV3', T3), ('TableMetadataDSE68', T68)):
        ident('%s.as_cql_query:keyspace' % cname, lambda x, cls=cls: _table(MD, cls, ks=x).as_cql_query())
        ident('%s.as_cql_query:name' % cname, lambda x, cls=cls: _table(MD, cls, name=x).as_cql_query(formatted=True))
        ident('%s.as_cql_query:column' % cname, lambda x, cls=cls: _table(MD, cls, cols=('v1', x)).as_cql_query())
        ident('%s.as_cql_query:single_pk' % cname, lambda x, cls=cls: _table(MD, cls, pk=(x,), ck=()).as_cql_query())
        ident('%s.as_cql_query:single_pk_with_ck' % cname, lambda x, cls=cls: _table(MD, cls, pk=(x,)).as_cql_query())
        ident('%s.as_cql_query:composite_pk' % cname, lambda x, cls=cls: _table(MD, cls, pk=('p1', x)).as_cql_query())
        ident('%s.as_cql_query:clustering' % cname, lambda x, cls=cls: _table(MD, cls, ck=('c1', x), reversed_ck=True).as_cql_query())
        literal('%s._make_option_strings:comment' % cname, lambda x, cls=cls: _table(MD, cls, options={'comment': x}).as_cql_query())
    literal('TableMetadata._make_option_strings:compaction_class',
            lambda x: _table(MD, T, options={'compaction_strategy_class': x, 'compaction_strategy_options': '{}'}).as_cql_query())
    literal('TableMetadata._make_option_strings:compression_value',
            lambda x: _table(MD, T, options={'compression_parameters': '{"sstable_compression": %s}' % __import__('json').dumps(x)}).as_cql_query())
    literal('TableMetadataV3._make_option_strings:map_value', lambda x: _table(MD, T3, options={'compaction': {'class': x, 'k': 'v'}}).as_cql_query())
    literal('TableMetadataV3._make_option_strings:map_key', lambda x: _table(MD, T3, options={'caching': {x: 'ALL', 'zzother': 'v'}}).as_cql_query())

    def with_children(x, what):
        t = _table(MD, T3)
        if what == 'index':
            t.indexes['i'] = MD.IndexMetadata('ks1', 't1', x, 'COMPOSITES', {'target': 'v1'})
        elif what == 'trigger':
            t.triggers['g'] = MD.TriggerMetadata(t, x, {'class': 'org.C'})
        elif what == 'view':
            t.views['v'] = _mv(MD, name=x)
        return t.export_as_string()
    ident('TableMetadata.export_as_string:index_name', lambda x: with_children(x, 'index'))
    ident('TableMetadata.export_as_string:trigger_name', lambda x: with_children(x, 'trigger'))
    ident('TableMetadata.export_as_string:view_name', lambda x: with_children(x, 'view'))
    # DSE 6.8 graph
    def vertex(x):
        t = _table(MD, T68)
        t.vertex = MD.VertexMetadata('ks1', 't1', x)
        return t.as_cql_query()
    ident('TableMetadataDSE68.as_cql_query:vertex_label', vertex)
    ident('TableMetadataDSE68.as_cql_query:edge_label', lambda x: _edge_table(MD, label=x).as_cql_query())
    ident('TableMetadataDSE68._export_edge_as_cql:from_label', lambda x: _edge_table(MD, frm=x).as_cql_query())
    ident('TableMetadataDSE68._export_edge_as_cql:to_label', lambda x: _edge_table(MD, to=x).as_cql_query())
    ident('TableMetadataDSE68._export_edge_as_cql:from_single_pk', lambda x: _edge_table(MD, fpk=(x,)).as_cql_query())
    ident('TableMetadataDSE68._export_edge_as_cql:to_composite_pk', lambda x: _edge_table(MD, tpk=('sid', x)).as_cql_query())
    ident('TableMetadataDSE68._export_edge_as_cql:from_clustering', lambda x: _edge_table(MD, fck=('k1', x)).as_cql_query())
    ident('TableMetadataDSE68._export_edge_as_cql:to_clustering', lambda x: _edge_table(MD, tpk=('s1', 's2'), tck=(x,)).export_as_string())
    # index
    for kind in ('COMPOSITES', 'CUSTOM'):
        opts = {'target': 'v1'} if kind != 'CUSTOM' else {'target': 'v1', 'class_name': 'org.C'}
        ident('IndexMetadata.as_cql_query[%s]:name' % kind, lambda x, kind=kind, opts=opts: MD.IndexMetadata('ks1', 't1', x, kind, dict(opts)).as_cql_query())
        ident('IndexMetadata.as_cql_query[%s]:keyspace' % kind, lambda x, kind=kind, opts=opts: MD.IndexMetadata(x, 't1', 'i1', kind, dict(opts)).as_cql_query())
        ident('IndexMetadata.as_cql_query[%s]:table' % kind, lambda x, kind=kind, opts=opts: MD.IndexMetadata('ks1', x, 'i1', kind, dict(opts)).export_as_string())
    literal('IndexMetadata.as_cql_query[CUSTOM]:class_name', lambda x: MD.IndexMetadata('ks1', 't1', 'i1', 'CUSTOM', {'target': 'v1', 'class_name': x}).as_cql_query())
    literal('IndexMetadata.as_cql_query[CUSTOM]:option_value',
            lambda x: MD.IndexMetadata('ks1', 't1', 'i1', 'CUSTOM', OrderedDict([('target', 'v1'), ('class_name', 'org.C'), ('mode', 'CONTAINS'), ('delimiter', x)])).as_cql_query())
    literal('IndexMetadata.as_cql_query[CUSTOM]:option_key',
            lambda x: MD.IndexMetadata('ks1', 't1', 'i1', 'CUSTOM', OrderedDict([('target', 'v1'), ('class_name', 'org.C'), (x, 'v')])).export_as_string())
    # trigger
    tbl = _table(MD, T3)
    ident('TriggerMetadata.as_cql_query:name', lambda x: MD.TriggerMetadata(tbl, x, {'class': 'org.C'}).as_cql_query())
    ident('TriggerMetadata.as_cql_query:keyspace', lambda x: MD.TriggerMetadata(_table(MD, T3, ks=x), 'g1', {'class': 'org.C'}).as_cql_query())
    ident('TriggerMetadata.as_cql_query:table', lambda x: MD.TriggerMetadata(_table(MD, T3, name=x), 'g1', {'class': 'org.C'}).export_as_string())
    literal('TriggerMetadata.as_cql_query:class', lambda x: MD.TriggerMetadata(tbl, 'g1', {'class': x}).as_cql_query())
    # materialized view
    ident('MaterializedViewMetadata.as_cql_query:keyspace', lambda x: _mv(MD, ks=x).as_cql_query())
    ident('MaterializedViewMetadata.as_cql_query:name', lambda x: _mv(MD, name=x).as_cql_query(formatted=True))
    ident('MaterializedViewMetadata.as_cql_query:base_table', lambda x: _mv(MD, base=x).as_cql_query())
    ident('MaterializedViewMetadata.as_cql_query:selected_column', lambda x: _mv(MD, cols=('v1', x)).as_cql_query())
    ident('MaterializedViewMetadata.as_cql_query:single_pk', lambda x: _mv(MD, pk=(x,), ck=(), all_cols=True).as_cql_query())
    ident('MaterializedViewMetadata.as_cql_query:composite_pk', lambda x: _mv(MD, pk=('p1', x), all_cols=True).as_cql_query())
    ident('MaterializedViewMetadata.as_cql_query:clustering', lambda x: _mv(MD, ck=('c1', x), all_cols=True).export_as_string())
    # row-level access control extension
    class _T(object):
        keyspace_name, name = 'ks1', 't1'
    ident('RLACTableExtension.after_table_cql:column', lambda x: MD.RLACTableExtension.after_table_cql(_T, 'DSE_RLACA', x.encode('utf-8')))
    ident('RLACTableExtension.after_table_cql:table',
          lambda x: MD.RLACTableExtension.after_table_cql(type('T', (), {'keyspace_name': 'ks1', 'name': x}), 'DSE_RLACA', b'c1'))
    return P


# ---------------------------------------------------------------- the statement on one (slot, text)
def judge_slot(kind, fn, text, reserved, base_tokens=None):
    """None if the slot reads back; else (class, detail, statement)."""
    try:
        out = fn(text)
    except UnicodeEncodeError:
        return None          # lone surrogates cannot go through the utf-8 round trip of the RLAC blob: not a statement of C27
    toks = tokenize(out, reserved)
    if base_tokens is None:
        base_tokens = tokenize(fn(PH), reserved)
    want_tag = 'id' if kind == 'ident' else 'str'
    if (want_tag, PH) not in base_tokens:
        return ('harness', 'placeholder not found as a %s token in %r' % (want_tag, fn(PH)), out)
    expect = [(want_tag, text) if t == (want_tag, PH) else t for t in base_tokens]
    if toks == expect:
        return None
    if toks is None:
        return ('does-not-lex', 'unterminated quoted token', out)
    # what was read in the slot's place
    got = None
    for a, b in zip(toks, expect):
        if a != b:
            got = a
            break
    return ('not-read-back', 'slot reads as %r%s' % (got, '' if len(toks) == len(expect) else ' and the statement has %d tokens instead of %d' % (len(toks), len(expect))), out)


# ---------------------------------------------------------------- AST audit: no producer without a slot
def audit(repo, slot_names):
    """Every class of cassandra/metadata.py defining as_cql_query / export_for_schema / _export_* / after_table_cql /
    _make_option_strings must be driven by at least one slot; returns (inventory, problems)."""
    path = os.path.join(repo, 'cassandra/metadata.py')
    tree = ast.parse(open(path).read())
    inv, probs = {}, []
    driven = set(n.split(':')[0].split('[')[0] for n in slot_names)
    names = ('as_cql_query', 'export_for_schema', 'after_table_cql', '_make_option_strings')
    for cls in [n for n in tree.body if isinstance(n, ast.ClassDef)]:
        for m in [n for n in cls.body if isinstance(n, ast.FunctionDef)]:
            if not (m.name in names or m.name.startswith('_export_')):
                continue
            sites = {'protect_name': 0, 'protect_names': 0, 'protect_value': 0, 'cql_encode': 0, 'raw_percent_s': 0}
            for x in ast.walk(m):
                if isinstance(x, ast.Call):
                    f = x.func
                    nm = f.id if isinstance(f, ast.Name) else (f.attr if isinstance(f, ast.Attribute) else '')
                    if nm in ('protect_name', 'protect_names', 'protect_value'):
                        sites[nm] += 1
                    elif nm.startswith('cql_encode'):
                        sites['cql_encode'] += 1
                if isinstance(x, ast.Constant) and isinstance(x.value, str) and '%s' in x.value:
                    sites['raw_percent_s'] += x.value.count('%s')
            q = '%s.%s' % (cls.name, m.name)
            inv[q] = sites
            prints = any(sites.values())
            if prints and q not in driven and not _covered_by_parent(q, driven):
                probs.append('%s prints names/literals (%s) but no slot drives it' % (q, sites))
    return inv, probs


_ALIASES = {
    '_ReplicationStrategy.export_for_schema': None, 'SimpleStrategy.export_for_schema': 'KeyspaceMetadata.as_cql_query',
    'LocalStrategy.export_for_schema': 'KeyspaceMetadata.export_as_string', '_UnknownStrategy.export_for_schema': None,
    'TableMetadata._make_option_strings': 'TableMetadata._make_option_strings', 'TableExtensionInterface.after_table_cql': None,
    'RegisteredTableExtension.after_table_cql': None,
}


def _covered_by_parent(q, driven):
    if q in _ALIASES:
        a = _ALIASES[q]
        return a is None or a in driven
    return False
