"""Python twin of the CQL term parser of coq/Model/Encoder.v and the executable statement of C29 on the
implementation (agent ag-lex).  Terms are tuples: ('null',) ('bool',b) ('int',z) ('float',tok) ('nan',) ('inf',neg)
('str',s) ('hex',bytes) ('uuid',text) ('list',[..]) ('braces',[..]) ('map',[(k,v)..]) ('tuple',[..])."""
import datetime, ipaddress, re, struct, uuid
from decimal import Decimal
from . import lex_oracle as LO

HEX = '0123456789abcdefABCDEF'
DELIMS = ',]}): ;\n' 


def lex_number(s):
    i = 1 if s[:1] == '-' else 0
    j = LO.span(LO.DIGITS, s, i)
    if j == i:
        return None
    isf = False
    k = j
    if s[k:k + 1] == '.':
        k = LO.span(LO.DIGITS, s, k + 1)
        isf = True
    if s[k:k + 1] in ('e', 'E') and s[k:k + 1]:
        m = k + 1
        if s[m:m + 1] in ('+', '-') and s[m:m + 1]:
            m += 1
        n = LO.span(LO.DIGITS, s, m)
        if n > m:
            k = n
            isf = True
    return isf, s[:k], s[k:]


def uuid_split(s):
    i = 0
    for grp, n in enumerate((8, 4, 4, 4, 12)):
        for _ in range(n):
            if i >= len(s) or s[i] not in HEX:
                return None
            i += 1
        if grp < 4:
            if i >= len(s) or s[i] != '-':
                return None
            i += 1
    return s[i:]


def parse_scalar(s):
    if not s:
        return None
    c = s[0]
    if c == "'":
        r = LO.lex_quoted_body("'", s, 1)
        return None if r is None else (('str', r[0]), s[r[1]:])
    r = uuid_split(s)
    if r is not None:
        return ('uuid', s[:36]), r
    if c in LO.LETTERS:
        w, r = LO.lex_word(s)
        t = {'null': ('null',), 'true': ('bool', True), 'false': ('bool', False), 'nan': ('nan',), 'infinity': ('inf', False)}.get(w)
        return None if t is None else (t, r)
    if c == '-' and s[1:2] and s[1] in LO.LETTERS:
        w, r = LO.lex_word(s[1:])
        t = {'nan': ('nan',), 'infinity': ('inf', True)}.get(w)
        return None if t is None else (t, r)
    n = lex_number(s)
    if n is None:
        return None
    if not n[2] or n[2][0] in DELIMS:
        if n[0]:
            return ('float', n[1]), n[2]
        z = LO.lex_integer(s)
        return None if z is None else (('int', z[0]), z[1])
    if c == '0' and s[1:2] in ('x', 'X') and s[1:2]:
        j = LO.span(HEX, s, 2)
        h = s[2:j]
        if len(h) % 2:
            return None
        return ('hex', bytes(int(h[k:k + 2], 16) for k in range(0, len(h), 2))), s[j:]
    return None


def skip(s):
    return s[LO.span(LO.SPACE, s):]


def expect(c, s):
    s = skip(s)
    return s[1:] if s[:1] == c else None


def parse_term(s, depth=0):
    if not s or depth > 200:
        return None
    c = s[0]
    if c in '[(':
        close = ']' if c == '[' else ')'
        tag = 'list' if c == '[' else 'tuple'
        r = expect(close, s[1:])
        if r is not None:
            return (tag, []), r
        e = parse_elems(skip(s[1:]), depth + 1)
        if e is None:
            return None
        r = expect(close, e[1])
        return None if r is None else ((tag, e[0]), r)
    if c == '{':
        r = expect('}', s[1:])
        if r is not None:
            return ('braces', []), r
        m = parse_entries(skip(s[1:]), depth + 1)
        if m is not None:
            r = expect('}', m[1])
            if r is not None:
                return ('map', m[0]), r
        e = parse_elems(skip(s[1:]), depth + 1)
        if e is None:
            return None
        r = expect('}', e[1])
        return None if r is None else (('braces', e[0]), r)
    x = parse_scalar(s)
    if x is None:
        return None
    if x[1] and x[1][0] not in DELIMS:
        return None
    return x


def parse_elems(s, depth):
    out = []
    while True:
        t = parse_term(s, depth)
        if t is None:
            return None
        out.append(t[0])
        r = expect(',', t[1])
        if r is None:
            return out, t[1]
        s = skip(r)


def parse_entries(s, depth):
    out = []
    while True:
        k = parse_term(s, depth)
        if k is None:
            return None
        r = expect(':', k[1])
        if r is None:
            return None
        v = parse_term(skip(r), depth)
        if v is None:
            return None
        out.append((k[0], v[0]))
        r = expect(',', v[1])
        if r is None:
            return out, v[1]
        s = skip(r)


def read_decimal(tok):
    """java.math.BigDecimal(String) -> (unscaled, scale)"""
    m = re.fullmatch(r'(-?)(\d+)(?:\.(\d*))?(?:[eE]\+?(-?\d+))?', tok)
    if not m:
        return None
    neg, ip, fp, ex = m.groups()
    fp = fp or ''
    u = int(ip + fp)
    return (-u if neg else u), len(fp) - (int(ex) if ex else 0)


# ---------------------------------------------------------------- the statement of C29 on one (value, literal)
def dbits(x):
    return struct.pack('>d', x)


def same_value(v, t):
    """Does the parsed term t denote, for the CQL type the encoder targets for v, the value the prepared path would
    send (cassandra.cqltypes serialisers)?  Returns None if yes, else a short reason."""
    from cassandra import cqltypes as CT
    from cassandra import util as U
    tag = t[0]
    if v is None:
        return None if tag == 'null' else 'not null'
    if isinstance(v, bool):
        return None if t == ('bool', bool(v)) else 'not the boolean'
    if isinstance(v, int):
        return None if t == ('int', int(v)) else 'not the integer'
    if isinstance(v, float):
        if v != v:
            return None if tag == 'nan' else 'not NaN'
        if v in (float('inf'), float('-inf')):
            return None if t == ('inf', v < 0) else 'not the infinity'
        if tag == 'float' or tag == 'int':
            got = float(t[1])
            return None if CT.DoubleType.serialize(float(v), 4) == dbits(got) else 'a different double'
        return 'not a number'
    if isinstance(v, Decimal):
        if not v.is_finite():
            return 'non-finite decimal'
        if tag == 'int':
            got = (t[1], 0)
        elif tag == 'float':
            got = read_decimal(t[1])
        else:
            return 'not a number'
        wire = CT.DecimalType.serialize(v, 4)
        scale = struct.unpack('>i', wire[:4])[0]
        unscaled = int.from_bytes(wire[4:], 'big', signed=True)
        return None if got == (unscaled, scale) else 'decimal %r (unscaled, scale) != prepared %r' % (got, (unscaled, scale))
    if isinstance(v, str):
        return None if t == ('str', str.__str__(v)) else 'not the text'
    if isinstance(v, (bytes, bytearray, memoryview)):
        return None if t == ('hex', bytes(v)) else 'not the blob'
    if isinstance(v, uuid.UUID):
        if tag != 'uuid':
            return 'not a uuid'
        return None if uuid.UUID(t[1]).bytes == CT.UUIDType.serialize(v, 4) else 'a different uuid'
    if isinstance(v, datetime.datetime):
        want = struct.unpack('>q', CT.DateType.serialize(v, 4))[0]
        return None if t == ('int', want) else 'not the millisecond timestamp'
    if isinstance(v, U.Date):
        want = struct.unpack('>I', CT.SimpleDateType.serialize(v, 4))[0]
        return None if t == ('int', want) else 'not the day number'
    if isinstance(v, datetime.date):
        if tag != 'str':
            return 'not a quoted date'
        m = re.fullmatch(r'(-?\d+)-(\d{2})-(\d{2})', t[1])
        if not m:
            return 'not yyyy-mm-dd'
        y, mo, d = int(m.group(1)), int(m.group(2)), int(m.group(3))
        want = struct.unpack('>I', CT.SimpleDateType.serialize(v, 4))[0]
        try:
            got = (datetime.date(y, mo, d) - datetime.date(1970, 1, 1)).days + 2 ** 31
        except ValueError:
            return 'invalid date text'
        return None if got == want else 'a different date'
    if isinstance(v, (datetime.time, U.Time)):
        if tag != 'str':
            return 'not a quoted time'
        m = re.fullmatch(r'(\d{2}):(\d{2}):(\d{2})(?:\.(\d{1,9}))?', t[1])
        if not m:
            return 'not hh:mm:ss[.fffffffff]'
        h, mi, sec, fr = m.groups()
        got = (int(h) * 3600 + int(mi) * 60 + int(sec)) * 10 ** 9 + int((fr or '').ljust(9, '0'))
        want = struct.unpack('>q', CT.TimeType.serialize(v, 4))[0]
        return None if got == want else 'a different time'
    if isinstance(v, (ipaddress.IPv4Address, ipaddress.IPv6Address)):
        if tag != 'str':
            return 'not a quoted address'
        try:
            got = ipaddress.ip_address(t[1]).packed
        except ValueError:
            return 'not an address'
        return None if got == v.packed else 'a different address'
    from cassandra.encoder import ValueSequence
    if isinstance(v, ValueSequence):
        if tag != 'tuple' or len(t[1]) != len(v):
            return 'not the value list'
        return _all(zip(list(v), t[1]))
    if isinstance(v, (list, tuple)):
        if tag != 'list' or len(t[1]) != len(v):
            return 'not a list literal of the same length'
        return _all(zip(list(v), t[1]))
    if isinstance(v, (set, frozenset, U.sortedset)):
        if tag != 'braces' or len(t[1]) != len(v):
            return 'not a set literal of the same size'
        return _all(zip(list(v), t[1]))
    if isinstance(v, (dict, U.OrderedMap)):
        items = list(v.items())
        if not items:
            return None if t == ('braces', []) else 'not {}'
        if tag != 'map' or len(t[1]) != len(items):
            return 'not a map literal of the same size'
        return _all([(k, tk) for (k, _), (tk, _) in zip(items, t[1])] + [(x, tx) for (_, x), (_, tx) in zip(items, t[1])])
    return 'unsupported python type %s' % type(v).__name__


def _all(pairs):
    for v, t in pairs:
        r = same_value(v, t)
        if r is not None:
            return r
    return None


# ---------------------------------------------------------------- Gallina literals
def term_lit(t):
    tag = t[0]
    if tag == 'null':
        return 'TNull'
    if tag == 'bool':
        return '(TBool %s)' % ('true' if t[1] else 'false')
    if tag == 'int':
        return '(TInt %s)' % LO.zl(t[1])
    if tag == 'float':
        return '(TFloat %s)' % LO.zstr(t[1])
    if tag == 'nan':
        return 'TNan'
    if tag == 'inf':
        return '(TInf %s)' % ('true' if t[1] else 'false')
    if tag == 'str':
        return '(TStr %s)' % LO.zstr(t[1])
    if tag == 'hex':
        return '(THex %s)' % LO.zlist(list(t[1]))
    if tag == 'uuid':
        return '(TUuid %s)' % LO.zstr(t[1])
    if tag in ('list', 'braces', 'tuple'):
        body = 'TNil'
        for x in reversed(t[1]):
            body = '(TCons %s %s)' % (term_lit(x), body)
        return '(%s %s)' % ({'list': 'TList', 'braces': 'TBraces', 'tuple': 'TTuple'}[tag], body)
    if tag == 'map':
        body = 'TMNil'
        for k, v in reversed(t[1]):
            body = '(TMCons %s %s %s)' % (term_lit(k), term_lit(v), body)
        return '(TMap %s)' % body
    raise ValueError(t)


def opt_term_lit(r):
    return 'None' if r is None else '(Some (%s, %s))' % (term_lit(r[0]), LO.zstr(r[1]))
