"""The REAL cassandra.io.asyncioreactor.AsyncioConnection without a socket: handle_read / handle_write / close / _close /
push are the reactor's own code; only loop.sock_recv / loop.sock_sendall are scripted (bytes, EOF or an exception) and the
event loop is stepped by hand, so that "the deferred half of close() has not run yet" is a state the history can stay in."""
import asyncio, errno, socket, ssl, struct, types
from threading import get_ident
from vf.impl import import_cluster
import_cluster()
from cassandra.connection import Connection, ConnectionShutdown, ConnectionBusy
from cassandra.io.asyncioreactor import AsyncioConnection
from cassandra.protocol import QueryMessage
from vf.conn_impl import frame, body_for


class FakeSock(object):
    def fileno(self):
        return 987654

    def close(self):
        pass


ERRORS = {
    'ECONNRESET': lambda: ConnectionResetError(errno.ECONNRESET, 'reset'),
    'EPIPE': lambda: BrokenPipeError(errno.EPIPE, 'pipe'),
    'ETIMEDOUT': lambda: TimeoutError(errno.ETIMEDOUT, 'timed out'),
    'EHOSTUNREACH': lambda: OSError(errno.EHOSTUNREACH, 'no route'),
    'ENETUNREACH': lambda: OSError(errno.ENETUNREACH, 'net unreachable'),
    'SSLError': lambda: ssl.SSLError(1, 'tls alert'),
}


class Aio(object):
    def __init__(self, n_requests=2, raising=()):
        self.loop = asyncio.new_event_loop()
        loop = self.loop
        cls = type('NoSockAsyncioConnection', (AsyncioConnection,), {'_loop': loop, '_loop_thread': types.SimpleNamespace(ident=get_ident())})
        c = cls.__new__(cls)
        c.max_in_flight = 8
        Connection.__init__(c, host='127.0.0.1', protocol_version=4)
        c._socket = FakeSock()
        c._write_queue = asyncio.Queue()
        c._write_queue_lock = asyncio.Lock()
        c._read_watcher = c._write_watcher = None
        self.conn = c
        self.recv_script, self.send_script = [], []
        self.escaped = []
        self.counts = {}
        self.events = []
        self.ops = []
        self.raising = set(raising)
        h = self

        async def sock_recv(sock, n):
            if not h.recv_script:
                raise asyncio.CancelledError()
            x = h.recv_script.pop(0)
            if isinstance(x, BaseException):
                raise x
            return x

        async def sock_sendall(sock, data):
            if h.send_script:
                x = h.send_script.pop(0)
                if isinstance(x, BaseException):
                    raise x
        loop.sock_recv, loop.sock_sendall = sock_recv, sock_sendall
        for r in range(1, n_requests + 1):
            self.send(r)

    def cb(self, tok):
        def f(resp):
            c = self.counts.setdefault(tok, [0, 0, 0])
            if isinstance(resp, ConnectionShutdown):
                c[2] += 1
                self.events.append([3, tok])
                if tok in self.raising:
                    raise RuntimeError('handler raises')
            elif isinstance(resp, Exception) and not hasattr(resp, 'to_exception'):
                c[1] += 1
                self.events.append([2, tok])
            else:
                c[0] += 1
                self.events.append([1, resp.stream_id, tok])
        return f

    def send(self, tok):
        c = self.conn
        with c.lock:
            if not c.in_flight < c.max_request_id:
                return None
            c.in_flight += 1
            rid = c.get_request_id()
        self.ops.append('Borrow')
        self.events.append([8, rid])
        try:
            c.send_msg(QueryMessage(query='SELECT 1', consistency_level=1), rid, self.cb(tok))
        except ConnectionShutdown:
            self.ops.append('SendCheck %d' % rid)
            self.events.append([6, rid])
            return 'refused'
        self.ops += ['SendCheck %d' % rid, 'SendReg %d %d' % (rid, tok)]
        self.events.append([0, rid, tok])
        return rid

    def step_loop(self):
        self.loop.run_until_complete(asyncio.sleep(0))
        self.loop.run_until_complete(asyncio.sleep(0))

    def run_coro(self, coro):
        async def guard():
            try:
                await asyncio.wait_for(coro, timeout=0.05)
            except asyncio.TimeoutError:
                pass
        try:
            self.loop.run_until_complete(guard())
        except BaseException as e:      # the reader/writer task died with this exception: nobody retrieves it in the driver
            self.escaped.append(repr(e))

    def pending(self):
        return [v[0] for v in self.conn._requests.values()]

    def finish(self):
        try:
            self.loop.close()
        except Exception:
            pass


def scenario(name, arg, n_requests, raising):
    """returns (Aio, expected_failed: bool, model ops or None)"""
    a = Aio(n_requests, raising)
    c = a.conn
    ops = None
    if name == 'recv_error':
        a.recv_script = [ERRORS[arg]()]
        a.run_coro(c.handle_read())
        a.step_loop()
        ops = ['DefunctFlag', 'Close', 'CloseRun', 'ErrCp', 'ErrSwap']
    elif name == 'send_error':
        a.send_script = [ERRORS[arg]()]
        a.step_loop()                       # the queued _push_msg tasks fill the write queue
        a.run_coro(c.handle_write())
        a.step_loop()
        ops = ['DefunctFlag', 'Close', 'CloseRun', 'ErrCp', 'ErrSwap']
    elif name == 'eof':
        a.recv_script = [b'']
        a.run_coro(c.handle_read())
        a.step_loop()
        ops = ['Close', 'CloseRun']
    elif name == 'close':
        c.close()
        a.step_loop()
        ops = ['Close', 'CloseRun']
    elif name == 'defunct':
        c.defunct(Exception('x'))
        a.step_loop()
        ops = ['DefunctFlag', 'Close', 'ErrCp', 'ErrSwap', 'CloseRun']
    elif name == 'close_then_defunct_before_deferred_half':
        c.close()                            # only is_closed; _close() is queued on the loop
        c.defunct(Exception('heartbeat failure reported meanwhile'))
        a.step_loop()                        # now the loop runs the deferred half
        ops = ['Close', 'DefunctFlag', 'CloseRun']
    elif name == 'close_run_then_defunct':
        c.close()
        a.step_loop()
        c.defunct(Exception('late'))
        a.step_loop()
        ops = ['Close', 'CloseRun', 'DefunctFlag']
    elif name == 'defunct_then_close':
        c.defunct(Exception('x'))
        c.close()
        a.step_loop()
        ops = ['DefunctFlag', 'Close', 'ErrCp', 'ErrSwap', 'CloseRun', 'Close']
    elif name == 'decode_error_frame':
        op, body = body_for('DFail')
        rid = sorted(c._requests)[0] if c._requests else 0
        a.recv_script = [frame(rid, op, body)]
        a.run_coro(c.handle_read())
        a.step_loop()
    elif name == 'close_then_bad_frame_same_read':
        # a handler closes the connection; a later frame of the same read does not decode: defunct() lands before _close() ran
        c.close()
        op, body = body_for('DFail')
        rid = sorted(c._requests)[0] if c._requests else 0
        c._iobuf.write(frame(rid, op, body))
        c.process_io_buffer()
        a.step_loop()
    return a, ops


SCENARIOS = ([('recv_error', e) for e in ERRORS] + [('send_error', e) for e in ERRORS] +
             [('eof', None), ('close', None), ('defunct', None), ('close_then_defunct_before_deferred_half', None),
              ('close_run_then_defunct', None), ('defunct_then_close', None), ('decode_error_frame', None),
              ('close_then_bad_frame_same_read', None)])
