"""C36 harness: column/value specs (JSON-able) -> real cqlengine columns and Python values, Gallina literals of
Python values / CQL values, a struct-level decoder of cassandra.cqltypes serialisations, harness time zones."""
import datetime as dtm
import decimal, socket, struct, uuid

EPOCH = dtm.datetime(1970, 1, 1)
US_DAY = 86400 * 10 ** 6


def wall_us(dt):
    """wall-clock microseconds since 1970-01-01T00:00 of the datetime's own fields (exact integer arithmetic)"""
    td = dt.replace(tzinfo=None) - EPOCH
    return (td.days * 86400 + td.seconds) * 10 ** 6 + td.microseconds


def rule_dst(wall):
    day = wall // US_DAY
    return 7200 * 10 ** 6 if 80 <= day % 365 < 300 else 3600 * 10 ** 6


def rule_west(wall):
    day = wall // US_DAY
    return -14400 * 10 ** 6 if 60 <= day % 365 < 310 else -18000 * 10 ** 6


def rule_fixed(wall):
    return 19800 * 10 ** 6


class RuleZone(dtm.tzinfo):
    """fixed tzinfo subclass: utcoffset is a rule on the wall clock (the same rule is zone_<name> in Model/Columns.v)"""
    def __init__(self, name, rule):
        self.name, self.rule = name, rule

    def utcoffset(self, dt):
        return dtm.timedelta(microseconds=self.rule(wall_us(dt)))

    def dst(self, dt):
        return dtm.timedelta(0)

    def tzname(self, dt):
        return self.name

    def __repr__(self):
        return 'RuleZone(%s)' % self.name

    def __deepcopy__(self, memo):
        return self


ZONES = {'dst': RuleZone('dst', rule_dst), 'west': RuleZone('west', rule_west), 'fixed': RuleZone('fixed', rule_fixed)}

SCALARS = ['Integer', 'TinyInt', 'SmallInt', 'BigInt', 'VarInt', 'Counter', 'Text', 'Ascii', 'Blob', 'Boolean', 'Float',
           'Double', 'Decimal', 'UUID', 'TimeUUID', 'Date', 'Time', 'DateTime', 'Duration', 'Inet']
GAL_COL = {'Integer': 'CInteger', 'TinyInt': 'CTinyInt', 'SmallInt': 'CSmallInt', 'BigInt': 'CBigInt', 'VarInt': 'CVarInt',
           'Counter': 'CCounter', 'Text': 'CText', 'Ascii': 'CAscii', 'Blob': 'CBlob', 'Boolean': 'CBoolean',
           'Float': 'CFloat', 'Double': 'CDouble', 'Decimal': 'CDecimal', 'UUID': 'CUUID', 'TimeUUID': 'CTimeUUID',
           'Date': 'CDate', 'Time': 'CTime', 'DateTime': 'CDateTime', 'Duration': 'CDuration', 'Inet': 'CInet'}

_udt_counter = [0]


def build_col(spec):
    """spec: ['Integer'] | ['List', s] | ['Set', s] | ['Map', k, v] | ['Tuple', s...] | ['UDT', s...]"""
    from cassandra.cqlengine import columns as C
    from cassandra.cqlengine.usertype import UserType
    k = spec[0]
    if k in SCALARS:
        return getattr(C, k)()
    if k == 'List':
        return C.List(build_col(spec[1]))
    if k == 'Set':
        return C.Set(build_col(spec[1]))
    if k == 'Map':
        return C.Map(build_col(spec[1]), build_col(spec[2]))
    if k == 'Tuple':
        return C.Tuple(*[build_col(s) for s in spec[1:]])
    if k == 'UDT':
        _udt_counter[0] += 1
        ns = {'__type_name__': 'vf_udt_%d' % _udt_counter[0]}
        for i, s in enumerate(spec[1:]):
            ns['f%d' % i] = build_col(s)
        return C.UserDefinedType(type('VfUdt%d' % _udt_counter[0], (UserType,), ns))
    raise ValueError(spec)


def gal_col(spec):
    k = spec[0]
    if k in GAL_COL:
        return GAL_COL[k]
    if k == 'List':
        return '(CList %s)' % gal_col(spec[1])
    if k == 'Set':
        return '(CSet %s)' % gal_col(spec[1])
    if k == 'Map':
        return '(CMap %s %s)' % (gal_col(spec[1]), gal_col(spec[2]))
    if k == 'Tuple':
        return '(CTuple [%s])' % '; '.join(gal_col(s) for s in spec[1:])
    if k == 'UDT':
        return '(CUDT [%s])' % '; '.join(gal_col(s) for s in spec[1:])
    raise ValueError(spec)


def build_val(vs, col=None):
    """value spec (JSON-able, tagged lists) -> Python object; col = the real column (needed for UDT instances)"""
    from cassandra import util
    t = vs[0]
    if t == 'none':
        return None
    if t == 'bool':
        return bool(vs[1])
    if t == 'int':
        return int(vs[1])
    if t == 'float':
        return float.fromhex(vs[1]) if vs[1] not in ('nan', 'inf', '-inf') else float(vs[1])
    if t == 'str':
        return ''.join(chr(c) for c in vs[1])
    if t == 'bytes':
        return bytes.fromhex(vs[1])
    if t == 'bytearray':
        return bytearray.fromhex(vs[1])
    if t == 'decimal':
        return decimal.Decimal(vs[1])
    if t == 'numstr':
        return vs[1]
    if t == 'uuid':
        return uuid.UUID(int=int(vs[1]))
    if t == 'inet':
        return vs[1]
    if t == 'date':
        return dtm.date.fromordinal(719163 + vs[1])
    if t == 'datetime':
        tz = ZONES[vs[2]] if vs[2] else None
        return (EPOCH + dtm.timedelta(microseconds=vs[1])).replace(tzinfo=tz)
    if t == 'time':
        us = vs[1]
        return dtm.time(us // 3600000000, us // 60000000 % 60, us // 1000000 % 60, us % 1000000)
    if t == 'udate':
        return util.Date(vs[1])
    if t == 'utime':
        return util.Time(vs[1])
    if t == 'duration':
        return util.Duration(vs[1], vs[2], vs[3])
    subs = col.types if col is not None and hasattr(col, 'types') else None
    if t == 'list':
        return [build_val(x, subs[0] if subs else None) for x in vs[1]]
    if t == 'set':
        return set(build_val(x, subs[0] if subs else None) for x in vs[1])
    if t == 'tuple':
        n = len(vs[1])
        if subs and len(subs) > 1:
            return tuple(build_val(x, subs[i] if i < len(subs) else None) for i, x in enumerate(vs[1]))
        return tuple(build_val(x, subs[0] if subs else None) for x in vs[1])
    if t == 'dict':
        return dict((build_val(k, subs[0] if subs else None), build_val(v, subs[1] if subs else None)) for k, v in vs[1])
    if t == 'udt':
        fields = list(col.user_type._fields.items())
        kw = {}
        for (name, f), x in zip(fields, vs[1]):
            kw[name] = build_val(x, f)
        return col.user_type(**kw)
    raise ValueError(vs)


def z(v):
    return '(%d)' % v if v < 0 else '%d' % v


def zl(l):
    return '[' + '; '.join(z(x) for x in l) + ']'


def float_dy(x):
    n, d = x.as_integer_ratio()
    e = -(d.bit_length() - 1)
    while n != 0 and n % 2 == 0:        # odd mantissa: |m| < 2^53 for every finite double
        n //= 2
        e += 1
    return n, e


def float_spec(x):
    if x != x:
        return 0
    if x == float('inf'):
        return 1
    if x == float('-inf'):
        return 2
    if x == 0.0 and str(x).startswith('-'):
        return 3
    return None


class Unprintable(Exception):
    pass


def gal_py(o, spec=None):
    """Python object -> Gallina pyval literal.  spec (column spec) disambiguates Inet strings and orders UDT fields."""
    from cassandra import util
    from cassandra.cqlengine.usertype import BaseUserType
    k = spec[0] if spec else None
    if o is None:
        return 'PNone'
    if isinstance(o, bool):
        return '(PBool %s)' % ('true' if o else 'false')
    if isinstance(o, int):
        return '(PInt %s)' % z(o)
    if isinstance(o, float):
        s = float_spec(o)
        if s is not None:
            return '(PFloatSpec %d)' % s
        return '(PFloat %s %s)' % tuple(z(a) for a in float_dy(o))
    if isinstance(o, str):
        if k == 'Decimal':
            raise Unprintable('numeric string for a Decimal column (Decimal() parsing is not modelled)')
        if k == 'Inet':
            fam = socket.AF_INET6 if ':' in o else socket.AF_INET
            return '(PInet %s)' % zl(list(socket.inet_pton(fam, o)))
        return '(PStr %s)' % zl([ord(c) for c in o])
    if isinstance(o, bytearray):
        return '(PByteArray %s)' % zl(list(o))
    if isinstance(o, bytes):
        return '(PBytes %s)' % zl(list(o))
    if isinstance(o, decimal.Decimal):
        sign, digits, exp = o.as_tuple()
        if not isinstance(exp, int):
            raise Unprintable('non-finite decimal')
        return '(PDecimal %s %s %s)' % ('true' if sign else 'false', z(int(''.join(map(str, digits)) or '0')), z(exp))
    if isinstance(o, uuid.UUID):
        return '(PUuid %s)' % z(o.int)
    if isinstance(o, dtm.datetime):
        tz = o.tzinfo
        if tz is None:
            return '(PDatetime %s None)' % z(wall_us(o))
        if not isinstance(tz, RuleZone):
            raise Unprintable('foreign tzinfo')
        return '(PDatetime %s (Some zone_%s))' % (z(wall_us(o)), tz.name)
    if isinstance(o, dtm.date):
        return '(PDate %s)' % z(o.toordinal() - 719163)
    if isinstance(o, dtm.time):
        return '(PTimeOfDay %s)' % z(((o.hour * 60 + o.minute) * 60 + o.second) * 10 ** 6 + o.microsecond)
    if isinstance(o, util.Date):
        return '(PUtilDate %s)' % z(o.days_from_epoch)
    if isinstance(o, util.Time):
        return '(PUtilTime %s)' % z(o.nanosecond_time)
    if isinstance(o, util.Duration):
        return '(PDuration %s %s %s)' % (z(o.months), z(o.days), z(o.nanoseconds))
    sub = spec[1:] if spec else []
    if isinstance(o, list):
        return '(PList [%s])' % '; '.join(gal_py(x, _sub(k, sub, i)) for i, x in enumerate(o))
    if isinstance(o, tuple):
        return '(PTuple [%s])' % '; '.join(gal_py(x, _sub(k, sub, i)) for i, x in enumerate(o))
    if isinstance(o, (set, frozenset, util.SortedSet)):
        return '(PSet [%s])' % '; '.join(gal_py(x, _sub(k, sub, 0)) for x in o)
    if isinstance(o, dict):
        return '(PDict [%s])' % '; '.join('(%s, %s)' % (gal_py(a, _sub(k, sub, 0)), gal_py(b, _sub(k, sub, 1))) for a, b in o.items())
    if isinstance(o, BaseUserType):
        names = list(o._fields.keys())
        return '(PUdt [%s])' % '; '.join(gal_py(getattr(o, n), _sub(k, sub, i)) for i, n in enumerate(names))
    raise Unprintable(type(o).__name__)


def _sub(kind, sub, i):
    if not sub:
        return None
    if kind in ('Tuple', 'UDT', 'Map'):
        return sub[i] if i < len(sub) else None
    return sub[0]


# ---------------------------------------------------------------------- struct-level decoder of cqltypes output
def decode(t, b):
    """cassandra.cqltypes class + serialised bytes -> tagged CQL value tree (independent of the driver's deserialisers)"""
    from cassandra import cqltypes as T
    name = t.typename
    if issubclass(t, T.UserType) or issubclass(t, T.TupleType):
        out, p = [], 0
        for st in t.subtypes:
            if p >= len(b):
                break
            n = struct.unpack('>i', b[p:p + 4])[0]
            p += 4
            if n < 0:
                out.append(('VNull',))
            else:
                out.append(decode(st, b[p:p + n]))
                p += n
        return ('VUdt' if issubclass(t, T.UserType) else 'VTuple', tuple(out))
    if name in ('list', 'set'):
        n = struct.unpack('>i', b[:4])[0]
        p, out = 4, []
        for _ in range(n):
            ln = struct.unpack('>i', b[p:p + 4])[0]
            p += 4
            out.append(decode(t.subtypes[0], b[p:p + ln]))
            p += ln
        return ('VList' if name == 'list' else 'VSet', tuple(out))
    if name == 'map':
        n = struct.unpack('>i', b[:4])[0]
        p, out = 4, []
        for _ in range(n):
            kv = []
            for st in t.subtypes:
                ln = struct.unpack('>i', b[p:p + 4])[0]
                p += 4
                kv.append(decode(st, b[p:p + ln]))
                p += ln
            out.append(tuple(kv))
        return ('VMap', tuple(out))
    if name in ('int', 'tinyint', 'smallint', 'bigint', 'counter', 'varint'):
        want = {'int': 4, 'tinyint': 1, 'smallint': 2, 'bigint': 8, 'counter': 8}.get(name)
        if want is not None and len(b) != want:
            raise ValueError('bad width for %s: %d' % (name, len(b)))
        return ('VInt', int.from_bytes(b, 'big', signed=True))
    if name in ('text', 'varchar', 'ascii'):
        return ('VText', tuple(ord(c) for c in b.decode('utf8')))
    if name == 'blob':
        return ('VBytes', tuple(b))
    if name == 'boolean':
        return ('VBool', b != b'\x00')
    if name in ('float', 'double'):
        x = struct.unpack('>f' if name == 'float' else '>d', b)[0]
        s = float_spec(x)
        return ('VFloatSpec', s) if s is not None else ('VFloat',) + float_dy(x)
    if name == 'decimal':
        return ('VDecimal', int.from_bytes(b[4:], 'big', signed=True), struct.unpack('>i', b[:4])[0])
    if name in ('uuid', 'timeuuid'):
        return ('VUuid', int.from_bytes(b, 'big'))
    if name == 'inet':
        return ('VInet', tuple(b))
    if name == 'date':
        return ('VDate', struct.unpack('>I', b)[0] - 2 ** 31)
    if name == 'time':
        return ('VTime', struct.unpack('>q', b)[0])
    if name == 'timestamp':
        return ('VTimestamp', struct.unpack('>q', b)[0])
    if name == 'duration':
        d = T.DurationType.deserialize(b, 4)
        return ('VDuration', d.months, d.days, d.nanoseconds)
    raise ValueError('no decoder for %s' % name)


def gal_value(v):
    k = v[0]
    if k == 'VNull':
        return 'VNull'
    if k in ('VInt', 'VUuid', 'VDate', 'VTime', 'VTimestamp', 'VFloatSpec'):
        return '(%s %s)' % (k, z(v[1]))
    if k in ('VText', 'VBytes', 'VInet'):
        return '(%s %s)' % (k, zl(v[1]))
    if k == 'VBool':
        return '(VBool %s)' % ('true' if v[1] else 'false')
    if k in ('VFloat', 'VDecimal'):
        return '(%s %s %s)' % (k, z(v[1]), z(v[2]))
    if k == 'VDuration':
        return '(VDuration %s %s %s)' % (z(v[1]), z(v[2]), z(v[3]))
    if k in ('VList', 'VSet', 'VTuple', 'VUdt'):
        return '(%s [%s])' % (k, '; '.join(gal_value(x) for x in v[1]))
    if k == 'VMap':
        return '(VMap [%s])' % '; '.join('(%s, %s)' % (gal_value(a), gal_value(b)) for a, b in v[1])
    raise ValueError(v)


def canon(v):
    """CQL value tree -> hashable canonical form (sets and maps unordered, deduplicated)"""
    k = v[0]
    if k in ('VList', 'VTuple', 'VUdt'):
        return (k, tuple(canon(x) for x in v[1]))
    if k == 'VSet':
        return (k, tuple(sorted(set(canon(x) for x in v[1]), key=repr)))
    if k == 'VMap':
        return (k, tuple(sorted(set((canon(a), canon(b)) for a, b in v[1]), key=repr)))
    return v


def opt(s):
    return 'None' if s is None else '(Some %s)' % s


# ---------------------------------------------------------------------- the CQL literal cqlengine sends
def make_encoder(col):
    """The Encoder of a cqlengine session: cassandra.encoder.Encoder with tuple mapped to cql_encode_tuple (as
    cassandra/cqlengine/connection.py does in setup_session) and every UserType class of the column registered through
    the REAL Session.user_type_registered (run on a stand-in session that only carries the metadata it reads)."""
    import types
    from cassandra.encoder import Encoder
    from cassandra.cluster import Session
    from cassandra.cqlengine import columns as C
    enc = Encoder()
    enc.mapping[tuple] = enc.cql_encode_tuple
    ks = types.SimpleNamespace(user_types={})
    fake = types.SimpleNamespace(encoder=enc, cluster=types.SimpleNamespace(metadata=types.SimpleNamespace(keyspaces={'ks': ks})))

    def reg(c):
        if isinstance(c, C.UserDefinedType):
            ut = c.user_type
            ks.user_types[ut.type_name()] = types.SimpleNamespace(field_names=[f.db_field_name for f in ut._fields.values()])
            Session.user_type_registered(fake, 'ks', ut.type_name(), ut)
            for f in ut._fields.values():
                reg(f)
        for sub in getattr(c, 'types', None) or []:
            reg(sub)
    reg(col)
    return enc


class LitError(Exception):
    pass


DURATION_LIT = None


class LitParser(object):
    """Typed reader of a CQL literal (how the server reads the text for a column of the given type; CQL reference).
    value(t) -> (Gallina `lit` token literal, CQL value tree as produced by decode())."""
    def __init__(self, s):
        self.s, self.i = s, 0

    def ws(self):
        while self.i < len(self.s) and self.s[self.i] == ' ':
            self.i += 1

    def eat(self, ch):
        self.ws()
        if self.s[self.i:self.i + len(ch)] != ch:
            raise LitError('expected %r at %d in %r' % (ch, self.i, self.s[:200]))
        self.i += len(ch)

    def at(self, ch):
        self.ws()
        return self.s[self.i:self.i + len(ch)] == ch

    def tok(self):
        self.ws()
        j = self.i
        while j < len(self.s) and self.s[j] not in ' ,]})':
            j += 1
        t = self.s[self.i:j]
        if t.endswith(':'):
            t = t[:-1]
            j -= 1
        if not t:
            raise LitError('empty token at %d in %r' % (self.i, self.s[:200]))
        self.i = j
        return t

    def quoted(self):
        self.eat("'")
        out = []
        while True:
            if self.i >= len(self.s):
                raise LitError('unterminated string')
            c = self.s[self.i]
            if c == "'":
                if self.s[self.i + 1:self.i + 2] == "'":
                    out.append("'")
                    self.i += 2
                    continue
                self.i += 1
                return ''.join(out)
            out.append(c)
            self.i += 1

    def items(self, close, one):
        out = []
        if self.at(close):
            self.eat(close)
            return out
        while True:
            out.append(one())
            if self.at(','):
                self.eat(',')
                continue
            self.eat(close)
            return out

    def field(self, t):
        if self.at('NULL'):
            self.eat('NULL')
            return 'LNull', ('VNull',)
        return self.value(t)

    def value(self, t):
        import re
        from cassandra import cqltypes as T
        name = t.typename
        if issubclass(t, T.UserType):
            self.eat('{')
            gs, vs = [], []
            for k, (fname, st) in enumerate(zip(t.fieldnames, t.subtypes)):
                if k:
                    self.eat(',')
                self.eat(fname)
                self.eat(':')
                g, v = self.field(st)
                gs.append(g)
                vs.append(v)
            self.eat('}')
            return '(LUdt [%s])' % '; '.join(gs), ('VUdt', tuple(vs))
        if issubclass(t, T.TupleType):
            self.eat('(')
            sub = iter(t.subtypes)

            def one():
                try:
                    st = next(sub)
                except StopIteration:
                    raise LitError('too many tuple fields')
                return self.field(st)
            its = self.items(')', one)
            return '(LTuple [%s])' % '; '.join(g for g, _ in its), ('VTuple', tuple(v for _, v in its))
        if name in ('list', 'set'):
            self.eat('[' if name == 'list' else '{')
            its = self.items(']' if name == 'list' else '}', lambda: self.value(t.subtypes[0]))
            return ('(%s [%s])' % ('LList' if name == 'list' else 'LSet', '; '.join(g for g, _ in its)),
                    ('VList' if name == 'list' else 'VSet', tuple(v for _, v in its)))
        if name == 'map':
            self.eat('{')

            def pair():
                k = self.value(t.subtypes[0])
                self.eat(':')
                v = self.value(t.subtypes[1])
                return k, v
            its = self.items('}', pair)
            return ('(LMap [%s])' % '; '.join('(%s, %s)' % (k[0], v[0]) for k, v in its), ('VMap', tuple((k[1], v[1]) for k, v in its)))
        if name in ('int', 'tinyint', 'smallint', 'bigint', 'counter', 'varint', 'timestamp', 'date'):
            tk = self.tok()
            if not re.match(r'^-?\d+$', tk):
                raise LitError('not an integer literal: %r' % tk)
            zv = int(tk)
            bits = {'int': 32, 'tinyint': 8, 'smallint': 16, 'bigint': 64, 'counter': 64, 'timestamp': 64}.get(name)
            if bits and not (-2 ** (bits - 1) <= zv < 2 ** (bits - 1)):
                raise LitError('%s literal out of range: %d' % (name, zv))
            if name == 'date':
                if not 0 <= zv < 2 ** 32:
                    raise LitError('date literal out of range')
                return '(LInt %s)' % z(zv), ('VDate', zv - 2 ** 31)
            return '(LInt %s)' % z(zv), ('VTimestamp' if name == 'timestamp' else 'VInt', zv)
        if name in ('float', 'double'):
            tk = self.tok()
            x = {'NaN': float('nan'), 'Infinity': float('inf'), '-Infinity': float('-inf')}.get(tk)
            if x is None:
                if not re.match(r'^-?(\d+\.?\d*|\.\d+)([eE][-+]?\d+)?$', tk):
                    raise LitError('not a float literal: %r' % tk)
                x = float(tk)
            sp = float_spec(x)
            g = '(LFloatSpec %d)' % sp if sp is not None else '(LFloat %s %s)' % tuple(z(a) for a in float_dy(x))
            if name == 'float':
                x = struct.unpack('>f', struct.pack('>f', x))[0]
                sp = float_spec(x)
            return g, (('VFloatSpec', sp) if sp is not None else ('VFloat',) + float_dy(x))
        if name in ('text', 'varchar', 'ascii'):
            sv = self.quoted()
            if name == 'ascii' and any(ord(c) > 127 for c in sv):
                raise LitError('non-ascii')
            return '(LStr %s)' % zl([ord(c) for c in sv]), ('VText', tuple(ord(c) for c in sv))
        if name == 'inet':
            sv = self.quoted()
            b = socket.inet_pton(socket.AF_INET6 if ':' in sv else socket.AF_INET, sv)
            return '(LInet %s)' % zl(list(b)), ('VInet', tuple(b))
        if name == 'time':
            sv = self.quoted()
            m = re.match(r'^(\d\d):(\d\d):(\d\d)\.(\d{9})$', sv)
            if not m:
                raise LitError('not a time literal: %r' % sv)
            ns = ((int(m.group(1)) * 60 + int(m.group(2))) * 60 + int(m.group(3))) * 10 ** 9 + int(m.group(4))
            return '(LTime %s)' % z(ns), ('VTime', ns)
        if name == 'blob':
            tk = self.tok()
            if not re.match(r'^0[xX]([0-9a-fA-F]{2})*$', tk):
                raise LitError('not a blob literal: %r' % tk)
            b = bytes.fromhex(tk[2:])
            return '(LHex %s)' % zl(list(b)), ('VBytes', tuple(b))
        if name == 'boolean':
            tk = self.tok().lower()
            if tk not in ('true', 'false'):
                raise LitError('not a boolean literal')
            return '(LBool %s)' % tk, ('VBool', tk == 'true')
        if name in ('uuid', 'timeuuid'):
            tk = self.tok()
            if not re.match(r'^[0-9a-fA-F]{8}-[0-9a-fA-F]{4}-[0-9a-fA-F]{4}-[0-9a-fA-F]{4}-[0-9a-fA-F]{12}$', tk):
                raise LitError('not a uuid literal: %r' % tk)
            u = uuid.UUID(tk).int
            return '(LUuid %s)' % z(u), ('VUuid', u)
        if name == 'decimal':
            tk = self.tok()
            if not re.match(r'^-?(\d+\.?\d*|\.\d+)([eE][-+]?\d+)?$', tk):
                raise LitError('not a decimal literal: %r' % tk)
            sign, digits, exp = decimal.Decimal(tk).as_tuple()
            c = int(''.join(map(str, digits)) or '0')
            return ('(LDecimal %s %s %s)' % ('true' if sign else 'false', z(c), z(exp)), ('VDecimal', -c if sign else c, -exp))
        if name == 'duration':
            tk = self.tok()
            m = re.match(r'^(-)?(\d+)mo(\d+)d(\d+)ns$', tk)
            if not m:
                raise LitError('not a duration literal: %r' % tk)
            sg = -1 if m.group(1) else 1
            a, b, c = int(m.group(2)), int(m.group(3)), int(m.group(4))
            return ('(LDuration %s %s %s %s)' % ('true' if m.group(1) else 'false', z(a), z(b), z(c)), ('VDuration', sg * a, sg * b, sg * c))
        raise LitError('no literal reader for %s' % name)


def read_literal(text, t):
    p = LitParser(text)
    g, v = p.value(t)
    p.ws()
    if p.i != len(text):
        raise LitError('trailing text %r' % text[p.i:p.i + 40])
    return g, v
