"""Drive the REAL cassandra.pool.HostConnection single-threaded, region by region (C12, C13).

The real object gets: hooking locks (pool._lock, Connection.lock), a fake condition, a fake session (queueing
executor) and a fake cluster (connection_factory / signal_connection_failure with scripted outcomes), and
connections that are real `cassandra.connection.Connection` objects without a socket.  A *hook* fires right
before every outermost lock acquisition of the call being executed, before the connection_factory call, before
the failure signal and before the first flag read of borrow_connection / return_connection: these are the
boundaries of the model's atomic steps.  At a hook the harness snapshots the observable state and may run
other complete operations ("interrupts"): that is how interleavings are produced without threads.

History = list of [mop, ints]; mop = [kind, args...]; ints = list (per hook slot) of lists of mops.
"""
import sys, threading


class Blocked(Exception):
    pass


class Spin(Exception):
    """set_keyspace_async would busy-wait (connection at capacity)"""
    pass


class ConnTime(object):
    """cassandra.connection.time while the harness drives set_keyspace_async: sleeping = spinning = not enabled"""
    def __init__(self, real):
        self.real = real

    def sleep(self, t):
        raise Spin()

    def time(self):
        return self.real.time()


class FakeTime(object):
    """cassandra.pool.time: every reading is one unit later than the previous one"""
    def __init__(self):
        self.t = 0

    def time(self):
        self.t += 1
        return self.t


class HookLock(object):
    def __init__(self, h, kind):
        self.h, self.kind = h, kind
        self.l = threading.RLock()
        self.held = 0

    def acquire(self, *a, **k):
        return self.__enter__()

    def release(self):
        self.__exit__()

    def __enter__(self):
        h = self.h
        if h.armed and h.depth == 0:
            h.hook(self.kind)
        self.l.acquire()
        h.depth += 1
        self.held += 1
        return True

    def __exit__(self, *a):
        self.h.depth -= 1
        self.held -= 1
        self.l.release()


class FakeCondition(object):
    def __init__(self, lock, h):
        self.lock, self.h = lock, h

    def __enter__(self):
        return self.lock.__enter__()

    def __exit__(self, *a):
        return self.lock.__exit__(*a)

    def wait(self, timeout=None):
        raise Blocked()

    def notify(self, n=1):
        self.h.notifies += 1

    def notify_all(self):
        self.h.notifies += 1


class Hdr(object):
    """frame header of a response, as far as Connection.process_msg's orphaned-stream phase reads it"""
    def __init__(self, stream):
        self.stream = stream
        self.version, self.flags, self.opcode = 4, 0, 8


class OrphanSet(set):
    """Connection.orphaned_request_ids; a removal that happens while the connection's lock is NOT held opens a window in
    which in_flight and the orphan set disagree: the harness lets the pool's other threads run there"""
    conn = None

    def remove(self, x):
        c = self.conn
        if c is not None and c.lock.held == 0:
            c._h.window_orphan_removal(c)
        set.remove(self, x)


def make_conn_class(h):
    from cassandra.connection import Connection

    class FakeConn(Connection):
        max_in_flight = h.max_in_flight
        orphaned_threshold = h.threshold

        def __init__(self, *a, **kw):
            self._thr = False
            self._defunct = False
            Connection.__init__(self, *a, **kw)
            self.lock = HookLock(h, 'conn')
            self._h = h
            self.orphaned_request_ids = OrphanSet()
            self.orphaned_request_ids.conn = self
            self.cid = None
            self.sent = []
            self.close_calls = 0

        def close(self):
            caller = sys._getframe(1).f_code.co_name
            if h.armed and h.depth == 0 and caller == 'shutdown' and getattr(h.pool, '_connection', None) is self:
                h.hook('closemain')     # shutdown(): middle, unlocked region
            if caller in ('_replace', 'return_connection') and self.lock.held == 0 and self.cid is not None \
                    and not self.is_closed and not h.pool.is_shutdown:
                h.window_close(self, caller)
            self.close_calls += 1
            self.is_closed = True
            h.on_close(self, sys._getframe(1).f_code.co_name)
            if caller == 'shutdown' and hasattr(h, 'shutdown_close'):
                h.shutdown_close(self, sys._getframe(1))

        def push(self, data):
            self.sent.append(data)
            if getattr(h, 'hb_active', False) and self._requests:      # the node answers the heartbeat at once
                from cassandra.protocol import SupportedMessage
                rid, (cb, _, _) = self._requests.popitem()
                self.request_ids.append(rid)
                cb(SupportedMessage(['3.0.0'], {}))

        def send_msg(self, msg, request_id, cb, *a, **kw):
            if sys._getframe(1).f_code.co_name == '_query':
                h.inquery.append((self.cid, request_id))       # a borrowed, not yet returned stream
                if h.query_mine is not None:
                    h.query_mine.append((self.cid, request_id))
                if h.armed and h.depth == 0:
                    h.hook('send')
                w = self._socket_writable
                self._socket_writable = False        # the write buffer is full: send_msg refuses with ConnectionBusy
                try:
                    return Connection.send_msg(self, msg, request_id, cb, *a, **kw)
                finally:
                    self._socket_writable = w
            return Connection.send_msg(self, msg, request_id, cb, *a, **kw)

        @property
        def orphaned_threshold_reached(self):
            if h.armed and h.depth == 0 and sys._getframe(1).f_code.co_name == 'borrow_connection':
                h.hook('thr')
            return self._thr

        @orphaned_threshold_reached.setter
        def orphaned_threshold_reached(self, v):
            self._thr = v

        @property
        def is_defunct(self):
            if h.armed and h.depth == 0 and sys._getframe(1).f_code.co_name == 'return_connection':
                h.hook('flags')
            return self._defunct

        @is_defunct.setter
        def is_defunct(self, v):
            self._defunct = v

    return FakeConn


class FakeCluster(object):
    connect_to_remote_hosts = True
    connect_timeout = 5

    def __init__(self, h):
        self.h = h
        self.down_calls = 0
        self.signals = 0

    def connection_factory(self, endpoint, *a, **kw):
        h = self.h
        if h.armed and h.depth == 0:
            h.hook('factory')
        return h.open_conn(kw.get('on_orphaned_stream_released'))

    def signal_connection_failure(self, host, exc, is_host_addition=False, expect_host_to_be_down=False):
        h = self.h
        if h.armed and h.depth == 0:
            h.hook('signal')
        self.signals += 1
        return h.down_oracle

    def on_down(self, host, is_host_addition=False, expect_host_to_be_down=False):
        self.down_calls += 1


class FakeHost(object):
    endpoint = '127.0.0.1'

    def __str__(self):
        return 'fakehost'


class FakeSession(object):
    keyspace = None
    is_shutdown = False

    def __init__(self, h):
        self.cluster = FakeCluster(h)
        self.h = h

    def submit(self, fn, *args, **kw):
        self.h.queue.append((fn, args))


RES = {'conn': 200, 'shutdown': 201, 'noconn': 202, 'busy': 203, 'wait': 204, 'none': 205}


class Harness(object):
    """One HostConnection under test.  chooser(h, slot, outer_mop) -> list of mops to run at a hook (or None)."""

    def __init__(self, with_conn=True, max_in_flight=4, threshold=2, chooser=None):
        import cassandra.pool as P
        from cassandra.policies import HostDistance
        self.P = P
        self.max_in_flight, self.threshold = max_in_flight, threshold
        self.armed, self.depth, self.notifies, self.nested = False, 0, 0, False
        self.rng = None
        self.in_window = False
        self.nchecking = None
        self.checking = None      # task taken from the executor whose first region has not started yet
        self.items = []           # trace, same layout as Model.Pool.trace
        self.queue = []           # executor
        self.conns = []           # every connection the factory returned, cid = index
        self.streams = []         # (cid, request id) handed out by borrow, not yet returned/orphaned
        self.orphans = []         # (cid, request id) orphaned, no late response yet
        self.down_oracle = False
        self.factory_ok = True
        self.chooser = chooser
        self.history = []         # what was executed: [mop, ints]
        self.cur_ints = None
        self.slot = 0
        self.replay_ints = None
        self.borrow_after_shutdown_ok = []   # property violations seen (oracle on the implementation)
        self.problems = []                   # (key, what)
        self.info = {}                       # per cid: facts for classifying a leak
        self.close_log, self.close_shut, self.replaced = [], {}, set()
        self.inquery, self.task_errors, self.query_mine = [], [], None
        self.ConnClass = make_conn_class(self)
        self.session = FakeSession(self)
        self.host = FakeHost()
        self.pool = P.HostConnection(self.host, HostDistance.LOCAL if with_conn else HostDistance.IGNORED, self.session)
        self.pool._lock = HookLock(self, 'pool')
        self.pool._stream_available_condition = FakeCondition(self.pool._lock, self)
        self.with_conn = with_conn
        self.max_request_id = self.ConnClass().max_request_id

    # ------------------------------------------------------------ fakes' callbacks
    def open_conn(self, released_cb):
        if not self.factory_ok:
            from cassandra.connection import ConnectionException
            from cassandra import OperationTimedOut, AuthenticationFailed
            k = getattr(self, 'factory_kind', 0)
            if k == 2:
                raise OperationTimedOut('scripted connect timeout')       # what Connection.factory raises on a connect timeout
            if k == 3:
                raise AuthenticationFailed('scripted authentication failure')
            raise ConnectionException('scripted connect failure')
        c = self.ConnClass(on_orphaned_stream_released=released_cb)
        c.cid = len(self.conns)
        self.conns.append(c)
        self.info[c.cid] = {'opened_after_shutdown_flag': bool(getattr(self, 'pool', None) and self.pool.is_shutdown)}
        return c

    def on_close(self, c, caller):
        if c.cid is None:
            return
        live = len([1 for s in self.streams + self.inquery if s[0] == c.cid])
        self.close_log.append((c.cid, live, caller, bool(self.pool.is_shutdown or c._defunct)))

    # ------------------------------------------------------------ windows that exist only if a lock is missing
    def window_close(self, conn, caller):
        """close() of `conn` decided by the replacement machinery while conn.lock is NOT held: a borrower that read
        pool._connection (== conn) earlier can take a stream between the idle test and the close.  Re-enact exactly that
        borrower with the real borrow_connection (its _get_connection result is the stale `conn`)."""
        pool = self.pool
        saved = (self.armed, self.P.time)
        self.armed = False
        self.P.time = FakeTime()
        pool._get_connection = lambda: conn
        try:
            got, rid = self.P.HostConnection.borrow_connection(pool, timeout=0)
            self.streams.append((got.cid, rid))
            self.problem('HostConnection.%s.close-not-under-connection-lock' % caller,
                         '%s decided to close connection %d (idle: in_flight == #orphans) without holding that connection\'s lock; '
                         'a borrower that had read pool._connection before the swap took stream %d on it between the test and '
                         'close(): the connection is closed with a live request' % (caller, conn.cid, rid), 'C13_no_close_while_live')
        except Exception:
            pass
        finally:
            del pool._get_connection
            self.armed, self.P.time = saved

    def window_orphan_removal(self, conn):
        """orphaned_request_ids is about to be updated outside conn.lock, after in_flight was already decremented: let the
        executor run a queued _replace task in that window (its idle test reads in_flight and len(orphaned_request_ids))"""
        if self.in_window or not self.queue or self.checking is not None or self.nchecking is not None:
            return
        self.in_window = True
        saved = (self.armed, self.P.time, self.factory_ok)
        self.armed, self.factory_ok = False, True
        before = len(self.close_log)
        try:
            fn, args = self.queue.pop(0)
            was = self.pool._is_replacing
            fn(*args)
            if was and not self.pool._is_replacing and args[0]._thr:
                self.replaced.add(args[0].cid)
            for (cid, live, where, excluded) in self.close_log[before:]:
                if live > 0 and not excluded:
                    self.problem('Connection.process_msg.orphan-removal-outside-lock',
                                 'late response on connection %d: in_flight was decremented under the lock but the orphan set '
                                 'was updated after it; _replace ran in between, saw in_flight == #orphans and closed connection '
                                 '%d with %d live request(s)' % (conn.cid, cid, live), 'C13_no_close_while_live')
        finally:
            self.in_window = False
            self.armed, self.P.time, self.factory_ok = saved

    # ------------------------------------------------------------ observation
    def snap(self):
        p = self.pool
        cur = p._connection.cid if p._connection is not None else -1
        out = [100, cur, int(p._is_replacing), int(p.is_shutdown), int(p.shutdown_on_error)]
        out += [101] + sorted(c.cid for c in p._trash)
        out += [102] + [a[0].cid for (f, a) in [t for t in (self.checking, self.nchecking) if t] + self.queue]
        out += [103]
        for c in self.conns:
            out += [c.in_flight, len(c.orphaned_request_ids), int(c._thr), int(c.is_closed), int(c._defunct), int(c.signaled_error)]
            if c.in_flight < 0:
                self.problem('HostConnection.in_flight.negative', 'in_flight of connection %d is %d' % (c.cid, c.in_flight), 'C12_nonneg')
            if c.in_flight > c.max_request_id:
                self.problem('HostConnection.in_flight.over-capacity', 'in_flight of connection %d is %d > max_request_id %d'
                             % (c.cid, c.in_flight, c.max_request_id), 'C12_capacity')
        return out

    def problem(self, key, what, theorem):
        if not any(k == key for k, _, _ in self.problems):
            self.problems.append((key, what, theorem))

    def hook(self, kind):
        self.items.append(self.snap())
        if self.nested:
            self.nchecking = None
            return
        slot = self.slot
        self.slot += 1
        while len(self.cur_ints) <= slot:
            self.cur_ints.append([])
        saved = (self.down_oracle, self.factory_ok, self.P.time)
        self.nested = True
        try:
            if self.replay_ints is not None:
                for m in (self.replay_ints[slot] if slot < len(self.replay_ints) else []):
                    self.cur_ints[slot].append(list(m))
                    self.exec_mop(m)
            elif self.chooser is not None and not (self.cur_kind == 'heartbeat' and slot == 0):
                for _ in range(self.chooser(self, slot, kind)):
                    m = self.rng.choice(enabled_mops(self, self.rng, nested=True))
                    self.cur_ints[slot].append(list(m))
                    self.exec_mop(m)
        finally:
            self.nested = False
            self.checking = None
            self.down_oracle, self.factory_ok, self.P.time = saved

    # ------------------------------------------------------------ operations
    def run_op(self, mop, ints=None):
        """top-level operation; ints given => replay them, else ask the chooser at each hook"""
        self.cur_ints, self.slot = [], 0
        self.replay_ints = ints
        self.cur_kind = mop[0]
        self.armed = True
        try:
            self.exec_mop(mop)
        finally:
            self.armed = False
        self.history.append([list(mop), self.cur_ints])
        if self.pool._is_replacing and not self.pool.is_shutdown and not self.queue:
            self.problem('HostConnection._replace.task-lost',
                         'the pool is open and _is_replacing is set but no _replace task is queued or running (a task ended with %s): '
                         'the overloaded connection is never replaced nor closed' % (self.task_errors[-1:] or 'no exception'),
                         'C13_replacement_not_abandoned')
        for cid in sorted(self.replaced):
            if not self.conns[cid].is_closed and not any(s[0] == cid for s in self.streams):
                self.problem('HostConnection.replaced-connection-not-closed',
                             'connection %d was replaced, has only orphaned streams left, no call in progress, and is still open' % cid,
                             'C13_eventually_closed')

    def exec_mop(self, mop):
        from cassandra.connection import ConnectionException
        P = self.P
        kind = mop[0]
        res = RES['none']
        old_time = P.time
        P.time = FakeTime()
        try:
            if kind == 'borrow':
                was_shutdown = self.pool.is_shutdown
                try:
                    conn, rid = self.P.HostConnection.borrow_connection(self.pool, timeout=mop[1])
                    self.streams.append((conn.cid, rid))
                    res = [RES['conn'], conn.cid]
                    if was_shutdown:
                        self.problem('HostConnection.borrow_connection.after-shutdown-succeeded',
                                     'borrow_connection on a pool that was already shut down returned connection %d' % conn.cid,
                                     'C12_borrow_after_shutdown_fails')
                    if conn.in_flight > conn.max_request_id:
                        self.problem('HostConnection.in_flight.over-capacity', 'borrow handed out connection %d with in_flight %d > %d'
                                     % (conn.cid, conn.in_flight, conn.max_request_id), 'C12_capacity')
                    if rid in [r for (c, r) in self.streams[:-1] if c == conn.cid] or rid in [r for (c, r) in self.orphans if c == conn.cid]:
                        self.problem('HostConnection.borrow_connection.duplicate-stream-id', 'stream id %d of connection %d handed out twice' % (rid, conn.cid), 'C12_capacity')
                except Blocked:
                    res = RES['wait']
                except ConnectionException:
                    res = RES['shutdown']
                except P.NoConnectionsAvailable as e:
                    res = RES['busy'] if e.args else RES['noconn']
            elif kind == 'return':
                c = mop[1]
                st = [s for s in self.streams if s[0] == c]
                if not st:
                    self.items.append([999])
                    return
                self.streams.remove(st[0])
                conn = self.conns[c]
                self.down_oracle = bool(mop[2])
                self.quiet(lambda: conn.request_ids.append(st[0][1]))    # process_msg recycles the id before the callback runs
                self.pool.return_connection(conn)
            elif kind == 'orphan':
                c = mop[1]
                st = [s for s in self.streams if s[0] == c]
                if not st:
                    self.items.append([999])
                    return
                self.streams.remove(st[0])
                self.orphans.append(st[0])
                conn = self.conns[c]
                self.down_oracle = bool(mop[2])

                def region():      # ResponseFuture._on_timeout, `with self._connection.lock:`
                    with conn.lock:
                        conn.orphaned_request_ids.add(st[0][1])
                        if len(conn.orphaned_request_ids) >= conn.orphaned_threshold:
                            conn.orphaned_threshold_reached = True
                self.quiet(region)
                self.pool.return_connection(conn, stream_was_orphaned=True)
            elif kind == 'late':
                c = mop[1]
                st = [s for s in self.orphans if s[0] == c]
                if not st:
                    self.items.append([999])
                    return
                self.orphans.remove(st[0])
                conn = self.conns[c]

                # the REAL Connection.process_msg: orphaned-stream phase (decrement + removal under conn.lock), release
                # notification, then (no callback registered for this stream) the id is recycled under conn.lock
                conn.process_msg(Hdr(st[0][1]), b'')
            elif kind == 'defunct':
                conn = self.conns[mop[1]]
                self.quiet(lambda: conn.defunct(ConnectionException('scripted failure')))
            elif kind == 'task':
                if self.queue:
                    fn, args = self.queue.pop(0)
                    self.factory_ok = (mop[1] == 1 or mop[1] is True)
                    if self.nested:
                        self.nchecking = (fn, args)
                    else:
                        self.checking = (fn, args)
                    was = self.pool._is_replacing
                    self.factory_kind = mop[1]
                    try:
                        fn(*args)
                    except Exception as e:       # a ThreadPoolExecutor keeps the exception in the future nobody reads
                        self.task_errors.append(repr(e))
                    if was and not self.pool._is_replacing and args[0]._thr:
                        self.replaced.add(args[0].cid)
                    self.checking = self.nchecking = None
                    self.factory_ok = True
            elif kind == 'qbusy':
                res = self.exec_query_busy(mop)
            elif kind == 'setks':
                res = self.exec_setks(mop)
            elif kind == 'heartbeat':
                res = self.exec_heartbeat(mop)
            elif kind == 'shutdown':
                self.mark_shutdown_start()
                self.pool.shutdown()
            elif kind == 'setsoe':
                self.pool.shutdown_on_error = True
            elif kind == 'released':
                self.pool.on_orphaned_stream_released()
            else:
                raise ValueError(kind)
        finally:
            P.time = old_time
        self.items.append(self.snap())
        self.items.append(res if isinstance(res, list) else [res])

    def exec_query_busy(self, mop):
        """the REAL ResponseFuture._query against this pool; every connection refuses the write (socket not writable)"""
        import cassandra.cluster as C
        from cassandra.protocol import QueryMessage, ProtocolHandler
        fut = C.ResponseFuture.__new__(C.ResponseFuture)
        fut.session = self.session
        fut.message = QueryMessage('SELECT 1', 1)
        fut.prepared_statement = None
        fut._protocol_handler = ProtocolHandler
        fut._errors, fut.attempted_hosts, fut._metrics = {}, [], None
        fut._current_host = fut._connection = None
        self.session._pools = {self.host: self.pool}
        self.down_oracle = bool(mop[2])
        real_borrow = self.P.HostConnection.borrow_connection.__get__(self.pool)
        real_return = self.P.HostConnection.return_connection.__get__(self.pool)
        mine = []
        prev = (self.pool.__dict__.get('borrow_connection'), self.pool.__dict__.get('return_connection'))
        self.pool.borrow_connection = lambda timeout: real_borrow(mop[1])     # _query passes a wall-clock timeout; the history fixes the retries

        def returning(connection, stream_was_orphaned=False):     # the stream handed back is no longer outstanding
            for e in (self.inquery if sys._getframe(1).f_code.co_name == '_query' else []):
                if e[0] == connection.cid and e in mine:
                    self.inquery.remove(e)
                    break
            return real_return(connection, stream_was_orphaned)
        self.pool.return_connection = returning
        outer_mine = self.query_mine
        self.query_mine = mine
        try:
            rid = fut._query(self.host)
        finally:
            self.query_mine = outer_mine
            for name, old in zip(('borrow_connection', 'return_connection'), prev):     # a nested _query restores the outer one's wrappers
                if old is None:
                    self.pool.__dict__.pop(name, None)
                else:
                    self.pool.__dict__[name] = old
            for e in mine:
                if e in self.inquery:
                    self.inquery.remove(e)
        if rid is not None:
            self.items.append([998])
        return RES['none']

    def exec_heartbeat(self, mop):
        """one pass of the REAL ConnectionHeartbeat.run over this pool (the thread object is built without starting it)"""
        import cassandra.connection as CN
        self.down_oracle = bool(mop[1])
        hb = CN.ConnectionHeartbeat.__new__(CN.ConnectionHeartbeat)
        hb._interval, hb._timeout = 0, 5
        hb._get_connection_holders = lambda: [self.pool]

        class OnePass(object):
            waits, stop = 0, False

            def wait(self, t=None):
                self.waits += 1
                if self.waits >= 2:
                    self.stop = True

            def is_set(self):
                return self.stop
        hb._shutdown_event = OnePass()
        for c in self.conns:
            c.msg_received = False
        outer = getattr(self, 'hb_active', False)
        self.hb_active = True
        try:
            hb.run()
        finally:
            self.hb_active = outer
        return RES['none']

    def exec_setks(self, mop):
        """the REAL HostConnection._set_keyspace_for_all_conns for the keyspace the connection already has"""
        import cassandra.connection as CN
        self.down_oracle = bool(mop[1])
        calls = []
        old = CN.time
        CN.time = ConnTime(old)
        try:
            self.pool._set_keyspace_for_all_conns(self.pool._keyspace, lambda p, errs: calls.append(errs))
        except Spin:
            return RES['wait']
        finally:
            CN.time = old
        if len(calls) != 1 or calls[0]:
            self.problem('HostConnection._set_keyspace_for_all_conns.callback', 'callback calls %r' % (calls,), 'harness')
        return RES['none']

    def quiet(self, fn):
        a = self.armed
        self.armed = False
        try:
            return fn()
        finally:
            self.armed = a

    def mark_shutdown_start(self):
        if not self.pool.is_shutdown:
            for c in self.pool._trash:
                self.info[c.cid]['in_trash_at_shutdown'] = True

    # ------------------------------------------------------------ oracle: "closes what it opens"
    def leaks(self):
        """after quiescence: connections the pool opened and never closed, classified"""
        out = []
        for c in self.conns:
            if not c.is_closed:
                inf = self.info.get(c.cid, {})
                if inf.get('in_trash_at_shutdown'):
                    key = 'HostConnection.shutdown.trash-not-closed'
                elif inf.get('opened_after_shutdown_flag'):
                    key = 'HostConnection._replace.opened-after-shutdown'
                elif c in self.pool._trash:
                    key = 'HostConnection._replace.trashed-after-shutdown'
                else:
                    key = 'HostConnection.current-connection-abandoned'
                out.append((key, c.cid))
        return out


def finish_ops(h):
    """the closing phase appended to every history: shutdown, let every task run, every pending request finish"""
    ops = []
    if not h.pool.is_shutdown:
        ops.append(['shutdown'])
    return ops


def mop_coq(m):
    k = m[0]
    b = lambda x: 'true' if x else 'false'
    if k == 'borrow':
        return '(MBorrow %d%%nat)' % m[1]
    if k == 'return':
        return '(MReturn %d%%nat %s)' % (m[1], b(m[2]))
    if k == 'orphan':
        return '(MOrphan %d%%nat %s)' % (m[1], b(m[2]))
    if k == 'late':
        return '(MLate %d%%nat)' % m[1]
    if k == 'defunct':
        return '(MDefunct %d%%nat)' % m[1]
    if k == 'task':
        return '(MTask %s)' % b(m[1] == 1 or m[1] is True)
    if k == 'qbusy':
        return '(MQueryBusy %d%%nat %s)' % (m[1], b(m[2]))
    if k == 'setks':
        return '(MSetKs %s)' % b(m[1])
    if k == 'heartbeat':
        return '(MHeartbeat %s)' % b(m[1])
    if k == 'shutdown':
        return 'MShutdown'
    if k == 'setsoe':
        return 'MSetSoe'
    if k == 'released':
        return 'MReleased'
    raise ValueError(k)


def hist_coq(hist):
    parts = []
    for m, ints in hist:
        while ints and not ints[-1]:
            ints = ints[:-1]
        parts.append('(%s, [%s])' % (mop_coq(m), '; '.join('[%s]' % '; '.join(mop_coq(x) for x in sl) for sl in ints)))
    return '[%s]' % '; '.join(parts)


def zz(v):
    return '(%d)' % v if v < 0 else '%d' % v


def trace_coq(items):
    return '[%s]' % '; '.join('[%s]' % '; '.join(zz(x) for x in it) for it in items)


# ---------------------------------------------------------------- generation
def enabled_mops(h, rng, nested=False):
    """operations that make sense in the implementation's current state (so most histories are legal)"""
    p = h.pool
    cands = []
    w = lambda n, m: cands.extend([m] * n)
    w(6, ['borrow', rng.choice([0, 0, 1, 2])])
    for cid in sorted(set(s[0] for s in h.streams)):
        w(4, ['return', cid, rng.random() < 0.25])
        if not p.is_shutdown:
            w(5, ['orphan', cid, rng.random() < 0.25])
    for cid in sorted(set(s[0] for s in h.orphans)):
        w(2, ['late', cid])
    for c in h.conns:
        if not (c.is_closed or c._defunct):
            w(1, ['defunct', c.cid])
    if h.queue and h.checking is None:
        w(8, ['task', 1 if rng.random() < 0.8 else rng.choice([0, 0, 2, 3])])
    w(2, ['qbusy', rng.choice([0, 1, 2]), rng.random() < 0.25])
    if p._connection is not None and not p.is_shutdown and p._connection.in_flight < p._connection.max_request_id:
        w(2, ['setks', rng.random() < 0.25])
        if not (p._connection.is_closed or p._connection._defunct) and not nested:
            w(2, ['heartbeat', rng.random() < 0.25])
    w(1, ['shutdown'])
    if not p.shutdown_on_error and rng.random() < 0.3:
        w(1, ['setsoe'])
    if rng.random() < 0.1:
        w(1, ['released'])
    return cands


def make_chooser(rng, p_int=0.25):
    """how many operations to run at this hook (they are picked one at a time from the then-current state)"""
    def chooser(h, slot, kind):
        if rng.random() >= p_int:
            return 0
        return 1 if rng.random() < 0.7 else 2
    return chooser


def gen_history(rng, n_ops, with_conn=True, max_in_flight=4, threshold=2, p_int=0.25):
    h = Harness(with_conn, max_in_flight, threshold, chooser=make_chooser(rng, p_int))
    h.rng = rng
    for _ in range(n_ops):
        m = rng.choice(enabled_mops(h, rng))
        h.run_op(m)
    close_out(h)
    return h


def close_out(h):
    """quiescence: shutdown (if not yet), run every queued task, finish every pending request"""
    h.chooser = None
    if not h.pool.is_shutdown:
        h.run_op(['shutdown'], ints=[])
    guard = 0
    while h.queue and guard < 10:
        h.run_op(['task', True], ints=[])
        guard += 1
    for cid in sorted(set(s[0] for s in h.streams)):
        while any(s[0] == cid for s in h.streams):
            h.run_op(['return', cid, True], ints=[])


def replay_history(hist, with_conn=True, max_in_flight=4, threshold=2):
    h = Harness(with_conn, max_in_flight, threshold)
    for m, ints in hist:
        h.run_op(m, ints=ints)
    return h


# ---------------------------------------------------------------- replay / shrinking
def run_replay(hist, with_conn=True, max_in_flight=4, threshold=2, close=True):
    """Replays a history on a fresh real pool.  Returns the harness, or None if the history is not executable
    (an operation refers to a stream that does not exist)."""
    h = Harness(with_conn, max_in_flight, threshold)
    try:
        for m, ints in hist:
            h.run_op(m, ints=ints)
        if close:
            close_out(h)
    except Exception as e:      # the driver itself raised out of an operation
        h.crash = repr(e)
        return h
    if any(it == [999] for it in h.items):
        return None
    return h


def c13_problems(h):
    """close() issued by the replacement machinery (return_connection trash branch / _replace) on an open pool
    while a non-orphaned request is outstanding on that connection"""
    probs = []
    for (cid, live, where, excluded) in h.close_log:
        if where in ('return_connection', '_replace') and live > 0 and not excluded:
            probs.append(('HostConnection.%s.closed-with-live-requests' % where,
                          'connection %d closed by %s with %d non-orphaned request(s) outstanding' % (cid, where, live),
                          'C13_no_close_while_live'))
    return probs


def failure_keys(h):
    if h is None:
        return set()
    ks = set(k for k, _ in h.leaks()) | set(k for k, _, _ in h.problems) | set(k for k, _, _ in c13_problems(h))
    if getattr(h, 'crash', None):
        ks.add('HostConnection.exception')
    return ks


def shrink(hist, key, with_conn=True, max_in_flight=4, threshold=2, budget=400):
    """delete operations / interrupts while the failure `key` persists"""
    def fails(hh):
        return key in failure_keys(run_replay(hh, with_conn, max_in_flight, threshold))
    cur = [[list(m), [[list(x) for x in sl] for sl in ints]] for m, ints in hist]
    changed = True
    while changed and budget > 0:
        changed = False
        for i in range(len(cur) - 1, -1, -1):
            cand = cur[:i] + cur[i + 1:]
            budget -= 1
            if fails(cand):
                cur, changed = cand, True
        for i in range(len(cur)):
            for s in range(len(cur[i][1])):
                for j in range(len(cur[i][1][s]) - 1, -1, -1):
                    cand = [[m, [list(sl) for sl in ints]] for m, ints in cur]
                    del cand[i][1][s][j]
                    budget -= 1
                    if fails(cand):
                        cur, changed = cand, True
    for e in cur:
        while e[1] and not e[1][-1]:
            e[1].pop()
    return cur
