"""C04: generator of well-formed responses (terms of coq/Model/ResponseSpec.v) -- every kind x flag combination x
version -- and of malformed bodies.  All randomness comes from the rng passed in (ctx.rng)."""
from .resp_spec import some, SIMPLE_CODES

VERSIONS = [1, 2, 3, 4, 5, 6, 65, 66]

STRINGS = [b'', b'a', b'ks', b'tbl_1', b'Keyspace1', b'with space', b'quo"te\'s', 'héllo'.encode('utf8'),
           '日本語'.encode('utf8'), '\U0001F600x'.encode('utf8'), b'x' * 300, b'system', b'col', b'[applied]']
CUSTOM = [b'com.example.Foo', b'x.y.Z_9', b'org.example.types.Weird_Type1']
INTS = [0, 1, 2, 3, 7, 100, -1, 2 ** 31 - 1, -2 ** 31, 65536]
CLS = [0, 1, 2, 3, 4, 5, 6, 7, 8, 9, 10]


def spec_metadata_id(pv):
    return pv >= 5 and pv != 65


def spec_reason_map(pv):
    return pv >= 5


def spec_cas_fields(pv):
    return 5 <= pv < 65


class Gen(object):
    def __init__(self, rng):
        self.r = rng

    def s(self):
        return self.r.choice(STRINGS)

    def ident(self):
        return self.r.choice(STRINGS[1:])

    def blob(self, maxlen=12):
        n = self.r.choice([0, 1, 2, 4, 8, maxlen])
        return bytes(self.r.randrange(256) for _ in range(n))

    def prims(self, pv):
        c = list(range(1, 10)) + list(range(11, 17))
        if pv <= 2:
            c.append(10)
        if pv >= 4:
            c += [17, 18, 19, 20]
        if pv >= 5:
            c.append(21)
        return c

    def type(self, pv, depth=0):
        k = self.r.random()
        if depth >= 3 or k < 0.5:
            if self.r.random() < 0.1:
                return ('TCustom', self.r.choice(CUSTOM))
            return ('TPrim', self.r.choice(self.prims(pv)))
        k = self.r.choice(['TList', 'TSet', 'TMap', 'TUdt', 'TTuple'])
        if k in ('TList', 'TSet'):
            return (k, self.type(pv, depth + 1))
        if k == 'TMap':
            return (k, self.type(pv, depth + 1), self.type(pv, depth + 1))
        if k == 'TTuple':
            return (k, [self.type(pv, depth + 1) for _ in range(self.r.choice([0, 1, 2, 3]))])
        return ('TUdt', self.ident(), self.ident() + b'%d' % self.r.randrange(1000),
                [('pair', self.ident(), self.type(pv, depth + 1)) for _ in range(self.r.choice([1, 2, 3]))])

    def cols(self, pv, n, glob=None, blobs=False):
        glob = self.r.random() < 0.5 if glob is None else glob

        def ty():
            return ('TPrim', 3) if blobs else self.type(pv)
        if glob:
            return ('ColsGlobal', self.ident(), self.ident(), [('pair', self.s(), ty()) for _ in range(n)])
        return ('ColsEach', [('mkcol', self.ident(), self.ident(), self.s(), ty()) for _ in range(n)])

    def rmeta(self, pv, glob, paging, nometa, newid, ncols, blobs=False):
        p = some(self.blob(20)) if paging else None
        i = some(self.blob(16)) if (newid and not nometa and spec_metadata_id(pv)) else None
        c = ('McNone', ncols) if nometa else ('McSome', self.cols(pv, ncols, glob, blobs))
        return ('mkrmeta', p, i, c)

    def cell(self):
        k = self.r.random()
        if k < 0.25:
            return None
        if k < 0.4:
            return some(b'')
        return some(self.blob(9))

    def rows(self, pv, glob, paging, nometa, newid):
        """-> (result term, result_metadata term or None)"""
        ncols = self.r.choice([1, 1, 2, 3, 5])
        blobs = self.r.random() < 0.3
        m = self.rmeta(pv, glob, paging, nometa, newid, ncols, blobs)
        rm = None
        if nometa:
            known = self.cols(pv, ncols, False, blobs)
            rm = some(known[1])
        elif self.r.random() < 0.2:
            rm = some(self.cols(pv, self.r.choice([1, 2]), False)[1])     # stale metadata that must be ignored
        nrows = self.r.choice([0, 1, 2, 4])
        return ('ResRows', m, [[self.cell() for _ in range(ncols)] for _ in range(nrows)]), rm

    def prepared(self, pv, glob, res_flags):
        nb = self.r.choice([0, 1, 2, 4])
        bind = self.cols(pv, nb, glob if nb else False)
        mid = some(self.blob(16)) if spec_metadata_id(pv) else None
        pk = some(sorted(self.r.sample(range(max(nb, 1)), self.r.randint(0, min(nb, 2))))) if pv >= 4 else None
        res = None
        if pv >= 2:
            g, paging, nometa, newid = res_flags
            res = some(self.rmeta(pv, g, paging, nometa, newid, 0 if nometa else self.r.choice([0, 1, 3])))
        return ('ResPrepared', self.blob(16), mid, pk, bind, res)

    def schema_change(self, pv, target):
        change = self.r.choice([b'CREATED', b'UPDATED', b'DROPPED'])
        ks = self.ident()
        if target == 'TgKeyspace':
            tg = ('TgKeyspace',)
        elif target in ('TgTable', 'TgType'):
            tg = (target, self.ident())
        else:
            tg = (target, self.ident(), [self.r.choice([b'int', b'text', b'list<int>', b'frozen<ks.u>']) for _ in range(self.r.choice([0, 1, 3]))])
        return ('mksc', change, ks, tg)

    def addr(self):
        return bytes(self.r.randrange(256) for _ in range(self.r.choice([4, 16])))

    def failures(self, pv):
        if spec_reason_map(pv):
            n = self.r.choice([0, 1, 2, 3])
            addrs = []
            while len(addrs) < n:
                a = self.addr()
                if a not in addrs:
                    addrs.append(a)
            return ('FMap', [('pair', a, self.r.choice([0, 1, 2, 3, 0xFFFF])) for a in addrs])
        return ('FCount', self.r.choice(INTS))

    def err(self, pv, kind):
        i = lambda: self.r.choice(INTS)
        cl = lambda: self.r.choice(CLS)
        if isinstance(kind, int):
            return ('ErrSimple', kind)
        if kind == 'ErrUnavailable':
            return (kind, cl(), i(), i())
        if kind in ('ErrWriteTimeout', 'ErrWriteTimeout.cas'):
            wt = 5 if kind.endswith('.cas') else self.r.randrange(8)
            kind = 'ErrWriteTimeout'
            ct = some(self.r.choice([0, 1, 9, 65535])) if (wt == 5 and spec_cas_fields(pv)) else None
            return (kind, cl(), i(), i(), wt, ct)
        if kind == 'ErrReadTimeout':
            return (kind, cl(), i(), i(), self.r.choice([0, 1, 1, 2, 128, 255]))
        if kind == 'ErrReadFailure':
            return (kind, cl(), i(), i(), self.failures(pv), self.r.choice([0, 1, 1, 2, 128, 255]))
        if kind == 'ErrFunctionFailure':
            return (kind, self.ident(), self.ident(), [self.s() for _ in range(self.r.choice([0, 1, 3]))])
        if kind == 'ErrWriteFailure':
            return (kind, cl(), i(), i(), self.failures(pv), self.r.randrange(8))
        if kind == 'ErrCasWriteUnknown':
            return (kind, cl(), i(), i())
        if kind == 'ErrAlreadyExists':
            return (kind, self.ident(), self.s())
        if kind == 'ErrUnprepared':
            return (kind, self.blob(16))
        raise ValueError(kind)

    def supported(self):
        opts = [('pair', b'CQL_VERSION', [b'3.4.5'] if self.r.random() < 0.7 else [b'3.0.0', b'3.4.6']),
                ('pair', b'COMPRESSION', self.r.choice([[b'snappy', b'lz4'], [], [b'lz4']]))]
        if self.r.random() < 0.5:
            opts.append(('pair', b'PROTOCOL_VERSIONS', [b'3/v3', b'4/v4', b'5/v5-beta']))
        if self.r.random() < 0.3:
            opts.append(('pair', self.r.choice([b'X', 'clé'.encode('utf8')]), [self.s()]))
        self.r.shuffle(opts)
        return ('RSupported', opts)

    def extras(self, combo):
        """combo = (trace, warnings, payload) booleans"""
        t, w, p = combo
        trace = some(bytes(self.r.randrange(256) for _ in range(16))) if t else None
        warnings = some([self.s() for _ in range(self.r.choice([0, 1, 2]))]) if w else None
        payload = None
        if p:
            keys = self.r.sample(STRINGS, self.r.choice([0, 1, 2, 3]))
            payload = some([('pair', k, self.r.choice([None, some(b''), some(self.blob(8))])) for k in keys])
        return trace, warnings, payload

    # ------------------------------------------------------------------------------------------ kinds
    def kinds(self, pv):
        """every body kind (with its flag combination) that exists at this version: list of (name, thunk -> (body, rm))"""
        out = []
        add = lambda name, f: out.append((name, f))
        add('RESULT.void', lambda: (('RResult', ('ResVoid',)), None))
        add('RESULT.set_keyspace', lambda: (('RResult', ('ResSetKeyspace', self.ident())), None))
        for glob in (False, True):
            for paging in (False, True) if pv >= 2 else (False,):
                for nometa in (False, True) if pv >= 2 else (False,):
                    for newid in (False, True) if (spec_metadata_id(pv) and not nometa) else (False,):
                        if nometa and glob:
                            continue

                        def rows(g=glob, p=paging, n=nometa, i=newid):
                            res, rm = self.rows(pv, g, p, n, i)
                            return ('RResult', res), rm
                        add('RESULT.rows.g%d.p%d.n%d.i%d' % (glob, paging, nometa, newid), rows)
        for glob in (False, True):
            for rf in ([(False, False, True, False), (False, False, False, False), (True, False, False, False), (True, True, False, False),
                        (False, True, True, False)] if pv >= 2 else [None]):
                add('RESULT.prepared.g%d.%s' % (glob, ''.join('%d' % x for x in rf) if rf else 'v1'),
                    lambda g=glob, f=rf: (('RResult', self.prepared(pv, g, f)), None))
        targets = ['TgKeyspace', 'TgTable'] + (['TgType'] if pv >= 3 else []) + (['TgFunction', 'TgAggregate'] if pv >= 4 else [])
        for tg in targets:
            add('RESULT.schema_change.' + tg, lambda t=tg: (('RResult', ('ResSchemaChange', self.schema_change(pv, t))), None))
            add('EVENT.schema_change.' + tg, lambda t=tg: (('REvent', ('EvSchemaChange', self.schema_change(pv, t))), None))
        add('EVENT.topology_change', lambda: (('REvent', ('EvTopologyChange', self.r.choice([b'NEW_NODE', b'REMOVED_NODE', b'MOVED_NODE']),
                                                         self.addr(), self.r.choice([9042, 0, -1, 2 ** 31 - 1]))), None))
        add('EVENT.status_change', lambda: (('REvent', ('EvStatusChange', self.r.choice([b'UP', b'DOWN']), self.addr(), 9042)), None))
        for c in SIMPLE_CODES:
            add('ERROR.0x%04x' % c, lambda c=c: (('RError', self.err(pv, c), self.s()), None))
        ek = ['ErrUnavailable', 'ErrWriteTimeout', 'ErrReadTimeout', 'ErrAlreadyExists', 'ErrUnprepared']
        if pv >= 4:
            ek += ['ErrReadFailure', 'ErrFunctionFailure', 'ErrWriteFailure']
        if spec_cas_fields(pv):
            ek += ['ErrCasWriteUnknown', 'ErrWriteTimeout.cas']
        for k in ek:
            add('ERROR.' + k, lambda k=k: (('RError', self.err(pv, k), self.s()), None))
        add('SUPPORTED', lambda: (self.supported(), None))
        add('READY', lambda: (('RReady',), None))
        add('AUTHENTICATE', lambda: (('RAuthenticate', self.r.choice([b'org.apache.cassandra.auth.PasswordAuthenticator', self.s()])), None))
        if pv >= 2:
            add('AUTH_CHALLENGE', lambda: (('RAuthChallenge', self.r.choice([None, some(b''), some(self.blob(20)), some(b'\x00\xff\xfe')])), None))
            add('AUTH_SUCCESS', lambda: (('RAuthSuccess', self.r.choice([None, some(b''), some(b'token'), some('tök'.encode('utf8'))])), None))
            add('AUTH_SUCCESS.binary', lambda: (('RAuthSuccess', some(self.r.choice([b'\xff', b'\x00\xfe\x80abc', b'\xc3']))), None))
        return out


    # ------------------------------------------------------------------------------------------ histories
    def udt_history(self, pv, uid):
        """Frames of one process in which the SAME (keyspace, type name, field names) is described with different field
        types (type dropped and re-created / altered): -> (shape name, [(body, rm), ...]).  uid makes the type name
        unique, so nothing decoded earlier in this process has cached a class for it."""
        ks = self.r.choice([b'ks', b'Keyspace1', 'héllo'.encode('utf8')])
        name = b'hist_udt_%d' % uid
        k = self.r.choice([1, 2, 3])
        names = [b'f%d' % i for i in range(k)]
        variant = self.r.choice(['prim', 'prim', 'list', 'inner-udt', 'tuple'])
        prims = self.prims(pv)

        def wrap(code, idx):
            if variant == 'list':
                return ('TList', ('TPrim', code))
            if variant == 'tuple':
                return ('TTuple', [('TPrim', 9), ('TPrim', code)])
            if variant == 'inner-udt':
                return ('TUdt', ks, name + b'_inner%d' % idx, [('pair', b'g', ('TPrim', code))])
            return ('TPrim', code)
        codes1 = [self.r.choice(prims) for _ in range(k)]
        codes2 = list(codes1)
        j = self.r.randrange(k)
        codes2[j] = self.r.choice([c for c in prims if c != codes1[j]])
        defs = [codes1, codes2, codes1]

        def udt(codes):
            return ('TUdt', ks, name, [('pair', n, wrap(c, i)) for i, (n, c) in enumerate(zip(names, codes))])
        place = self.r.choice(['rows', 'rows-nested', 'prepared-bind'] + (['prepared-result'] if pv >= 2 else []))

        def frame(codes):
            t = udt(codes)
            if place == 'rows-nested':
                t = self.r.choice([('TList', t), ('TMap', ('TPrim', 9), t), ('TTuple', [('TPrim', 3), t])])
            if place in ('rows', 'rows-nested'):
                cols = ('ColsGlobal', ks, b'tbl', [('pair', b'k', ('TPrim', 9)), ('pair', b'c', t)])
                rows = [[self.cell(), self.cell()] for _ in range(self.r.choice([0, 1, 2]))]
                return ('RResult', ('ResRows', ('mkrmeta', None, None, ('McSome', cols)), rows)), None
            mid = some(self.blob(16)) if spec_metadata_id(pv) else None
            pk = some([0]) if pv >= 4 else None
            if place == 'prepared-bind':
                bind = ('ColsEach', [('mkcol', ks, b'tbl', b'v', t)])
                res = some(('mkrmeta', None, None, ('McNone', 0))) if pv >= 2 else None
            else:
                bind = ('ColsGlobal', ks, b'tbl', [('pair', b'k', ('TPrim', 9))])
                res = some(('mkrmeta', None, None, ('McSome', ('ColsGlobal', ks, b'tbl', [('pair', b'c', t)]))))
            return ('RResult', ('ResPrepared', self.blob(16), mid, pk, bind, res)), None
        return 'udt_redefined.%s.%s' % (place, variant), [frame(c) for c in defs]


COMBOS = [(t, w, p) for t in (False, True) for w in (False, True) for p in (False, True)]


def truncations(rng, body, how_many):
    n = len(body)
    if n == 0:
        return []
    if n <= how_many:
        cuts = list(range(n))
    else:
        cuts = sorted(set([0, 2, n - 1] + [rng.randrange(n) for _ in range(how_many)]))
        cuts = [c for c in cuts if 0 <= c < n]
    return [body[:c] for c in cuts]
