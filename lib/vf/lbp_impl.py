"""Drive the REAL load-balancing policies (cassandra/policies.py) on membership histories, observe them after every
step, and check the C21 / C22 statements on what they return (Python oracle, no model involved).

History events (JSON-able lists; hosts are small ints, dc 0 = no datacenter (None), dc k = 'dck'):
  ['P', hs, r]      populate(cluster, hs); r = the value randint() returns inside populate
  ['U', h] ['D', h] ['A', h] ['R', h]     on_up / on_down / on_add / on_remove
  ['L', h, dc, rack]   the control connection's _update_location_info: on_down; set_location_info; on_up
A spec is {'kind': 'rr'|'wl'|'dca', 'allowed': [...], 'local': k, 'used': n, 'contact': [...], 'dcs': [dc of host i],
           'pred': {'hosts': [...], 'dc': k}, 'via': 'base'|'filter'|'default'}
"""
import socket

NHOSTS = 6
IGNORED, LOCAL, REMOTE = -1, 0, 1


def dcname(k):
    return None if k == 0 else 'dc%d' % k


def dcidx(name):
    return 0 if not name else int(name[2:])


def localname(k):
    return '' if k == 0 else 'dc%d' % k


class World(object):
    """Real Host objects + a fake cluster exposing only what the policies read."""

    def __init__(self, dcs, contact=(), addrs=None):
        from cassandra.pool import Host
        from cassandra.connection import DefaultEndPoint
        from cassandra.policies import SimpleConvictionPolicy
        self.hosts = []
        self.addrs = list(addrs) if addrs else list(range(len(dcs)))
        for i, d in enumerate(dcs):
            # several hosts may share an address and differ by port only (addrs given): Host equality is endpoint equality
            ep = DefaultEndPoint('10.0.0.%d' % (self.addrs[i] + 1), 9042 + i) if addrs else DefaultEndPoint('10.0.0.%d' % (i + 1))
            h = Host(ep, SimpleConvictionPolicy, datacenter=dcname(d), rack=None)
            self.hosts.append(h)
        self.idx = dict((h, i) for i, h in enumerate(self.hosts))
        world = self

        class Meta(object):
            replicas = []

            def get_replicas(self, keyspace, key):
                return self.replicas                # like TokenMap.get_replicas: the CACHED list object itself, not a copy

            def get_host(self, addr):
                return world.hosts[addr] if isinstance(addr, int) and 0 <= addr < len(world.hosts) else None

            def can_support_partitioner(self):
                return True

        class Cluster(object):
            pass
        self.cluster = Cluster()
        self.cluster.metadata = Meta()
        self.cluster.endpoints_resolved = [self.hosts[i].endpoint for i in contact]

    def ids(self, hs):
        return [self.idx[h] for h in hs]

    def dc(self, i):
        return dcidx(self.hosts[i].datacenter)


def wl_names(spec):
    """the white list as a user writes it: canonical dotted quads or the short form '10.0.k' that getaddrinfo resolves to
    '10.0.0.k' (spec['wl_names'][j] = 1); the policy must compare host.address with the RESOLVED addresses"""
    st = spec.get('wl_names') or [0] * len(spec['allowed'])
    return [('10.0.%d' if st[j] else '10.0.0.%d') % (a + 1) for j, a in enumerate(spec['allowed'])]


def world_of(spec):
    return World(spec['dcs'], spec.get('contact', ()), spec.get('addrs'))


def make_base(spec):
    import cassandra.policies as P
    if spec['kind'] == 'rr':
        return P.RoundRobinPolicy()
    if spec['kind'] == 'wl':
        return P.WhiteListRoundRobinPolicy(wl_names(spec))
    if spec['kind'] == 'dca':
        return P.DCAwareRoundRobinPolicy(localname(spec['local']), spec['used'])
    raise ValueError(spec['kind'])


TRUTHY = (True, 1, 'yes', ['match'])
FALSY = (False, None, 0, '')


def pred_fn(world, pred):
    """HostFilterPolicy's contract is truthiness ("if it returns a falsy value ..."): the predicate answers with a mix of
    True / 1 / non-empty objects and False / None / 0 / '' (what re.match, dict.get, counters return), never only bools."""
    hs, d, k = set(pred['hosts']), pred['dc'], pred.get('style', 0)

    def f(host):
        i = world.idx[host]
        ok = i in hs or (d != 0 and dcidx(host.datacenter) == d)
        return TRUTHY[(i + k) % 4] if ok else FALSY[(i + k) % 4]
    return f


def update_location_info(pol, host, datacenter, rack):
    """A datacenter/rack change is delivered by the REAL ControlConnection._update_location_info through a REAL
    ProfileManager whose only profile carries `pol`; returns whether the cluster delivered anything."""
    from cassandra.cluster import ControlConnection, ProfileManager, ExecutionProfile, EXEC_PROFILE_DEFAULT

    class Cluster(object):
        pass
    cl = Cluster()
    cl.profile_manager = ProfileManager()
    cl.profile_manager.profiles[EXEC_PROFILE_DEFAULT] = ExecutionProfile(load_balancing_policy=pol)
    cc = object.__new__(ControlConnection)
    cc._cluster = cl
    return bool(ControlConnection._update_location_info(cc, host, datacenter, rack))


def apply_event(world, pol, ev):
    """Deliver one event to `pol` (any policy object: wrappers delegate).  Returns False when the cluster delivered
    nothing (location 'change' to the same datacenter and rack)."""
    import cassandra.policies as P
    k = ev[0]
    if k == 'P':
        old = P.randint
        P.randint = lambda a, b, _r=ev[2]: _r
        try:
            pol.populate(world.cluster, [world.hosts[i] for i in ev[1]])
        finally:
            P.randint = old
    elif k == 'U':
        pol.on_up(world.hosts[ev[1]])
    elif k == 'D':
        pol.on_down(world.hosts[ev[1]])
    elif k == 'A':
        pol.on_add(world.hosts[ev[1]])
    elif k == 'R':
        pol.on_remove(world.hosts[ev[1]])
    elif k == 'L':
        return update_location_info(pol, world.hosts[ev[1]], dcname(ev[2]), 'r%d' % ev[3])
    else:
        raise ValueError(ev)
    return True


def members_step(live, ev):
    """abstract membership (DESIGN 4.0): populated/added/up minus down/removed"""
    k = ev[0]
    if k == 'P':
        return set(ev[1])
    if k in ('U', 'A', 'L'):
        return live | {ev[1]}
    if k in ('D', 'R'):
        return live - {ev[1]}
    return live


def observe_base(world, spec, base):
    if spec['kind'] in ('rr', 'wl'):
        return {'live': sorted(world.ids(base._live_hosts)), 'pos': base._position}
    return {'live': [[dcidx(d), world.ids(t)] for d, t in base._dc_live_hosts.items()],
            'local': dcidx(base.local_dc), 'pos': base._position}


def set_order(world, spec, base):
    """iteration order of the frozenset the next make_query_plan will cycle over (hash dependent: model input)"""
    if spec['kind'] in ('rr', 'wl'):
        return world.ids(list(base._live_hosts))
    return []


class Query(object):
    def __init__(self, routing_key=None, keyspace=None, target_host=None):
        self.routing_key, self.keyspace = routing_key, keyspace
        if target_host is not None:
            self.target_host = target_host


def check_plan(world, spec, live, plan, dist, report, wrapper=None, target=None, pred=None):
    """C21 on one observed plan.  dist: host -> distance reported by the SAME policy object.  report(key, what, thm)."""
    kind = spec['kind']
    if len(set(plan)) != len(plan):
        report('%s.plan.duplicate' % kind, 'plan %r repeats a host' % (plan,), 'C21_nodup')
    want = set(h for h in live if dist[h] != IGNORED)
    got = set(plan)
    if wrapper == 'default' and target is not None:
        # the explicitly targeted host (execute(..., host=)) comes first whatever the child thinks of it
        if not plan or plan[0] != target:
            report('default.target.not-first', 'target %r not first in %r' % (target, plan), 'C21_default_target')
        want = want | {target}
    if got - want:
        bad = sorted(got - want)
        cls = 'not-live' if any(h not in live for h in bad) else 'ignored'
        report('%s.plan.%s-host-yielded' % (kind, cls), 'plan %r contains %r (live %r, distances %r)' % (plan, bad, sorted(live), dist), 'C21_exact')
    if want - got:
        report('%s.plan.live-host-missing' % kind, 'plan %r lacks live non-ignored hosts %r (live %r, distances %r)' % (plan, sorted(want - got), sorted(live), dist), 'C21_exact')
    if wrapper == 'filter':
        for h in plan:
            if not pred(world.hosts[h]):
                report('filter.excluded-host-yielded', 'host %d fails the predicate but is in %r' % (h, plan), 'C21_filter')
    if kind == 'wl':
        for h in plan:
            if world.addrs[h] not in spec['allowed'] and not (wrapper == 'default' and h == target):
                report('wl.excluded-host-yielded', 'host %d is not white-listed but is in %r' % (h, plan), 'C21_whitelist')
    if kind == 'dca':
        body = plan[1:] if (wrapper == 'default' and target is not None) else plan
        ds = [dist[h] for h in body]
        # every LOCAL host before every REMOTE host
        if any(a == REMOTE and b == LOCAL for i, a in enumerate(ds) for b in ds[i + 1:]):
            report('dca.plan.remote-before-local', 'plan %r distances %r' % (plan, ds), 'C21_dc_order')
        if spec['used'] >= 0:
            per = {}
            for h in body:
                if dist[h] != LOCAL:
                    d = world.dc(h)
                    per[d] = per.get(d, 0) + 1
            if any(v > spec['used'] for v in per.values()):
                report('dca.plan.too-many-remote', 'plan %r uses %r remote hosts per dc, configured %d' % (plan, per, spec['used']), 'C21_dc_order')


def token_up(spec, live, i):
    """Host.is_up for the token-aware query: the scripted value for hosts the policy was told about; never true for the others
    (the cluster calls on_up/on_add before set_up() and set_down() before on_down/on_remove)"""
    u = spec['ta']['up'][i]
    return u if i in live else (None if u else u)


def run_history(spec, history, report=None, queries=('base', 'filter', 'default', 'token'), targets=(None,)):
    """Run one history on real objects.  Returns the trace: one record per event with the state after it and every
    plan requested (each plan request is itself a step: it advances _position)."""
    import cassandra.policies as P
    world = world_of(spec)
    base = make_base(spec)
    pred = pred_fn(world, spec.get('pred', {'hosts': list(range(NHOSTS)), 'dc': 0}))
    filt = P.HostFilterPolicy(base, pred)
    dflt = P.DefaultLoadBalancingPolicy(base)
    tok = P.TokenAwarePolicy(base)
    tok._cluster_metadata = world.cluster.metadata
    if 'ta' not in spec:
        queries = tuple(q for q in queries if q != 'token')
    carriers = {'base': base, 'filter': filt, 'default': dflt}
    live = set()
    trace = []
    n = len(world.hosts)
    for step, ev in enumerate(history):
        # deliver through one of the objects in turn (wrappers delegate to the same child)
        delivered = apply_event(world, carriers[('base', 'filter', 'default')[step % 3]], ev)
        if ev[0] == 'P':
            dflt._cluster_metadata = world.cluster.metadata
        if delivered:
            live = members_step(live, ev)
        rec = {'ev': ev, 'delivered': delivered, 'state': observe_base(world, spec, base), 'plans': [],
               'dist': [base.distance(world.hosts[i]) for i in range(n)]}
        if ev[0] == 'P' and spec['kind'] == 'dca':
            # order in which tuple(set(..)) happened to enumerate each DC's hosts (hash dependent: model input)
            rec['pord'] = [i for _, t in base._dc_live_hosts.items() for i in world.ids(t)]
        for q in queries:
            for tgt in (targets if q == 'default' else (None,)):
                ord_ = set_order(world, spec, base)
                pos = base._position
                if q == 'base':
                    plan = world.ids(list(base.make_query_plan(None, None)))
                    dist = dict((i, base.distance(world.hosts[i])) for i in range(n))
                elif q == 'filter':
                    plan = world.ids(list(filt.make_query_plan(None, None)))
                    dist = dict((i, filt.distance(world.hosts[i])) for i in range(n))
                elif q == 'token':
                    ta = spec['ta']
                    ups = [token_up(spec, live, i) for i in range(n)]
                    for i in range(n):
                        world.hosts[i].is_up = ups[i]
                    world.cluster.metadata.replicas = [world.hosts[i] for i in ta['replicas']]
                    qobj = Query(routing_key=b'k' if ta['routed'] else None, keyspace='ks')
                    plan = world.ids(list(tok.make_query_plan(None, qobj)))
                    dist = dict((i, tok.distance(world.hosts[i])) for i in range(n))
                else:
                    if dflt._cluster_metadata is None:
                        dflt._cluster_metadata = world.cluster.metadata
                    up = None
                    if tgt is not None:
                        up = tgt[1]
                        world.hosts[tgt[0]].is_up = up
                    qobj = Query(target_host=tgt[0]) if tgt is not None else None
                    plan = world.ids(list(dflt.make_query_plan(None, qobj)))
                    dist = dict((i, dflt.distance(world.hosts[i])) for i in range(n))
                if report is not None:
                    eff_t = tgt[0] if (tgt is not None and tgt[1]) else None
                    rp = lambda key, what, thm, _q=q, _s=step: report(
                        ('token.' + key.split('.', 1)[1]) if _q == 'token' else key, what, thm, step=_s, query=_q)
                    check_plan(world, spec, live, plan, dist, rp, wrapper=None if q == 'base' else q, target=eff_t, pred=pred)
                    if base._position != pos + 1:
                        rp('%s.position' % spec['kind'], 'position %r -> %r' % (pos, base._position), 'model')
                rec['plans'].append({'q': q, 'ord': ord_, 'plan': plan, 'target': list(tgt) if tgt is not None else None,
                                     'fdist': [dist[i] for i in range(n)] if q == 'filter' else None,
                                     'ups': [i for i in range(n) if ups[i]] if q == 'token' else None})
        trace.append(rec)
    return trace


class HookLock(object):
    """Stands for policy._hosts_lock.  The first time the outer event reaches the lock, another thread wins the race: a complete
    second event runs (and releases the lock) before the outer one gets in.  Single-threaded, deterministic."""

    def __init__(self):
        import threading
        self.lock = threading.Lock()
        self.hook = None

    def __enter__(self):
        h, self.hook = self.hook, None
        if h is not None:
            h()
        self.lock.acquire()
        return self

    def __exit__(self, *a):
        self.lock.release()
        return False


def run_race(spec, history, e1, e2, report):
    """history sequentially, then e1 and e2 (up/down/add/remove of two DIFFERENT hosts) delivered by two threads: e2 runs entirely
    at the moment e1 reaches _hosts_lock.  Whatever the order, both updates must be reflected (they commute)."""
    world = world_of(spec)
    base = make_base(spec)
    live = set()
    for ev in history:
        if apply_event(world, base, ev):
            live = members_step(live, ev)
    lock = HookLock()
    base._hosts_lock = lock
    lock.hook = lambda: apply_event(world, base, e2)
    apply_event(world, base, e1)
    fired = lock.hook is None
    if not fired:                    # e1 never touched the lock (e.g. a host the white list excludes): plain sequential delivery
        lock.hook = None
        apply_event(world, base, e2)
    live = members_step(members_step(live, e2), e1)
    n = len(world.hosts)
    out = []
    for _ in range(2):
        plan = world.ids(list(base.make_query_plan(None, None)))
        dist = dict((i, base.distance(world.hosts[i])) for i in range(n))
        check_plan(world, spec, live, plan, dist, lambda key, what, thm: report(key.replace('.plan.', '.race.'), what, thm))
        out.append(plan)
    return {'plans': out, 'fired': fired, 'state': observe_base(world, spec, base)}


class HookStr(str):
    """local_dc as a str subclass: behaves like the string, but a comparison made while the hook is armed first lets another
    thread run one complete membership event (a reflected comparison with a subclass operand reaches __ne__/__eq__ here)."""
    hook = None
    countdown = 0

    def _fire(self):
        h = HookStr.hook
        if h is not None:
            if HookStr.countdown > 0:
                HookStr.countdown -= 1
            else:
                HookStr.hook = None
                h()

    def __eq__(self, other):
        self._fire()
        return str.__eq__(self, other)

    def __ne__(self, other):
        self._fire()
        return str.__ne__(self, other)

    __hash__ = str.__hash__


def run_plan_during_event(spec, history, ev, fire_at, report):
    """DC-aware policy with explicit local_dc: history sequentially, then a plan is drained; after its local hosts were taken, at
    the fire_at-th datacenter comparison of the remote-DC selection another thread delivers `ev` completely."""
    import cassandra.policies as P
    world = world_of(spec)
    base = P.DCAwareRoundRobinPolicy(HookStr(localname(spec['local'])), spec['used'])
    live = set()
    for e in history:
        if apply_event(world, base, e):
            live = members_step(live, e)
    n = len(world.hosts)
    dist0 = dict((i, base.distance(world.hosts[i])) for i in range(n))
    dcs0 = [world.dc(i) for i in range(n)]
    live0 = set(live)
    nlocal = len(base._dc_live_hosts.get(base.local_dc, ()))
    gen = base.make_query_plan(None, None)
    plan, exc, fired = [], None, {'v': False}
    try:
        for _ in range(nlocal):
            plan.append(world.idx[next(gen)])

        def other_thread():
            fired['v'] = True
            if apply_event(world, base, ev):
                live.clear()
                live.update(members_step(live0, ev))
        HookStr.hook, HookStr.countdown = other_thread, fire_at
        for h in gen:
            plan.append(world.idx[h])
    except Exception as e:     # noqa: any exception escaping a plan is a failure of the plan
        exc = '%s: %s' % (type(e).__name__, e)
    finally:
        HookStr.hook = None
    if not fired['v']:
        # no remote-DC comparison happened (no DC entries at all): plain sequential delivery
        if apply_event(world, base, ev):
            live.clear()
            live.update(members_step(live0, ev))
    dist2 = dict((i, base.distance(world.hosts[i])) for i in range(n))
    if exc is not None:
        report('dca.plan-during-event.exception', 'plan %r then %s while %r was delivered by another thread' % (plan, exc, ev), 'C21_plan_during_events')
    else:
        if len(set(plan)) != len(plan) and ev[0] != 'L':
            report('dca.plan-during-event.duplicate', 'plan %r repeats a host' % (plan,), 'C21_plan_during_events')
        ok = set(h for h in live0 if dist0[h] != IGNORED) | set(h for h in live if dist2[h] != IGNORED)
        if set(plan) - ok:
            report('dca.plan-during-event.not-live-host-yielded', 'plan %r contains %r, neither live before nor after %r' % (plan, sorted(set(plan) - ok), ev),
                   'C21_plan_during_events')
        must = set(h for h in live0 & live if dist0[h] != IGNORED and dist0[h] == dist2[h] and dcs0[h] == world.dc(h))
        if must - set(plan):
            report('dca.plan-during-event.live-host-missing', 'plan %r lacks %r, live and at the same distance before and after %r'
                   % (plan, sorted(must - set(plan)), ev), 'C21_plan_during_events')
    return {'plan': plan, 'exception': exc, 'fired': fired['v']}


# ---------------------------------------------------------------------------------------- C22
def run_token_aware(case, fixed_shuffle=True):
    """case = {'dcs', 'child': spec, 'history', 'replicas': [...], 'up': [None|True|False per host], 'shuffle': perm or None,
               'routed': bool, 'keyspace': bool}.  Returns (child_plan, plan, distances, replicas_as_iterated)."""
    import cassandra.policies as P
    spec = case['child']
    world = world_of(spec)
    child = make_base(spec)
    pol = P.TokenAwarePolicy(child, shuffle_replicas=case.get('shuffle') is not None)
    for ev in case['history']:
        apply_event(world, pol, ev)
    if pol._cluster_metadata is None:
        pol._cluster_metadata = world.cluster.metadata
    for i, u in enumerate(case['up']):
        world.hosts[i].is_up = u
    world.cluster.metadata.replicas = [world.hosts[i] for i in case['replicas']]
    n = len(world.hosts)
    dist = [pol.distance(world.hosts[i]) for i in range(n)]
    ord_ = set_order(world, spec, child)
    pos = child._position
    # the child plan the wrapper will see: same position, computed on the side and position restored
    child_plan = world.ids(list(child.make_query_plan('ks', None)))
    child._position = pos
    q = Query(routing_key=b'k' if case.get('routed', True) else None, keyspace='ks' if case.get('keyspace', True) else None)
    old = P.shuffle
    perm = case.get('shuffle')
    seen = {}
    box = {'perm': None}

    def scripted_shuffle(lst):
        pm = box['perm']
        if pm is not None:
            items = list(lst)
            lst[:] = [items[j] for j in pm if j < len(items)] + [items[j] for j in range(len(items)) if j not in pm]
        seen['order'] = world.ids(lst)
    P.shuffle = scripted_shuffle
    try:
        if case.get('prior_shuffle') is not None:
            # another TokenAwarePolicy (another execution profile) with shuffle_replicas=True shares the Metadata and planned first
            other = P.TokenAwarePolicy(child, shuffle_replicas=True)
            other._cluster_metadata = world.cluster.metadata
            box['perm'] = case['prior_shuffle']
            list(other.make_query_plan(None, Query(routing_key=b'k', keyspace='ks')))
            child._position = pos
            seen.clear()
        box['perm'] = perm
        plan = world.ids(list(pol.make_query_plan(None, q)))
    finally:
        P.shuffle = old
    order = seen.get('order', list(case['replicas']))
    return {'child_plan': child_plan, 'plan': plan, 'dist': dist, 'order': order, 'ord': ord_, 'pos': pos}


def check_token_aware(case, res, report):
    """C22 on one observed plan (routed statements only)."""
    plan, child_plan, dist, order = res['plan'], res['child_plan'], res['dist'], res['order']
    up = case['up']
    if not (case.get('routed', True) and case.get('keyspace', True)):
        if plan != child_plan:
            report('ta.unrouted.differs', 'no routing key/keyspace: plan %r != child plan %r' % (plan, child_plan), 'C22_unrouted')
        return
    prefix = [h for h in order if up[h] and dist[h] == LOCAL]
    if plan[:len(prefix)] != prefix and case.get('prior_shuffle') is not None and case.get('shuffle') is None \
            and sorted(plan[:len(prefix)]) == sorted(prefix):
        report('ta.prefix.shared-replica-list-shuffled', 'plan %r does not start with the up local replicas in ring order %r: another policy '
               'with shuffle_replicas shuffled the token map\'s cached replica list in place' % (plan, prefix), 'C22_prefix')
    elif plan[:len(prefix)] != prefix:
        report('ta.prefix', 'plan %r does not start with the up local replicas %r (replicas %r)' % (plan, prefix, order), 'C22_prefix')
    if len(set(order)) == len(order) and len(set(child_plan)) == len(child_plan) and len(set(plan)) != len(plan):
        report('ta.duplicate', 'plan %r repeats a host (replicas %r child %r)' % (plan, order, child_plan), 'C22_nodup')
    lost = [h for h in child_plan if h not in plan]
    if lost:
        addrs = case['child'].get('addrs')
        cls = ('replica-not-up' if all(h in order and not up[h] for h in lost) else
               'shares-address-with-yielded-host' if addrs and all(any(addrs[h] == addrs[x] and h != x for x in plan) for h in lost) else 'other')
        report('ta.lost.%s' % cls, 'hosts %r of the child plan %r are missing from %r (replicas %r, up %r, dist %r)'
               % (lost, child_plan, plan, order, up, dist), 'C22_nothing_lost')
    rest = plan[len(prefix):] if plan[:len(prefix)] == prefix else None
    if rest is not None and not lost:
        want = [h for h in child_plan if h not in prefix]
        if rest != want:
            report('ta.rest-order', 'after the replicas %r the plan continues %r, child order gives %r' % (prefix, rest, want), 'C22_rest_order')
