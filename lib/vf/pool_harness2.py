"""Drive the REAL cassandra.pool.HostConnectionPool (protocol v1/v2 pool) region by region (C12), against Model/PoolV2.v.
Same technique as pool_harness.py: hooking locks (pool._lock, Connection.lock), hooks at the factory call, the failure
signal and the first flag read of return_connection; the condition variable is a no-op (a wake-up is always "spurious")."""
import sys
from vf import pool_harness as H


class NoCond(object):
    """HostConnectionPool._conn_available_condition: waiting = the borrower is parked; it resumes after whatever the history
    schedules at that point (an instrumented point like a lock acquisition)"""
    h = None

    def __enter__(self):
        return self

    def __exit__(self, *a):
        return False

    def wait(self, timeout=None):
        h = self.h
        if h is not None and h.armed and h.depth == 0:
            h.hook('wait')
            h.woke_shut = bool(h.pool.is_shutdown)
        return False

    def notify(self, n=1):
        pass

    def notify_all(self):
        pass


class TrashSet(set):
    """HostConnectionPool._trash; an insertion made while pool._lock is NOT held comes after the connection was taken out of
    _connections in an earlier region: in that window the connection is in neither collection -- let a shutdown() run there"""
    h = None

    def add(self, x):
        h = self.h
        if h is not None and h.pool._lock.held == 0 and not h.in_window:
            h.window_trash_add(x)
        set.add(self, x)


class Cluster2(object):
    connect_to_remote_hosts = True
    connect_timeout = 5

    def __init__(self, h):
        self.h = h

    def get_core_connections_per_host(self, d):
        return self.h.core

    def get_max_connections_per_host(self, d):
        return self.h.maxc

    def get_max_requests_per_connection(self, d):
        return self.h.maxreqs

    def get_min_requests_per_connection(self, d):
        return self.h.minreqs

    def connection_factory(self, endpoint, *a, **kw):
        h = self.h
        if h.armed and h.depth == 0:
            h.hook('factory')
        c = h.ConnClass(protocol_version=2, on_orphaned_stream_released=kw.get('on_orphaned_stream_released'))
        c.cid = len(h.conns)
        c.opened_after_shutdown = bool(getattr(h, 'pool', None) and h.pool.is_shutdown)
        h.conns.append(c)
        return c

    def signal_connection_failure(self, host, exc, is_host_addition=False, expect_host_to_be_down=False):
        h = self.h
        if h.armed and h.depth == 0:
            h.hook('signal')
        return h.down_oracle

    def on_down(self, *a, **kw):
        pass


class Session2(object):
    keyspace = None
    is_shutdown = False

    def __init__(self, h):
        self.cluster = Cluster2(h)
        self.h = h

    def submit(self, fn, *args, **kw):
        self.h.queue.append((fn, args))


class LegacyHarness(object):
    def __init__(self, core=1, maxc=3, max_in_flight=3, maxreqs=2, minreqs=1, chooser=None):
        import cassandra.pool as P
        from cassandra.policies import HostDistance
        self.P = P
        self.core, self.maxc, self.max_in_flight, self.maxreqs, self.minreqs = core, maxc, max_in_flight, maxreqs, minreqs
        self.threshold = 10 ** 6
        self.armed, self.depth, self.nested, self.in_window = False, 0, False, False
        self.rng, self.chooser = None, chooser
        self.items, self.queue, self.conns = [], [], []
        self.streams, self.orphans = [], []
        self.down_oracle = False
        self.history, self.cur_ints, self.slot, self.replay_ints = [], None, 0, None
        self.checking = self.nchecking = None
        self.problems = []
        self.close_log = []
        self.inquery, self.query_mine = [], None
        self.ConnClass = H.make_conn_class(self)
        self.session = Session2(self)
        self.host = H.FakeHost()
        self.pool = P.HostConnectionPool(self.host, HostDistance.LOCAL, self.session)
        self.pool._lock = H.HookLock(self, 'pool')
        self.pool._conn_available_condition = NoCond()
        self.pool._conn_available_condition.h = self
        self.woke_shut = False
        self.sd_lines = first_loop_lines(P.HostConnectionPool.shutdown)
        self.pool._trash = TrashSet()
        self.pool._trash.h = self
        self.max_request_id = self.conns[0].max_request_id if self.conns else min(max_in_flight, 127)
        self.notes = []
        self.trash_at = None

    # fakes' callbacks ------------------------------------------------------------------------------------------------
    def on_close(self, c, caller):
        if c.cid is not None:
            self.close_log.append((c.cid, caller))

    def window_close(self, conn, caller):
        pass

    def shutdown_close(self, conn, frame):
        """close() called by shutdown(): an instrumented point when it is the loop over the connection list"""
        if self.armed and self.depth == 0 and frame.f_lineno in self.sd_lines:
            self.hook('sdclose')        # the connection is closed; the loop has not advanced yet (callbacks of close() run here)

    def window_orphan_removal(self, conn):
        pass

    def window_trash_add(self, conn):
        """the trashed connection is about to be recorded outside pool._lock: shutdown() on another thread lands here"""
        self.in_window = True
        a = self.armed
        self.armed = False
        try:
            if not self.pool.is_shutdown:
                self.pool.shutdown()
                self.notes.append('shutdown() ran between taking connection %d out of _connections and recording it in _trash' % conn.cid)
        finally:
            self.armed = a
            self.in_window = False

    def problem(self, key, what, theorem):
        if not any(k == key for k, _, _ in self.problems):
            self.problems.append((key, what, theorem))

    # observation ---------------------------------------------------------------------------------------------------
    def kind_of(self, fn):
        return 1 if fn.__name__ == '_create_new_connection' else 0

    def snap(self):
        p = self.pool
        out = [100, p.open_count, p._scheduled_for_creation, int(p.is_shutdown)]
        out += [101] + [c.cid for c in p._connections]
        out += [102] + sorted(c.cid for c in p._trash)
        out += [103] + [self.kind_of(t[0]) for t in (self.checking, self.nchecking) if t] + [self.kind_of(f) for (f, a) in self.queue]
        out += [104]
        for c in self.conns:
            out += [c.in_flight, len(c.orphaned_request_ids), int(c.is_closed), int(c._defunct), int(c.signaled_error)]
            if c.in_flight < 0:
                self.problem('HostConnectionPool.in_flight.negative', 'in_flight of connection %d is %d' % (c.cid, c.in_flight), 'C12v2_nonneg')
            if c.in_flight > c.max_request_id:
                self.problem('HostConnectionPool.in_flight.over-capacity', 'in_flight of connection %d is %d > max_request_id %d'
                             % (c.cid, c.in_flight, c.max_request_id), 'C12v2_capacity')
        return out

    def hook(self, kind):
        self.items.append(self.snap())
        if self.nested:
            self.nchecking = None
            return
        slot = self.slot
        self.slot += 1
        while len(self.cur_ints) <= slot:
            self.cur_ints.append([])
        saved = (self.down_oracle, self.P.time)
        self.nested = True
        try:
            if self.replay_ints is not None:
                for m in (self.replay_ints[slot] if slot < len(self.replay_ints) else []):
                    self.cur_ints[slot].append(list(m))
                    self.exec_mop(m)
            elif self.chooser is not None:
                for _ in range(self.chooser(self, slot, kind)):
                    m = self.rng.choice(enabled_mops(self, self.rng))
                    self.cur_ints[slot].append(list(m))
                    self.exec_mop(m)
        finally:
            self.nested = False
            self.checking = None
            self.down_oracle, self.P.time = saved
            if self.trash_at is not None:        # the scripted wall-clock condition of this return_connection call
                self.pool._next_trash_allowed_at = self.trash_at

    # operations ----------------------------------------------------------------------------------------------------
    def run_op(self, mop, ints=None):
        self.cur_ints, self.slot = [], 0
        self.replay_ints = ints
        self.armed = True
        try:
            self.exec_mop(mop)
        finally:
            self.armed = False
        self.history.append([list(mop), self.cur_ints])

    def quiet(self, fn):
        a = self.armed
        self.armed = False
        try:
            return fn()
        finally:
            self.armed = a

    def exec_mop(self, mop):
        from cassandra.connection import ConnectionException
        P = self.P
        kind = mop[0]
        res = 205
        old_time = P.time
        P.time = H.FakeTime()
        pool = self.pool
        try:
            if kind == 'borrow':
                was_shutdown = pool.is_shutdown
                outer_woke, self.woke_shut = self.woke_shut, False
                try:
                    conn, rid = pool.borrow_connection(timeout=mop[1])
                    if self.woke_shut:
                        self.problem('HostConnectionPool._wait_for_conn.stream-handed-out-after-shutdown',
                                     'a borrower parked in _wait_for_conn resumed after shutdown() and was handed stream %d on connection %d '
                                     '(closed: %s) instead of failing' % (rid, conn.cid, conn.is_closed), 'C12v2_woken_borrower_fails')
                    self.streams.append((conn.cid, rid))
                    res = [200, conn.cid]
                    if was_shutdown:
                        self.problem('HostConnectionPool.borrow_connection.after-shutdown-succeeded',
                                     'borrow_connection on a pool that was already shut down returned connection %d' % conn.cid,
                                     'C12v2_borrow_after_shutdown_fails')
                    if conn.in_flight > conn.max_request_id:
                        self.problem('HostConnectionPool.in_flight.over-capacity', 'borrow handed out connection %d with in_flight %d > max_request_id %d'
                                     % (conn.cid, conn.in_flight, conn.max_request_id), 'C12v2_capacity')
                except ConnectionException:
                    res = 201
                except P.NoConnectionsAvailable:
                    res = 202
                finally:
                    self.woke_shut = outer_woke
            elif kind in ('return', 'orphan'):
                c = mop[1]
                st = [s for s in self.streams if s[0] == c]
                if not st:
                    self.items.append([999])
                    return
                self.streams.remove(st[0])
                conn = self.conns[c]
                self.down_oracle = bool(mop[2])
                outer_trash_at = self.trash_at
                self.trash_at = pool._next_trash_allowed_at = 0 if mop[3] else float('inf')
                if kind == 'return':
                    self.quiet(lambda: conn.request_ids.append(st[0][1]))
                    pool.return_connection(conn)
                else:
                    self.orphans.append(st[0])

                    def region():
                        with conn.lock:
                            conn.orphaned_request_ids.add(st[0][1])
                    self.quiet(region)
                    pool.return_connection(conn, stream_was_orphaned=True)
                self.trash_at = outer_trash_at
            elif kind == 'late':
                c = mop[1]
                st = [s for s in self.orphans if s[0] == c]
                if not st:
                    self.items.append([999])
                    return
                self.orphans.remove(st[0])
                self.conns[c].process_msg(H.Hdr(st[0][1]), b'')
            elif kind == 'defunct':
                conn = self.conns[mop[1]]
                self.quiet(lambda: conn.defunct(ConnectionException('scripted failure')))
            elif kind == 'task':
                if self.queue:
                    fn, args = self.queue.pop(0)
                    if self.nested:
                        self.nchecking = (fn, args)
                    else:
                        self.checking = (fn, args)
                    fn(*args)
                    self.checking = self.nchecking = None
            elif kind == 'shutdown':
                pool.shutdown()
            elif kind == 'ensurecore':
                pool.ensure_core_connections()
            else:
                raise ValueError(kind)
        finally:
            P.time = old_time
        self.items.append(self.snap())
        self.items.append(res if isinstance(res, list) else [res])

    def leaks(self):
        out = []
        for c in self.conns:
            if not c.is_closed:
                key = 'HostConnectionPool.connection-left-open'
                if self.notes:
                    key = 'HostConnectionPool._maybe_trash_connection.trash-recorded-outside-lock'
                elif c.opened_after_shutdown:
                    key = 'HostConnectionPool._add_conn_if_under_max.opened-across-shutdown'
                elif c in self.pool._connections:
                    key = 'HostConnectionPool.shutdown.connection-skipped'
                out.append((key, c.cid))
        return out


def first_loop_lines(fn):
    """source lines of the body of the first `for` loop of HostConnectionPool.shutdown (the one over self._connections)"""
    import ast, inspect, textwrap
    lines, start = inspect.getsourcelines(fn)
    tree = ast.parse(textwrap.dedent(''.join(lines)))
    for n in ast.walk(tree):
        if isinstance(n, ast.For) and '_connections' in ast.unparse(n.iter):
            return set(range(start + n.lineno - 1, start + n.end_lineno))
    return set()


def enabled_mops(h, rng):
    p = h.pool
    cands = []
    w = lambda n, m: cands.extend([m] * n)
    w(7, ['borrow', rng.choice([0, 1, 1, 2])])
    for cid in sorted(set(s[0] for s in h.streams)):
        w(4, ['return', cid, rng.random() < 0.25, rng.random() < 0.6])
        if not p.is_shutdown:
            w(2, ['orphan', cid, rng.random() < 0.25, rng.random() < 0.6])
    for cid in sorted(set(s[0] for s in h.orphans)):
        w(2, ['late', cid])
    for c in h.conns:
        if not (c.is_closed or c._defunct):
            w(1, ['defunct', c.cid])
    if h.queue and h.checking is None:
        w(8, ['task'])
    w(1, ['shutdown'])
    if rng.random() < 0.2:
        w(1, ['ensurecore'])
    return cands


def close_out(h):
    """shutdown, every executor task runs; requests still pending on a shut-down pool end by client timeout (no call into the pool)"""
    h.chooser = None
    if not h.pool.is_shutdown:
        h.run_op(['shutdown'], ints=[])
    guard = 0
    while h.queue and guard < 20:
        h.run_op(['task'], ints=[])
        guard += 1


def gen_history(rng, n_ops, cfg, p_int=0.3):
    h = LegacyHarness(*cfg, chooser=H.make_chooser(rng, p_int))
    h.rng = rng
    for _ in range(n_ops):
        h.run_op(rng.choice(enabled_mops(h, rng)))
    close_out(h)
    return h


def run_replay(hist, cfg, close=True):
    h = LegacyHarness(*cfg)
    try:
        for m, ints in hist:
            h.run_op(m, ints=ints)
        if close:
            close_out(h)
    except Exception as e:
        h.crash = repr(e)
        return h
    if any(it == [999] for it in h.items):
        return None
    return h


def failure_keys(h):
    if h is None:
        return set()
    ks = set(k for k, _ in h.leaks()) | set(k for k, _, _ in h.problems)
    if getattr(h, 'crash', None):
        ks.add('HostConnectionPool.exception')
    return ks


def shrink(hist, key, cfg, budget=200):
    def fails(hh):
        return key in failure_keys(run_replay(hh, cfg))
    cur = [[list(m), [[list(x) for x in sl] for sl in ints]] for m, ints in hist]
    changed = True
    while changed and budget > 0:
        changed = False
        for i in range(len(cur) - 1, -1, -1):
            cand = cur[:i] + cur[i + 1:]
            budget -= 1
            if fails(cand):
                cur, changed = cand, True
        for i in range(len(cur)):
            for s in range(len(cur[i][1])):
                for j in range(len(cur[i][1][s]) - 1, -1, -1):
                    cand = [[m, [list(sl) for sl in ints]] for m, ints in cur]
                    del cand[i][1][s][j]
                    budget -= 1
                    if fails(cand):
                        cur, changed = cand, True
    for e in cur:
        while e[1] and not e[1][-1]:
            e[1].pop()
    return cur


def mop_coq(m):
    b = lambda x: 'true' if x else 'false'
    k = m[0]
    if k == 'borrow':
        return '(LMBorrow %d%%nat)' % m[1]
    if k == 'return':
        return '(LMReturn %d%%nat %s %s)' % (m[1], b(m[2]), b(m[3]))
    if k == 'orphan':
        return '(LMOrphan %d%%nat %s %s)' % (m[1], b(m[2]), b(m[3]))
    if k == 'late':
        return '(LMLate %d%%nat)' % m[1]
    if k == 'defunct':
        return '(LMDefunct %d%%nat)' % m[1]
    if k == 'task':
        return 'LMTask'
    if k == 'shutdown':
        return 'LMShutdown'
    if k == 'ensurecore':
        return 'LMEnsureCore'
    raise ValueError(k)


def hist_coq(hist):
    parts = []
    for m, ints in hist:
        while ints and not ints[-1]:
            ints = ints[:-1]
        parts.append('(%s, [%s])' % (mop_coq(m), '; '.join('[%s]' % '; '.join(mop_coq(x) for x in sl) for sl in ints)))
    return '[%s]' % '; '.join(parts)


def coq_trace(cfg, hist):
    core, maxc, mif, maxreqs, minreqs = cfg
    return 'ltrace %d%%nat %d %d %d %d %d %s' % (core, core, maxc, min(mif, 127), maxreqs, minreqs, hist_coq(hist))
