"""Case construction and comparison shared by checks/C01.py and checks/C02.py (see codec_gen.py for the syntax)."""
import glob, json, os
from . import core
from . import codec_gen as G

MODEL_REQ = ['PyBase', 'MarshalModel', 'Utf8Model', 'CqlType', 'CqlCodec', 'CqlSim', 'CassandraSpecInt', 'CassandraSpec']


def wf_type(t):
    k = t[0]
    if k == 's':
        return True
    if k in ('list', 'set'):
        return wf_type(t[1])
    if k == 'map':
        return wf_type(t[1]) and wf_type(t[2])
    if k in ('tuple', 'udt'):
        return len(t[1]) > 0 and all(wf_type(x) for x in t[1])
    if k == 'vector':
        return t[2] >= 1 and wf_type(t[1])
    if k in ('frozen', 'reversed'):
        return not (t[1][0] == 's' and t[1][1] in ('text', 'ascii', 'blob')) and wf_type(t[1])
    raise ValueError(t)


def py_repr(t, v):
    k = t[0]
    if v[0] == 'null':
        return True
    if k == 's':
        return not (t[1] == 'timestamp' and v[0] == 'int' and not (G.TS_MIN <= v[1] <= G.TS_MAX))
    if k in ('list', 'set'):
        return all(py_repr(t[1], x) for x in v[1])
    if k == 'vector':
        return all(x[0] != 'null' and py_repr(t[1], x) for x in v[1])
    if k == 'map':
        return all(py_repr(t[1], a) and py_repr(t[2], b) for a, b in v[1])
    if k in ('tuple', 'udt'):
        return len(v[1]) > 0 and all(py_repr(tt, x) for tt, x in zip(t[1], v[1]))
    return py_repr(t[1], v)


def first_diff(t, a, b, in_coll=False):
    """classify where the decoded value b (canonical) differs from the expected normal form a"""
    k = t[0]
    if a == b:
        return None
    if k in ('frozen', 'reversed'):
        return first_diff(t[1], a, b, in_coll)
    if a[0] == 'null' or b[0] == 'null':
        return G.kind_of(t) + ('.null-in-collection' if in_coll and a[0] == 'null' else '.null')
    if a[0] != b[0]:
        return 'timestamp' if b[0] == 'int-us' else G.kind_of(t) + '.kind'
    if k == 's':
        return t[1]
    if k == 'map':
        if len(a[1]) != len(b[1]):
            return 'map.size'
        for (ka, va), (kb, vb) in zip(a[1], b[1]):
            d = first_diff(t[1], ka, kb, True) or first_diff(t[2], va, vb, True)
            if d:
                return d
        return 'map'
    if len(a[1]) != len(b[1]):
        return k + '.size'
    subs = t[1] if k in ('tuple', 'udt') else [t[1]] * len(a[1])
    for tt, x, y in zip(subs, a[1], b[1]):
        d = first_diff(tt, x, y, k in ('list', 'set'))
        if d:
            return d
    return k


def key_class(t, v, pv):
    """which kind of map key the value contains (for the finding key): null, tuple written short, collection at v1/v2, other"""
    found = set()

    def short(tt, x):          # a tuple/UDT value with fewer items than fields, anywhere in x
        k = tt[0]
        if x[0] == 'null' or k == 's':
            return False
        if k in ('frozen', 'reversed'):
            return short(tt[1], x)
        if k in ('list', 'set', 'vector'):
            return any(short(tt[1], y) for y in x[1])
        if k == 'map':
            return any(short(tt[1], a) or short(tt[2], b) for a, b in x[1])
        return len(x[1]) < len(tt[1]) or any(short(t3, y) for t3, y in zip(tt[1], x[1]))

    def strip(tt):
        while tt[0] in ('frozen', 'reversed'):
            tt = tt[1]
        return tt

    def walk(tt, x, top):
        k = tt[0]
        if x[0] == 'null' or k == 's':
            return
        if k in ('frozen', 'reversed'):
            return walk(tt[1], x, top)
        if k in ('list', 'set', 'vector'):
            for y in x[1]:
                walk(tt[1], y, False if k != 'vector' else top)
        elif k == 'map':
            for a, b in x[1]:
                if a[0] == 'null':
                    found.add('null-key')
                elif short(tt[1], a):
                    found.add('short-tuple-key')
                elif G.contains_kind(tt[1], 'set'):
                    found.add('unsorted-set-in-key')
                elif top and pv < 3 and strip(tt[1])[0] in ('list', 'set', 'map'):
                    found.add('collection-key-v1v2')
                walk(tt[1], a, False)
                walk(tt[2], b, False)
        else:
            for t3, y in zip(tt[1], x[1]):
                walk(t3, y, False)
    walk(t, v, True)
    # known classes first, so that an open finding never hides behind another label
    for c in ('null-key', 'short-tuple-key', 'unsorted-set-in-key', 'collection-key-v1v2'):
        if c in found:
            return c
    return 'other'


def decode_oracle(ctx, c, prefix, theorem, what, api=True):
    """on the implementation: the bytes written for x (C01) / Cassandra's encoding of x (C02) must decode to norm(x)"""
    if 'bs' in c or c['enc'] is None:
        return
    t, v = c['t'], c['v']
    if not (wf_type(t) and py_repr(t, v)):
        ctx.count('outside_statement', 'wrapper-over-text / empty tuple / timestamp beyond datetime')
        return
    want = G.norm(t, v)
    got = G.norm(t, c['dec']) if c['dec'] is not None else None
    if got == want:
        if api and c.get('api'):
            cls = key_class(t, v, c['pv'])
            if cls == 'unsorted-set-in-key':
                # the harness wrote a set inside a map key in arbitrary order; Cassandra only ever sends sets sorted, and the
                # driver's sortedset re-serializes in sorted order
                ctx.count('outside_statement', 'unsorted set inside a map key')
                return
            ctx.violation('map-unreadable.' + cls,
                          'the decoded map cannot be read through the Mapping API (items()/m[key] raise %s): %s at protocol v%d, value %s'
                          % (c['api'], json.dumps(t), c['pv'], json.dumps(v)[:200]),
                          case={'pv': c['pv'], 't': t, 'v': v}, expected='items() == decoded pairs', actual=c['api'], theorem='C01_map_keys_found')
        return
    where = 'decode-raises.' + G.kind_of(t) if got is None else first_diff(t, want, got)
    ctx.violation(prefix + '.' + str(where),
                  '%s for %s at protocol v%d: value %s came back as %s%s'
                  % (what, json.dumps(t), c['pv'], json.dumps(v)[:200], json.dumps(c['dec'])[:200], ' (%s)' % c['dec_exc'] if c['dec_exc'] else ''),
                  case={'pv': c['pv'], 't': t, 'v': v}, expected=want, actual=c['dec'] if c['dec'] is not None else c['dec_exc'],
                  theorem=theorem)


def image_oracle(ctx, c):
    """hand-built encodings: the driver must decode them to the value Cassandra means"""
    t = c['t']
    want = G.norm(t, c['want'])
    got = G.norm(t, c['dec']) if c['dec'] is not None else None
    if got == want:
        return
    where = 'decode-raises.' + G.kind_of(t) if got is None else first_diff(t, want, got)
    ctx.violation('decodes-image.hand-built.' + str(where),
                  'Cassandra\'s encoding %s of %s value %s decodes to %s%s at protocol v%d'
                  % (bytes(c['bs']).hex(), json.dumps(t), json.dumps(c['want']), json.dumps(c['dec']), ' (%s)' % c['dec_exc'] if c['dec_exc'] else '', c['pv']),
                  case={'pv': c['pv'], 't': t, 'bs': c['bs'], 'want': c['want']}, expected=want, actual=c['dec'] if c['dec'] is not None else c['dec_exc'],
                  theorem='C02_decodes_image')


def run_case(pv, t, v, rng=None, stream='valid'):
    """encode with the real driver, then decode what it produced"""
    T = G.driver_type(t, rng)
    try:
        obj = G.to_py(t, v, rng)
    except Exception as e:       # the value cannot even be built as a Python object: not a case
        return None
    enc, enc_exc = G.impl_encode(T, obj, pv)
    dec, dec_exc = (None, None)
    api = None
    if enc is not None:
        dec, dec_exc = G.impl_decode(T, t, enc, pv)
        api = G.impl_api_check(T, t, enc, pv)
    return {'stream': stream, 'pv': pv, 't': t, 'v': v, 'enc': enc, 'enc_exc': enc_exc, 'dec': dec, 'dec_exc': dec_exc, 'api': api}


def decode_case(pv, t, bs, stream='decode'):
    T = G.driver_type(t)
    dec, dec_exc = G.impl_decode(T, t, bs, pv)
    return {'stream': stream, 'pv': pv, 't': t, 'bs': bs, 'dec': dec, 'dec_exc': dec_exc}


def load_corpus(pid):
    out = []
    for p in sorted(glob.glob(os.path.join(core.VERIF, 'corpus', pid, '*.json'))):
        with open(p) as f:
            for c in json.load(f):
                out.append(c)
    return out


SPECIALS = [
    # (pv, type, value): hand-picked shapes every run sees (nulls nested two levels deep, v2 vs v3 widths, empties)
    (4, ['list', ['s', 'text']], ['seq', [['null'], ['text', [97]]]]),
    (4, ['list', ['s', 'int']], ['seq', [['null'], ['int', 1]]]),
    (3, ['set', ['s', 'int']], ['seq', [['int', 3], ['null'], ['int', 1]]]),
    (5, ['map', ['s', 'int'], ['s', 'text']], ['map', [[['int', 1], ['null']], [['int', 2], ['text', [120]]]]]),
    (4, ['map', ['s', 'text'], ['s', 'int']], ['map', [[['null'], ['int', 5]]]]),
    (2, ['list', ['s', 'int']], ['seq', [['int', 1], ['int', -1]]]),
    (1, ['map', ['s', 'text'], ['list', ['s', 'int']]], ['map', [[['text', [97]], ['seq', [['int', 7], ['null']]]]]]),
    (2, ['list', ['list', ['s', 'text']]], ['seq', [['seq', [['null'], ['text', []]]], ['seq', []]]]),
    (4, ['list', ['list', ['s', 'blob']]], ['seq', [['seq', [['null']]], ['null']]]),
    (4, ['tuple', [['s', 'int'], ['s', 'text'], ['s', 'int']]], ['seq', [['null'], ['text', []]]]),
    (4, ['tuple', [['list', ['s', 'int']], ['s', 'text']]], ['seq', [['seq', []], ['null']]]),
    (3, ['udt', [['s', 'int'], ['set', ['s', 'text']]]], ['seq', [['null'], ['seq', [['text', [0x1f600]]]]]]),
    (4, ['list', ['s', 'text']], ['seq', []]),
    (2, ['set', ['s', 'varint']], ['seq', []]),
    (4, ['map', ['s', 'int'], ['s', 'int']], ['map', []]),
    (4, ['s', 'timestamp'], ['int', 170234527813096]),          # 7365-08-21 12:50:13.096
    (4, ['s', 'timestamp'], ['int', -62135596800000]),
    (4, ['s', 'timestamp'], ['int', 253402300799999]),
    (4, ['list', ['s', 'timestamp']], ['seq', [['int', 253402300799999], ['int', 1]]]),
    (4, ['s', 'decimal'], ['dec', 110, 2]),
    (4, ['s', 'decimal'], ['dec', 0, 2]),
    (5, ['vector', ['s', 'text'], 2], ['seq', [['text', [97]], ['text', []]]]),
    (5, ['vector', ['s', 'float'], 3], ['seq', [['int', 0x3f800000], ['int', 0], ['int', 0x80000000]]]),
    (5, ['vector', ['vector', ['s', 'int'], 2], 2], ['seq', [['seq', [['int', 1], ['int', 2]]], ['seq', [['int', 3], ['int', 4]]]]]),
    (5, ['vector', ['s', 'tinyint'], 2], ['seq', [['int', 1], ['int', -1]]]),
    (5, ['vector', ['list', ['s', 'int']], 1], ['seq', [['seq', [['int', 1], ['null']]]]]),
    (4, ['s', 'duration'], ['dur', 2 ** 31, -1, -2 ** 63]),
    (4, ['s', 'text'], ['text', [0x10ffff, 0, 0xd7ff]]),
    (4, ['s', 'varint'], ['int', -2 ** 63 - 1]),
    (4, ['s', 'varint'], ['int', -128]),
    (4, ['tuple', [['s', 'text'], ['s', 'blob'], ['s', 'ascii']]], ['seq', [['text', []], ['bytes', []], ['text', []]]]),
    (4, ['udt', [['s', 'text'], ['s', 'int'], ['s', 'blob']]], ['seq', [['text', []], ['null'], ['bytes', []]]]),
    (3, ['list', ['tuple', [['s', 'text'], ['s', 'int']]]], ['seq', [['seq', [['text', []], ['int', 0]]], ['seq', [['null'], ['null']]]]]),
    (4, ['map', ['s', 'text'], ['udt', [['s', 'blob'], ['s', 'ascii']]]], ['map', [[['text', []], ['seq', [['bytes', []], ['text', []]]]]]]),
    (5, ['set', ['tuple', [['s', 'ascii'], ['tuple', [['s', 'text']]]]]], ['seq', [['seq', [['text', []], ['seq', [['text', []]]]]]]]),
    # collection-typed map keys at v1/v2: the key arrives in the v3 inner layout and must still be found in the decoded map
    (2, ['map', ['frozen', ['list', ['s', 'int']]], ['s', 'int']], ['map', [[['seq', [['int', 1], ['int', 2]]], ['int', 7]]]]),
    (1, ['map', ['set', ['s', 'text']], ['s', 'text']], ['map', [[['seq', [['text', [97]]]], ['text', [98]]], [['seq', []], ['null']]]]),
    (2, ['map', ['map', ['s', 'int'], ['s', 'int']], ['list', ['s', 'int']]], ['map', [[['map', [[['int', 1], ['int', 2]]]], ['seq', [['int', 3]]]]]]),
    # wrappers are transparent for the fixed serialized size: no per-element length prefix (repo fix for C28-4)
    (1, ['vector', ['reversed', ['s', 'bigint']], 2], ['seq', [['int', 1], ['int', -2]]]),
    (65, ['vector', ['frozen', ['s', 'double']], 2], ['seq', [['int', 0x3ff0000000000000], ['int', 0]]]),
    (4, ['reversed', ['list', ['vector', ['reversed', ['s', 'float']], 2]]], ['seq', [['seq', [['int', 0x3f800000], ['int', 0]]], ['null']]]),
    (5, ['vector', ['frozen', ['vector', ['reversed', ['s', 'int']], 2]], 2], ['seq', [['seq', [['int', 1], ['int', 2]]], ['seq', [['int', 3], ['int', 4]]]]]),
    (5, ['vector', ['reversed', ['s', 'text']], 2], ['seq', [['text', [97]], ['text', [98, 99]]]]),
    (3, ['s', 'date'], ['int', -1]),
    (3, ['s', 'date'], ['int', -365]),
    (4, ['list', ['s', 'date']], ['seq', [['int', -1], ['int', 0], ['int', -20000]]]),
]

# hand-built encodings (written from the protocol specification, not produced by any encoder): what Cassandra sends
# for the value on the right.  [pv, type, hex, value]
IMAGES = [
    [4, ['tuple', [['s', 'text'], ['s', 'int']]], '00000000' '00000004' '0000002a', ['seq', [['text', []], ['int', 42]]]],
    [4, ['tuple', [['s', 'blob'], ['s', 'ascii'], ['s', 'int']]], '00000000' '00000000' 'ffffffff', ['seq', [['bytes', []], ['text', []], ['null']]]],
    [3, ['udt', [['s', 'int'], ['s', 'text']]], '00000004' '00000001' '00000000', ['seq', [['int', 1], ['text', []]]]],
    [4, ['udt', [['s', 'text'], ['s', 'text']]], '00000000', ['seq', [['text', []], ['null']]]],
    [4, ['list', ['tuple', [['s', 'text'], ['s', 'blob']]]], '00000002' '00000008' '00000000' '00000000' '00000009' '00000001' '61' 'ffffffff',
     ['seq', [['seq', [['text', []], ['bytes', []]]], ['seq', [['text', [97]], ['null']]]]]],
    [2, ['map', ['s', 'int'], ['udt', [['s', 'ascii']]]], '0001' '0004' '00000007' '0004' '00000000', ['map', [[['int', 7], ['seq', [['text', []]]]]]]],
    [4, ['list', ['s', 'text']], '00000003' '00000000' 'ffffffff' '00000001' '7a', ['seq', [['text', []], ['null'], ['text', [122]]]]],
    [5, ['vector', ['s', 'text'], 2], '00' '0161', ['seq', [['text', []], ['text', [97]]]]],
    [4, ['s', 'varint'], 'ff7f', ['int', -129]],
    [4, ['s', 'varint'], '80', ['int', -128]],
    [4, ['s', 'duration'], '02' '03' 'ffffffffffffffffff', ['dur', 1, -2, -2 ** 63]],
]


def image_cases():
    out = []
    for pv, t, hx, v in IMAGES:
        c = decode_case(pv, t, list(bytes.fromhex(hx)), 'image')
        c['want'] = v
        out.append(c)
    return out


BIG_SIZES = [16383, 16384, 16385, 20000, 32767, 32768, 40000]


def big16_cases(rng, n=3):
    """protocol v1/v2 collections whose 16-bit count / element length is >= 0x8000 (unsigned on the wire)"""
    out = []
    shapes = []
    for _ in range(n):
        L = rng.choice([32767, 32768, 32769, 40000, 65535])
        shapes += [
            (['list', ['s', 'blob']], ['seq', [['bytes', [5]], ['bytes', [7] * L], ['bytes', []]]]),
            (['set', ['s', 'text']], ['seq', [['text', [97] * L], ['text', [98]]]]),
            (['list', ['s', 'text']], ['seq', [['text', []]] * L]),
            (['map', ['s', 'blob'], ['s', 'blob']], ['map', [[['bytes', [1]], ['bytes', [9] * L]]]]),
        ]
    rng.shuffle(shapes)
    for t, v in shapes[:max(3, n)]:
        c = run_case(rng.choice([1, 2]), t, v, None, 'big16')
        if c:
            out.append(c)
    return out


def big_vector_cases(rng, n=3):
    """variable-width vector elements of 16-40 KiB: the unsigned-vint size prefix crosses its 2-byte/3-byte boundary (2^14)"""
    out = []
    sizes = [16384, rng.choice(BIG_SIZES)] + [rng.choice(BIG_SIZES + [rng.randint(16384, 40000)]) for _ in range(max(0, n - 2))]
    for i, L in enumerate(sizes):
        if i % 2 == 0:
            t, v = ['vector', ['s', 'text'], 2], ['seq', [['text', [97] * L], ['text', [98]]]]
        else:
            t, v = ['vector', ['s', 'blob'], 1], ['seq', [['bytes', [7] * L]]]
        c = run_case(rng.choice([4, 5]), t, v, None, 'bigvec')
        if c:
            out.append(c)
    return out



def gen_cases(ctx, n_valid, n_range, n_decode, depth):
    rng = ctx.rng
    cases = []
    for c in load_corpus('C01') + load_corpus('C02'):
        r = run_case(c['pv'], c['t'], c['v'], None, 'corpus')
        if r:
            cases.append(r)
    for pv, t, v in SPECIALS:
        for p in sorted(set([pv, 2, 4])):
            r = run_case(p, t, v, rng if G.contains_scalar(t, 'date') else None, 'special')
            if r:
                cases.append(r)
    cases.extend(big_vector_cases(rng, 3 if n_valid < 5000 else 12))
    cases.extend(big16_cases(rng, 3 if n_valid < 5000 else 8))
    encs = []
    for i in range(n_valid):
        t = G.gen_type(rng, rng.randint(0, depth))
        pv = rng.choice(G.PVS)
        v = G.gen_value(rng, t, nulls=True, pnull=rng.choice([0.0, 0.1, 0.25]))
        r = run_case(pv, t, v, rng, 'valid')
        if r is None:
            continue
        cases.append(r)
        if r['enc'] is not None and len(r['enc']) < 200:
            encs.append((pv, t, r['enc']))
    # range-boundary stream: a scalar just outside its range, alone or one level inside a container
    ranged = [s for s in G.SCALARS if s in G.RANGES and s not in ('double', 'float')] + ['ascii', 'text', 'decimal', 'duration']
    for i in range(n_range):
        s = rng.choice(ranged)
        bad = G.gen_scalar(rng, s, valid=False)
        t, v = ['s', s], bad
        r = rng.random()
        if r < 0.2:
            t, v = ['list', t], ['seq', [G.gen_scalar(rng, s), bad]]
        elif r < 0.3:
            t, v = ['tuple', [['s', 'int'], t]], ['seq', [['int', 1], bad]]
        elif r < 0.4:
            t, v = ['map', ['s', 'int'], t], ['map', [[['int', 1], bad]]]
        elif r < 0.5:
            t, v = ['vector', t, 1], ['seq', [bad]]
        c = run_case(rng.choice(G.PVS), t, v, None, 'range')
        if c:
            cases.append(c)
    # shape errors the driver must refuse: wrong arity, wrong vector dimension, null in a v1/v2 collection
    for i in range(max(10, n_range // 5)):
        r = rng.random()
        if r < 0.3:
            t = ['tuple', [['s', 'int']] * rng.randint(1, 3)]
            v = ['seq', [['int', 1]] * (len(t[1]) + rng.randint(1, 2))]
        elif r < 0.6:
            n = rng.randint(1, 4)
            t = ['vector', ['s', rng.choice(['int', 'text', 'tinyint'])], n]
            v = ['seq', [G.gen_scalar(rng, t[1][1]) for _ in range(rng.choice([n - 1, n + 1]))]]
        elif r < 0.8:
            t = ['udt', [['s', 'int']] * rng.randint(2, 3)]
            v = ['seq', [['int', 1]] * (len(t[1]) - 1)]
        else:
            t = rng.choice([['list', ['s', 'int']], ['set', ['s', 'text']]])
            v = ['seq', [['null']]]
        c = run_case(rng.choice([1, 2, 3, 4]), t, v, None, 'shape')
        if c:
            cases.append(c)
    # malformed stream: decode mutated encodings / random bytes
    for i in range(n_decode):
        if encs and rng.random() < 0.85:
            pv, t, enc = rng.choice(encs)
            bs = G.mutate_bytes(rng, enc)
        else:
            t = G.gen_type(rng, rng.randint(0, 2))
            pv = rng.choice(G.PVS)
            bs = [rng.randrange(256) for _ in range(rng.choice([0, 1, 2, 4, 5, 8, 9, 16, 20]))]
        try:
            cases.append(decode_case(pv, t, bs))
        except AssertionError:
            pass
    return cases


def model_exprs(cases):
    """Gallina booleans: the MODEL reproduces the implementation's bytes and decoded value"""
    out = []
    for c in cases:
        t = G.gtype(c['t'])
        pv = G.gz(c['pv'])
        if 'bs' in c:
            out.append('ovalue_sim %s (from_binary %s %s %s) %s' % (t, pv, t, G.gzl(c['bs']), G.govalue(c['dec'])))
        else:
            e = 'obytes_eqb (to_binary %s %s %s) %s' % (pv, t, G.gvalue(c['v']), G.gobytes(c['enc']))
            if c['enc'] is not None:
                e += ' && ovalue_sim %s (from_binary %s %s %s) %s' % (t, pv, t, G.gzl(c['enc']), G.govalue(c['dec']))
            out.append(e)
    return out


def spec_exprs(cases):
    """Gallina booleans: the implementation's bytes are what the SPEC says (or both refuse)"""
    return ['obytes_eqb (spec_result %s %s %s) %s' % (G.gz(c['pv']), G.gtype(c['t']), G.gvalue(c['v']), G.gobytes(c['enc']))
            for c in cases]


def canon_case(c):
    if 'bs' in c:
        return [c['stream'], c['pv'], c['t'], c['bs']]
    return [c['stream'], c['pv'], c['t'], c['v']]


def nontrivial(c):
    """nested type, or a scalar that is not the all-zero/empty value"""
    if 'bs' in c:
        return len(c['bs']) > 0
    if G.type_depth(c['t']) >= 1:
        return True
    v = c['v']
    return not (v in (['int', 0], ['bool', False], ['text', []], ['bytes', []]))


def record(ctx, cases):
    for c in cases:
        sample = None
        if len(ctx.samples) < 5 and c['stream'] in ('valid', 'special') and G.type_depth(c['t']) >= 1:
            sample = {k: c.get(k) for k in ('stream', 'pv', 't', 'v', 'enc', 'dec', 'enc_exc')}
        ctx.case(canon_case(c), nontrivial=nontrivial(c), sample=sample)
        ctx.count('stream', c['stream'])
        ctx.count('pv', str(c['pv']))
        ctx.count('top_type', G.kind_of(c['t']))
        ctx.count('type_depth', str(G.type_depth(c['t'])))
        if 'bs' in c:
            ctx.count('decode_outcome', c['dec_exc'] or 'ok')
        else:
            ctx.count('encode_outcome', c['enc_exc'] or 'ok')
            if G.has_coll_null(c['t'], c['v']):
                ctx.count('features', 'null-in-collection')


def date_input_cases(ctx, rng, n):
    """util.Date(datetime / date / 'yyyy-mm-dd') -- the path SimpleDateType.serialize takes for non-Date inputs -- against the
    model (date_days_of_seconds) and, on the implementation alone, against the calendar: the day CONTAINING the instant."""
    import datetime
    from cassandra import util
    from cassandra.cqltypes import SimpleDateType
    exprs, meta = [], []
    days = [0, -1, 1, -2, -365, -366, 365, -719162, 2932896, -25567, 11016] + [rng.randint(-719162, 2932896) for _ in range(n)] + \
           [rng.randint(-40000, 40000) for _ in range(n)]
    for d in days:
        for tod in [0, 1, 43200, 67500, 86399, rng.randrange(86400)]:
            secs = 86400 * d + tod
            dt = G.EPOCH + datetime.timedelta(days=d, seconds=tod)
            ctx.count('date_inputs', 'datetime' if tod else 'midnight')
            try:
                got = util.Date(dt).days_from_epoch
                enc = list(SimpleDateType.serialize(dt, 4))
            except Exception as e:
                got, enc = 'raises %s' % type(e).__name__, None
            want = (dt.date() - datetime.date(1970, 1, 1)).days           # the calendar, independent of timegm arithmetic
            if got != want or enc != list((want + 2 ** 31).to_bytes(4, 'big')):
                ctx.violation('exact.date.from-datetime', 'date value %s is written as day %r (%s), Cassandra means day %d (%s)'
                              % (dt.isoformat(), got, bytes(enc).hex() if enc else None, want, (want + 2 ** 31).to_bytes(4, 'big').hex()),
                              case={'fn': 'date-of-datetime', 'days': d, 'tod': tod}, expected=want, actual=got, theorem='C02_date_of_instant')
            if isinstance(got, int):
                exprs.append('date_days_of_seconds %s =? %s' % (G.gz(secs), G.gz(got)))
                meta.append(('date_days_of_seconds', secs, got))
    return exprs, meta


def marshal_pool(rng, n):
    ints = list(G.INT_POOL)
    for k in range(6, 73):
        ints += [2 ** k, 2 ** k - 1, 2 ** k + 1]
    for _ in range(n):
        ints.append(rng.getrandbits(rng.choice([7, 8, 14, 15, 16, 21, 22, 28, 29, 35, 42, 49, 56, 57, 63, 64, 65, 200])))
    ints = sorted(set(abs(x) for x in ints))
    return ints + [-x for x in ints if x]


def marshal_impl_oracle(ctx, rng, n):
    """properties of cassandra.marshal alone (no model, no spec): pack/unpack read back value and size"""
    from cassandra import marshal as M
    for z in marshal_pool(rng, n):
        ctx.count('marshal_oracle', 'value')
        try:
            b = M.varint_pack(z)
            back = M.varint_unpack(b)
        except Exception as e:
            back = 'raises %s' % type(e).__name__
        if back != z:
            ctx.violation('marshal.varint.roundtrip', 'varint_unpack(varint_pack(%d)) = %r (bytes %s)' % (z, back, bytes(M.varint_pack(z)).hex()),
                          case={'fn': 'varint', 'z': z}, expected=z, actual=back, theorem='C02_varint_value')
        if 0 <= z < 2 ** 64:
            try:
                b = bytes(M.uvint_pack(z))
                back = M.uvint_unpack(b + b'\x5a\x5a')
            except Exception as e:
                b, back = b'', 'raises %s' % type(e).__name__
            if back != (z, len(b)):
                ctx.violation('marshal.uvint.roundtrip', 'uvint_unpack(uvint_pack(%d)) = %r, expected (%d, %d); bytes %s' % (z, back, z, len(b), b.hex()),
                              case={'fn': 'uvint', 'z': z}, expected=[z, len(b)], actual=back, theorem='C02_uvint_reads_back')
        if -2 ** 63 <= z < 2 ** 63:
            vs = [z, -z - 1, 0]
            try:
                back = list(M.vints_unpack(M.vints_pack(vs)))
            except Exception as e:
                back = 'raises %s' % type(e).__name__
            if back != vs:
                ctx.violation('marshal.vints.roundtrip', 'vints_unpack(vints_pack(%r)) = %r' % (vs, back),
                              case={'fn': 'vints', 'vs': vs}, expected=vs, actual=back, theorem='C02_vints_decode')


def marshal_spec_exprs(rng, n):
    """cassandra.marshal against the SPECIFICATION (CassandraSpecInt.v): Gallina booleans + descriptions"""
    from cassandra import marshal as M

    def attempt(f):
        try:
            return list(f())
        except Exception:
            return None
    exprs, meta = [], []
    i64 = '(fun z => (- 2 ^ 63 <=? z) && (z <? 2 ^ 63))'
    def add(fn, arg, spec, b):
        exprs.append('obytes_eqb (%s) %s' % (spec, G.gobytes(b)))
        meta.append((fn, arg, b, spec))
    for z in marshal_pool(rng, n):
        add('varint_pack', z, 'Some (spec_varint %s)' % G.gz(z), attempt(lambda: M.varint_pack(z)))
        if z >= 0:
            add('uvint_pack', z, 'if %s <? 2 ^ 64 then Some (spec_uvint %s) else None' % (G.gz(z), G.gz(z)), attempt(lambda: M.uvint_pack(z)))
        vs = [z, 1, -1]
        add('vints_pack', vs, 'if forallb %s %s then Some (flat_map spec_vint %s) else None' % (i64, G.gzl(vs), G.gzl(vs)),
            attempt(lambda: M.vints_pack(vs)))
    return exprs, meta


def marshal_cases(rng, n):
    """direct ties of the hand-written MarshalModel.v to cassandra.marshal (until the functions are translated from source)"""
    from cassandra import marshal as M
    exprs, meta = [], []

    def attempt(f):
        try:
            return f()
        except Exception:
            return None
    ints = list(G.INT_POOL) + [-x for x in G.INT_POOL]
    for _ in range(n):
        k = rng.randint(1, 40)
        ints.append(rng.choice([1, -1]) * rng.getrandbits(rng.choice([7, 8, 15, 16, 31, 63, 64, 65, 8 * k - 1, 8 * k, 8 * k + 1])))
    for z in ints:
        b = list(M.varint_pack(z))
        exprs.append('zlist_eqb (varint_pack %s) %s' % (G.gz(z), G.gzl(b)))
        meta.append(('varint_pack', z))
        u = attempt(lambda: list(M.uvint_pack(z))) if z >= 0 else None
        if z >= 0:
            exprs.append('obytes_eqb (uvint_pack %s) %s' % (G.gz(z), G.gobytes(u)))
            meta.append(('uvint_pack', z))
        vs = [z, rng.choice(ints[:60]), rng.choice(ints[:60])]
        rng.shuffle(vs)
        p = attempt(lambda: list(M.vints_pack(vs)))
        exprs.append('obytes_eqb (vints_pack %s) %s' % (G.gzl(vs), G.gobytes(p)))
        meta.append(('vints_pack', vs))
    for _ in range(n):
        bs = [rng.choice([0, 1, 0x7f, 0x80, 0xbf, 0xc0, 0xfe, 0xff, rng.randrange(256)]) for _ in range(rng.choice([1, 1, 2, 3, 5, 9, 10, 12]))]
        r = attempt(lambda: M.varint_unpack(bytes(bs)))
        exprs.append('match varint_unpack %s with Some z => z =? %s | None => false end' % (G.gzl(bs), G.gz(r)))
        meta.append(('varint_unpack', bs))
        r = attempt(lambda: list(M.vints_unpack(bytes(bs))))
        exprs.append('match vints_unpack %s, %s with Some a, Some b => zlist_eqb a b | None, None => true | _, _ => false end'
                     % (G.gzl(bs), 'None' if r is None else '(Some %s)' % G.gzl(r)))
        meta.append(('vints_unpack', bs))
        r = attempt(lambda: M.uvint_unpack(bytes(bs)))
        exprs.append('match uvint_read %s, %s with Some (a, n, _), Some (b, m) => (a =? b) && (n =? m) | None, None => true | _, _ => false end'
                     % (G.gzl(bs), 'None' if r is None else '(Some (%s, %s))' % (G.gz(r[0]), G.gz(r[1]))))
        meta.append(('uvint_unpack', bs))
    return exprs, meta
