"""C18 harness: the real ResultSet + ResponseFuture on a scripted paging server (fake session/pool/connection).

Nothing of the driver is patched: the fakes stand for Session._pools / HostConnection / Connection.send_msg and the
threading.Event the caller blocks on (so that "the response arrives while the caller waits" is deterministic)."""
import copy


class Deadlock(Exception):
    """result() would block forever: nothing in flight"""


class FakeEvent(object):
    def __init__(self, server):
        self.flag = False
        self.server = server

    def set(self):
        self.flag = True

    def clear(self):
        self.flag = False

    def is_set(self):
        return self.flag

    def wait(self, timeout=None):
        n = 0
        while not self.flag:
            if not self.server.deliver_one():
                raise Deadlock()
            n += 1
            if n > 50:
                raise Deadlock()
        return True


FAIL = 'F'
SPEC = 'S'     # the speculative-execution timer of this page fetch fires the moment it is armed
MARKS = (FAIL, SPEC)


def script_pages(script):
    return [x for x in script if x not in MARKS]


def expected_requests(script):
    """the paging state every request must carry when a failed request is simply repeated (model: expected_reqs None)"""
    out, cur, k = [], None, 0
    for item in script:
        out.append(cur)
        if item not in MARKS:
            cur = k
            k += 1
    return out


class Server(object):
    """script: list of items; an item is a list of rows (a page) or FAIL (the request arriving at that point ends in a
    read timeout that the default RetryPolicy rethrows to the application).  Page k (k < last) is returned with paging
    state b'S<k>'.  The server answers by the paging state CARRIED by the request (like a real coordinator): the n-th
    request carrying state c gets the n-th item scripted after the page that returned c."""

    def __init__(self, script, eager, state_of=None, mode=None):
        self.mode = mode or {}
        self.rf = None
        self.revise = []        # DSE_V2 continuous paging back-pressure messages
        self.script = script
        self.pages = script_pages(script)
        self.eager = eager
        self.sent = []          # carried paging_state of every message sent, in order
        self.pending = []       # (callback, carried state)
        self.bogus = []         # requests with a state the server never issued / after the last page
        self.state_of = state_of or (lambda k: ('S%d' % k).encode())
        self.groups = {}        # carried-state key (None | page index) -> items answering successive requests
        key, k = None, 0
        for item in script:
            self.groups.setdefault(key, []).append(item if item in MARKS else k)
            if item not in MARKS:
                key = k
                k += 1
        self.seen = {}

    def spec_due(self):
        """called when a speculative-execution timer is armed: does the script let it fire at once?"""
        if self.rf is None or self.rf._event.is_set():
            return False              # no page fetch without an outcome: a timer armed now has nothing to speculate on
        key = self.key_for(self.rf._paging_state)
        group = self.groups.get(key) or []
        n = self.seen.get(key, 0)
        if n < len(group) and group[n] == SPEC:
            self.seen[key] = n + 1
            return True
        return False

    def state_bytes(self, k):
        return self.state_of(k) if k < len(self.pages) - 1 else None

    def key_for(self, carried):
        if carried is None:
            return None
        for k in range(len(self.pages) - 1):
            if self.state_of(k) == carried:
                return k
        return 'bogus'

    def response(self, carried):
        from cassandra.protocol import ResultMessage, RESULT_KIND_ROWS, ReadTimeoutErrorMessage
        key = self.key_for(carried)
        m = ResultMessage(RESULT_KIND_ROWS)
        m.column_names = ['v']
        m.column_types = [None]
        group = self.groups.get(key)
        if key == 'bogus' or not group:
            self.bogus.append(carried)
            m.parsed_rows = []
            m.paging_state = None
            return m
        n = self.seen.get(key, 0)
        while n < len(group) - 1 and group[n] == SPEC:
            n += 1                    # a timer that was never armed / never fired
        self.seen[key] = n + 1
        item = group[min(n, len(group) - 1)]
        if item == FAIL:
            return ReadTimeoutErrorMessage(0x1200, 'scripted read timeout',
                                           {'consistency': 1, 'required_responses': 2, 'received_responses': 1, 'data_retrieved': False})
        m.parsed_rows = [(r,) for r in self.pages[item]]
        m.paging_state = self.state_bytes(item)
        if self.mode.get('cont'):
            m.stream_id = 7
            m.continuous_paging_seq = item + 1
            m.continuous_paging_last = item == len(self.pages) - 1
            m.pushed_from = item + 1          # the server goes on pushing the pages after this one
        return m

    def page_msg(self, k):
        from cassandra.protocol import ResultMessage, RESULT_KIND_ROWS
        m = ResultMessage(RESULT_KIND_ROWS)
        m.column_names, m.column_types = ['v'], [None]
        m.parsed_rows = [(r,) for r in self.pages[k]]
        m.paging_state = self.state_bytes(k)
        m.stream_id, m.continuous_paging_seq, m.continuous_paging_last = 7, k + 1, k == len(self.pages) - 1
        return m

    def on_send(self, message, cb, carried='msg'):
        if carried == 'msg':
            carried = message.paging_state
        self.sent.append(carried)
        if len(self.sent) > 3 * len(self.script) + 6:
            # a driver that keeps asking (e.g. for the same page) must not hang the check: refuse; the request then
            # fails with NoHostAvailable and the oracle reports the surplus requests
            raise RuntimeError('scripted server: too many requests')
        self.pending.append((cb, carried))
        if self.eager:
            self.deliver_one()

    def deliver_one(self):
        if not self.pending:
            return False
        cb, carried = self.pending.pop(0)
        resp = self.response(carried)
        cb(resp)
        k = getattr(resp, 'pushed_from', None)
        if k is not None and self.rf is not None and self.rf._continuous_paging_session is not None:
            for j in range(k, len(self.pages)):       # continuous paging: the remaining pages arrive unasked
                self.rf._continuous_paging_session.on_message(self.page_msg(j))
        return True


class FakeConnection(object):
    host = 'h1'

    def __init__(self, server):
        import threading
        self.server = server
        self.next_id = 0
        self.lock = threading.RLock()
        self._continuous_paging_sessions = {}

    def get_request_id(self):
        self.next_id += 1
        return self.next_id

    def new_continuous_paging_session(self, stream_id, decoder, row_factory, state):
        from cassandra.connection import ContinuousPagingSession
        sess = ContinuousPagingSession(stream_id, decoder, row_factory, self, state)
        self._continuous_paging_sessions[stream_id] = sess
        return sess

    def send_msg(self, msg, request_id, cb, encoder=None, decoder=None, result_metadata=None):
        if type(msg).__name__ == 'ReviseRequestMessage':
            self.server.revise.append((msg.op_type, msg.next_pages))
            return 10
        mode = self.server.mode
        carried = 'msg'
        if mode.get('wire'):
            # what the request CARRIES is read from the body the driver's encoder produces (independent reader)
            from vf import pgconc_options
            try:
                w = pgconc_options.wire_fields(msg, mode.get('pv', 4))
                if 'error' in w:
                    carried = b'garbled:' + w['error'].encode()
                elif 'paging' in w:
                    carried = None if w['paging'] is None else ('S%d' % w['paging']).encode()
            except Exception as e:  # noqa
                carried = b'garbled:' + type(e).__name__.encode()
        self.server.on_send(msg, cb, carried)
        return 10


class FakePool(object):
    is_shutdown = False

    def __init__(self, conn):
        self.conn = conn
        self.borrowed = 0
        self.returned = 0

    def borrow_connection(self, timeout=None, routing_key=None):
        self.borrowed += 1
        self.conn.next_id += 1
        return self.conn, self.conn.next_id

    def return_connection(self, connection, stream_was_orphaned=False):
        self.returned += 1


class FakeLBP(object):
    def __init__(self, hosts):
        self.hosts = hosts

    def make_query_plan(self, keyspace=None, query=None):
        return list(self.hosts)


class FakeTimer(object):
    def cancel(self):
        pass


class FakeCluster(object):
    def __init__(self, lbp, server=None):
        self._default_load_balancing_policy = lbp
        self._prepared_statements = {}

        class Reactor(object):
            @staticmethod
            def create_timer(delay, cb):
                t = FakeTimer()
                if server is not None and server.spec_due():
                    cb()                 # the timer fires at once
                return t
        self.connection_class = Reactor


class FakeSession(object):
    keyspace = None

    def __init__(self, server):
        from cassandra.query import tuple_factory
        self.row_factory = tuple_factory
        self.host = 'h1'
        self.conn = FakeConnection(server)
        hosts = ['h1', 'h2', 'h3', 'h4', 'h5'] if (getattr(server, 'mode', None) or {}).get('spec') else ['h1']
        self._pools = dict((h, FakePool(self.conn)) for h in hosts)
        self.cluster = FakeCluster(FakeLBP(hosts), server)

    def submit(self, fn, *a, **kw):
        fn(*a, **kw)


def default_mode(script, state_of=None):
    return {'spec': SPEC in script, 'wire': state_of is None, 'serial': False, 'pv': 4, 'cont': False}


def execute(pages, eager, state_of=None, mode=None):
    """session.execute(): a real ResponseFuture sends the first request; result() returns the real ResultSet.
    mode: spec (speculative-execution plan + 5 hosts), wire (requests observed in the encoded body), serial (the
    statement has a serial consistency level), pv (protocol version), cont (continuous paging, pv 65/66)."""
    from vf.impl import import_cluster
    cl = import_cluster()
    from cassandra.protocol import QueryMessage
    from cassandra.query import SimpleStatement
    from cassandra import ReadTimeout
    mode = dict(default_mode(pages, state_of), **(mode or {}))
    if mode['spec']:
        # late: the answers of the executions of a page fetch arrive one by one while the caller waits, the losers
        # after the next page fetch has started; otherwise every answer arrives at once
        eager = not mode.get('late')
    server = Server(pages, eager, state_of, mode)
    session = FakeSession(server)
    for _ in range(len(pages) + 1):
        cpo = cps = plan = None
        if mode['cont']:
            from cassandra.connection import ContinuousPagingState
            cpo = cl.ContinuousPagingOptions()
            cps = ContinuousPagingState(cpo.max_queue_size) if mode['pv'] >= 66 else None
        query = SimpleStatement('SELECT v FROM t', is_idempotent=True)
        if mode['spec']:
            from cassandra.policies import ConstantSpeculativeExecutionPolicy
            plan = ConstantSpeculativeExecutionPolicy(0, 1000).new_plan(None, query)
        msg = QueryMessage('SELECT v FROM t', 1, serial_consistency_level=8 if mode['serial'] else None, fetch_size=2,
                           continuous_paging_options=cpo)
        server.rf = None
        rf = cl.ResponseFuture(session, msg, query, None, speculative_execution_plan=plan, continuous_paging_state=cps)
        server.rf = rf
        rf._event = FakeEvent(server)
        rf.send_request()
        try:
            rs = rf.result()
        except ReadTimeout:
            continue                 # the first request failed: the application calls execute() again
        return server, rf, rs
    raise RuntimeError('execute() keeps failing')


def state_id(b):
    """paging-state bytes -> model integer"""
    if b is None:
        return None
    try:
        return int(bytes(b)[1:])
    except Exception:
        return -1


def val(row):
    return row[0] if isinstance(row, tuple) and len(row) == 1 else row


def observe(rs, rf):
    import types
    cr = rs._current_rows
    is_gen = isinstance(cr, types.GeneratorType)      # continuous paging: the session's generator (cannot be peeked)
    if is_gen:
        cur = []
    else:
        try:
            cur = [val(r) for r in cr]
        except TypeError:
            cur = None
    pi = rs._page_iter
    if pi is None:
        rem = None
    elif isinstance(pi, types.GeneratorType):
        rem = []
    else:
        rem = [val(r) for r in copy.copy(pi)]
    return (cur, rem, bool(rs._list_mode), state_id(rf._paging_state), is_gen)


EXC = [(StopIteration, 'VStop'), (TypeError, 'VTypeError'), (RuntimeError, 'VRuntimeError'), (IndexError, 'VIndexError')]


def classify(e):
    if type(e).__name__ == 'ReadTimeout':
        return ('exc', 'VError')
    for t, name in EXC:
        if isinstance(e, t):
            return ('exc', name)
    return ('exc', 'VFuel:%s' % type(e).__name__)


def apply_op(rs, rf, op):
    """-> model-shaped return value: ('row', z) | ('none',) | ('rows', [..]) | ('bool', b) | ('state', s) | ('self',) | ('exc', name)"""
    kind = op[0]
    try:
        if kind == 'iter':
            r = iter(rs)
            if r is rs:
                return ('self',)
            return ('rows', [val(x) for x in r])
        if kind == 'next':
            return ('row', val(rs.next()))
        if kind == 'fetch':
            rs.fetch_next_page()
            return ('none',)
        if kind == 'one':
            r = rs.one()
            return ('none',) if r is None else ('row', val(r))
        if kind == 'current':
            return ('rows', [val(x) for x in rs.current_rows])
        if kind == 'hasmore':
            return ('bool', bool(rs.has_more_pages))
        if kind == 'pstate':
            return ('state', state_id(rs.paging_state))
        if kind == 'bool':
            return ('bool', bool(rs))
        if kind == 'getitem':
            return ('row', val(rs[op[1]]))
        if kind == 'eq':
            return ('bool', bool(rs == [(x,) for x in op[1]]))
        if kind == 'list':
            return ('rows', [val(x) for x in list(rs)])
        raise ValueError(kind)
    except Deadlock:
        return ('exc', 'VFuel:Deadlock')
    except Exception as e:  # noqa
        return classify(e)


def run_case(pages, ops, eager, state_of=None, mode=None):
    """-> dict(init=(reqs, obs), trace=[(reqs during op, ret, obs)], sent=[all carried states], bogus=[...])"""
    server, rf, rs = execute(pages, eager, state_of, mode)
    init = ([state_id(x) for x in server.sent], observe(rs, rf))
    trace = []
    for op in ops:
        n0 = len(server.sent)
        ret = apply_op(rs, rf, op)
        trace.append(([state_id(x) for x in server.sent[n0:]], ret, observe(rs, rf)))
    return {'init': init, 'trace': trace, 'sent': [state_id(x) for x in server.sent], 'bogus': [state_id(x) for x in server.bogus],
            'pending': len(server.pending), 'revise': list(server.revise)}


# ---------------------------------------------------------------- Gallina literals
def zl(v):
    return '(%d)' % v if v < 0 else '%d' % v


def zlist(l):
    return '[' + '; '.join(zl(x) for x in l) + ']'


def oz(o):
    return 'None' if o is None else '(Some %s)' % zl(o)


def olist(o):
    return 'None' if o is None else '(Some %s)' % zlist(o)


def g_server(script):
    assert script and script[-1] != FAIL
    s = 'Last %s' % zlist(script[-1])
    k = len(script_pages(script)) - 2
    for item in reversed(script[:-1]):
        if item == FAIL:
            s = 'Fail (%s)' % s
        elif item == SPEC:
            s = 'Spec (%s)' % s
        else:
            s = 'More %s %d (%s)' % (zlist(item), k, s)
            k -= 1
    return '(%s)' % s


def g_op(op):
    k = op[0]
    return {'iter': 'OIter', 'next': 'ONext', 'fetch': 'OFetch', 'one': 'OOne', 'current': 'OCurrent', 'hasmore': 'OHasMore',
            'pstate': 'OPagingState', 'bool': 'OBool', 'list': 'OList'}.get(k) or (
        'OGetItem %s' % zl(op[1]) if k == 'getitem' else 'OEq %s' % zlist(op[1]))


def g_val(r):
    k = r[0]
    if k == 'row':
        return 'VRow %s' % zl(r[1])
    if k == 'none':
        return 'VNone'
    if k == 'rows':
        return 'VRows %s' % zlist(r[1])
    if k == 'bool':
        return 'VBool %s' % ('true' if r[1] else 'false')
    if k == 'state':
        return 'VState %s' % oz(r[1])
    if k == 'self':
        return 'VSelf'
    if k == 'exc':
        return r[1].split(':')[0]
    raise ValueError(r)


def g_obs(o, cont=False):
    cur, rem, lm, st = o[:4]
    is_gen = len(o) > 4 and o[4]
    if is_gen and not cont:
        cur = None                      # a generator where the paged model has a list
    t = '(%s, %s, %s, %s)' % (zlist(cur if cur is not None else [-999]), olist(rem), 'true' if lm else 'false', oz(st))
    return '(%s, %s)' % (t, 'true' if is_gen else 'false') if cont else t


def g_outs(reqs, ret=None):
    items = ['Req %s' % oz(s) for s in reqs]
    if ret is not None:
        items.append('Ret (%s)' % g_val(ret))
    return '[' + '; '.join(items) + ']'


def g_case(pages, ops, res, cont=False):
    tr = '[' + '; '.join('(%s, %s)' % (g_outs(rq, ret), g_obs(ob, cont)) for rq, ret, ob in res['trace']) + ']'
    return '%s %s [%s] (%s, %s) %s' % ('check_case_cont' if cont else 'check_case', g_server(pages), '; '.join(g_op(o) for o in ops),
                                       g_outs(res['init'][0]), g_obs(res['init'][1], cont), tr)


# ---------------------------------------------------------------- callback-driven paging (documented async pattern)
class PagedResultHandler(object):
    """the example of the driver's paging documentation"""

    def __init__(self, future):
        self.future, self.rows, self.error, self.finished, self.calls = future, [], None, False, 0
        future.add_callbacks(callback=self.handle_page, errback=self.handle_error)

    def handle_page(self, rows):
        self.calls += 1
        self.rows.extend(val(r) for r in rows)
        if self.future.has_more_pages:
            self.future.start_fetching_next_page()
        else:
            self.finished = True

    def handle_error(self, exc):
        self.error = type(exc).__name__


def run_async(script, early, mode=None):
    """early: the answer to the first request has been processed before add_callbacks() is reached.
    -> dict(sent, rows, finished, error)"""
    from vf.impl import import_cluster
    cl = import_cluster()
    from cassandra.protocol import QueryMessage
    from cassandra.query import SimpleStatement
    mode = dict(default_mode(script), **(mode or {}))
    eager = False      # the handler runs in the reactor thread: an answer is never processed before the handler returns
    server = Server(script, eager, None, mode)
    session = FakeSession(server)
    plan = None
    query = SimpleStatement('SELECT v FROM t', is_idempotent=True)
    if mode['spec']:
        from cassandra.policies import ConstantSpeculativeExecutionPolicy
        plan = ConstantSpeculativeExecutionPolicy(0, 1000).new_plan(None, query)
    msg = QueryMessage('SELECT v FROM t', 1, serial_consistency_level=8 if mode['serial'] else None, fetch_size=2)
    rf = cl.ResponseFuture(session, msg, query, None, speculative_execution_plan=plan)
    server.rf = rf
    rf._event = FakeEvent(server)
    rf.send_request()
    if early and not eager:
        server.deliver_one()                     # the first answer is processed before the application registers callbacks
    h = PagedResultHandler(rf)
    n = 0
    while server.pending and n < 200:            # the reactor thread delivers the answers
        server.deliver_one()
        n += 1
    return {'sent': [state_id(x) for x in server.sent], 'rows': h.rows, 'finished': h.finished, 'error': h.error, 'bogus': len(server.bogus)}


def g_async(script, early, res):
    return 'check_async %s %s %s %s %s' % ('true' if early else 'false', g_server(script), g_outs(res['sent']), zlist(res['rows']),
                                           'true' if res['finished'] else 'false')
