"""C18 harness: the real ResultSet + ResponseFuture on a scripted paging server (fake session/pool/connection).

Nothing of the driver is patched: the fakes stand for Session._pools / HostConnection / Connection.send_msg and the
threading.Event the caller blocks on (so that "the response arrives while the caller waits" is deterministic)."""
import copy


class Deadlock(Exception):
    """result() would block forever: nothing in flight"""


class FakeEvent(object):
    def __init__(self, server):
        self.flag = False
        self.server = server

    def set(self):
        self.flag = True

    def clear(self):
        self.flag = False

    def is_set(self):
        return self.flag

    def wait(self, timeout=None):
        n = 0
        while not self.flag:
            if not self.server.deliver_one():
                raise Deadlock()
            n += 1
            if n > 50:
                raise Deadlock()
        return True


FAIL = 'F'


def script_pages(script):
    return [x for x in script if x != FAIL]


def expected_requests(script):
    """the paging state every request must carry when a failed request is simply repeated (model: expected_reqs None)"""
    out, cur, k = [], None, 0
    for item in script:
        out.append(cur)
        if item != FAIL:
            cur = k
            k += 1
    return out


class Server(object):
    """script: list of items; an item is a list of rows (a page) or FAIL (the request arriving at that point ends in a
    read timeout that the default RetryPolicy rethrows to the application).  Page k (k < last) is returned with paging
    state b'S<k>'.  The server answers by the paging state CARRIED by the request (like a real coordinator): the n-th
    request carrying state c gets the n-th item scripted after the page that returned c."""

    def __init__(self, script, eager, state_of=None):
        self.script = script
        self.pages = script_pages(script)
        self.eager = eager
        self.sent = []          # carried paging_state of every message sent, in order
        self.pending = []       # (callback, carried state)
        self.bogus = []         # requests with a state the server never issued / after the last page
        self.state_of = state_of or (lambda k: ('S%d' % k).encode())
        self.groups = {}        # carried-state key (None | page index) -> items answering successive requests
        key, k = None, 0
        for item in script:
            self.groups.setdefault(key, []).append(item if item == FAIL else k)
            if item != FAIL:
                key = k
                k += 1
        self.seen = {}

    def state_bytes(self, k):
        return self.state_of(k) if k < len(self.pages) - 1 else None

    def key_for(self, carried):
        if carried is None:
            return None
        for k in range(len(self.pages) - 1):
            if self.state_of(k) == carried:
                return k
        return 'bogus'

    def response(self, carried):
        from cassandra.protocol import ResultMessage, RESULT_KIND_ROWS, ReadTimeoutErrorMessage
        key = self.key_for(carried)
        m = ResultMessage(RESULT_KIND_ROWS)
        m.column_names = ['v']
        m.column_types = [None]
        group = self.groups.get(key)
        if key == 'bogus' or not group:
            self.bogus.append(carried)
            m.parsed_rows = []
            m.paging_state = None
            return m
        n = self.seen.get(key, 0)
        self.seen[key] = n + 1
        item = group[min(n, len(group) - 1)]
        if item == FAIL:
            return ReadTimeoutErrorMessage(0x1200, 'scripted read timeout',
                                           {'consistency': 1, 'required_responses': 2, 'received_responses': 1, 'data_retrieved': False})
        m.parsed_rows = [(r,) for r in self.pages[item]]
        m.paging_state = self.state_bytes(item)
        return m

    def on_send(self, message, cb):
        carried = message.paging_state
        self.sent.append(carried)
        if len(self.sent) > 3 * len(self.script) + 6:
            # a driver that keeps asking (e.g. for the same page) must not hang the check: refuse; the request then
            # fails with NoHostAvailable and the oracle reports the surplus requests
            raise RuntimeError('scripted server: too many requests')
        self.pending.append((cb, carried))
        if self.eager:
            self.deliver_one()

    def deliver_one(self):
        if not self.pending:
            return False
        cb, carried = self.pending.pop(0)
        cb(self.response(carried))
        return True


class FakeConnection(object):
    def __init__(self, server):
        self.server = server
        self.next_id = 0

    def send_msg(self, msg, request_id, cb, encoder=None, decoder=None, result_metadata=None):
        self.server.on_send(msg, cb)
        return 10


class FakePool(object):
    is_shutdown = False

    def __init__(self, conn):
        self.conn = conn
        self.borrowed = 0
        self.returned = 0

    def borrow_connection(self, timeout=None, routing_key=None):
        self.borrowed += 1
        self.conn.next_id += 1
        return self.conn, self.conn.next_id

    def return_connection(self, connection, stream_was_orphaned=False):
        self.returned += 1


class FakeLBP(object):
    def __init__(self, hosts):
        self.hosts = hosts

    def make_query_plan(self, keyspace=None, query=None):
        return list(self.hosts)


class FakeCluster(object):
    def __init__(self, lbp):
        self._default_load_balancing_policy = lbp
        self.connection_class = None
        self._prepared_statements = {}


class FakeSession(object):
    keyspace = None

    def __init__(self, server):
        from cassandra.query import tuple_factory
        self.row_factory = tuple_factory
        self.host = 'h1'
        self.conn = FakeConnection(server)
        self._pools = {self.host: FakePool(self.conn)}
        self.cluster = FakeCluster(FakeLBP([self.host]))

    def submit(self, fn, *a, **kw):
        fn(*a, **kw)


def execute(pages, eager, state_of=None):
    """session.execute(): a real ResponseFuture sends the first request; result() returns the real ResultSet."""
    from vf.impl import import_cluster
    cl = import_cluster()
    from cassandra.protocol import QueryMessage
    from cassandra.query import SimpleStatement
    from cassandra import ReadTimeout
    server = Server(pages, eager, state_of)
    session = FakeSession(server)
    for _ in range(len(pages) + 1):
        msg = QueryMessage('SELECT v FROM t', 1, fetch_size=2)
        rf = cl.ResponseFuture(session, msg, SimpleStatement('SELECT v FROM t'), None)
        rf._event = FakeEvent(server)
        rf.send_request()
        try:
            rs = rf.result()
        except ReadTimeout:
            continue                 # the first request failed: the application calls execute() again
        return server, rf, rs
    raise RuntimeError('execute() keeps failing')


def state_id(b):
    """paging-state bytes -> model integer"""
    if b is None:
        return None
    try:
        return int(bytes(b)[1:])
    except Exception:
        return -1


def val(row):
    return row[0] if isinstance(row, tuple) and len(row) == 1 else row


def observe(rs, rf):
    try:
        cur = [val(r) for r in rs._current_rows]
    except TypeError:
        cur = None
    pi = rs._page_iter
    rem = None if pi is None else [val(r) for r in copy.copy(pi)]
    return (cur, rem, bool(rs._list_mode), state_id(rf._paging_state))


EXC = [(StopIteration, 'VStop'), (TypeError, 'VTypeError'), (RuntimeError, 'VRuntimeError'), (IndexError, 'VIndexError')]


def classify(e):
    if type(e).__name__ == 'ReadTimeout':
        return ('exc', 'VError')
    for t, name in EXC:
        if isinstance(e, t):
            return ('exc', name)
    return ('exc', 'VFuel:%s' % type(e).__name__)


def apply_op(rs, rf, op):
    """-> model-shaped return value: ('row', z) | ('none',) | ('rows', [..]) | ('bool', b) | ('state', s) | ('self',) | ('exc', name)"""
    kind = op[0]
    try:
        if kind == 'iter':
            r = iter(rs)
            if r is rs:
                return ('self',)
            return ('rows', [val(x) for x in r])
        if kind == 'next':
            return ('row', val(rs.next()))
        if kind == 'fetch':
            rs.fetch_next_page()
            return ('none',)
        if kind == 'one':
            r = rs.one()
            return ('none',) if r is None else ('row', val(r))
        if kind == 'current':
            return ('rows', [val(x) for x in rs.current_rows])
        if kind == 'hasmore':
            return ('bool', bool(rs.has_more_pages))
        if kind == 'pstate':
            return ('state', state_id(rs.paging_state))
        if kind == 'bool':
            return ('bool', bool(rs))
        if kind == 'getitem':
            return ('row', val(rs[op[1]]))
        if kind == 'eq':
            return ('bool', bool(rs == [(x,) for x in op[1]]))
        if kind == 'list':
            return ('rows', [val(x) for x in list(rs)])
        raise ValueError(kind)
    except Deadlock:
        return ('exc', 'VFuel:Deadlock')
    except Exception as e:  # noqa
        return classify(e)


def run_case(pages, ops, eager, state_of=None):
    """-> dict(init=(reqs, obs), trace=[(reqs during op, ret, obs)], sent=[all carried states], bogus=[...])"""
    server, rf, rs = execute(pages, eager, state_of)
    init = ([state_id(x) for x in server.sent], observe(rs, rf))
    trace = []
    for op in ops:
        n0 = len(server.sent)
        ret = apply_op(rs, rf, op)
        trace.append(([state_id(x) for x in server.sent[n0:]], ret, observe(rs, rf)))
    return {'init': init, 'trace': trace, 'sent': [state_id(x) for x in server.sent], 'bogus': [state_id(x) for x in server.bogus],
            'pending': len(server.pending)}


# ---------------------------------------------------------------- Gallina literals
def zl(v):
    return '(%d)' % v if v < 0 else '%d' % v


def zlist(l):
    return '[' + '; '.join(zl(x) for x in l) + ']'


def oz(o):
    return 'None' if o is None else '(Some %s)' % zl(o)


def olist(o):
    return 'None' if o is None else '(Some %s)' % zlist(o)


def g_server(script):
    assert script and script[-1] != FAIL
    s = 'Last %s' % zlist(script[-1])
    k = len(script_pages(script)) - 2
    for item in reversed(script[:-1]):
        if item == FAIL:
            s = 'Fail (%s)' % s
        else:
            s = 'More %s %d (%s)' % (zlist(item), k, s)
            k -= 1
    return '(%s)' % s


def g_op(op):
    k = op[0]
    return {'iter': 'OIter', 'next': 'ONext', 'fetch': 'OFetch', 'one': 'OOne', 'current': 'OCurrent', 'hasmore': 'OHasMore',
            'pstate': 'OPagingState', 'bool': 'OBool', 'list': 'OList'}.get(k) or (
        'OGetItem %s' % zl(op[1]) if k == 'getitem' else 'OEq %s' % zlist(op[1]))


def g_val(r):
    k = r[0]
    if k == 'row':
        return 'VRow %s' % zl(r[1])
    if k == 'none':
        return 'VNone'
    if k == 'rows':
        return 'VRows %s' % zlist(r[1])
    if k == 'bool':
        return 'VBool %s' % ('true' if r[1] else 'false')
    if k == 'state':
        return 'VState %s' % oz(r[1])
    if k == 'self':
        return 'VSelf'
    if k == 'exc':
        return r[1].split(':')[0]
    raise ValueError(r)


def g_obs(o):
    cur, rem, lm, st = o
    return '(%s, %s, %s, %s)' % (zlist(cur if cur is not None else [-999]), olist(rem), 'true' if lm else 'false', oz(st))


def g_outs(reqs, ret=None):
    items = ['Req %s' % oz(s) for s in reqs]
    if ret is not None:
        items.append('Ret (%s)' % g_val(ret))
    return '[' + '; '.join(items) + ']'


def g_case(pages, ops, res):
    tr = '[' + '; '.join('(%s, %s)' % (g_outs(rq, ret), g_obs(ob)) for rq, ret, ob in res['trace']) + ']'
    return 'check_case %s [%s] (%s, %s) %s' % (g_server(pages), '; '.join(g_op(o) for o in ops),
                                              g_outs(res['init'][0]), g_obs(res['init'][1]), tr)
