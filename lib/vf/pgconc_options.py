"""C46 harness: the real Session._create_response_future (and real Statement/BoundStatement/BatchStatement/
ExecutionProfile/ResponseFuture/message classes) on a Session created with object.__new__ over a fake cluster.
Policies / row factories are identifiable fakes; consistency levels are real ConsistencyLevel values."""

NOT_SET = 'NOTSET'


class Pol(object):
    """retry / load-balancing / speculative-execution policy stand-in"""
    def __init__(self, ident):
        self.ident = ident

    def on_read_timeout(self, *a, **kw):       # Statement.__init__ checks for this attribute
        raise NotImplementedError

    delay = 0.05

    def make_query_plan(self, keyspace=None, query=None):
        return []

    def populate(self, cluster, hosts):
        pass

    def new_plan(self, keyspace, query):
        return Plan(self.ident, keyspace, self.delay)


class Plan(object):
    def __init__(self, ident, keyspace, delay=0.05):
        self.ident, self.keyspace, self.delay = ident, keyspace, delay

    def next_execution(self, host):
        return self.delay


class RowF(object):
    calls = []          # idents of the factories that really built rows (reset per case)

    def __init__(self, ident):
        self.ident = ident

    def __call__(self, names, rows):
        RowF.calls.append(self.ident)
        return rows


class Timer(object):
    def cancel(self):
        pass


class ConnClass(object):
    timers = []          # (delay, callback name) of every timer armed, in order (reset per case)

    @staticmethod
    def create_timer(timeout, cb):
        ConnClass.timers.append((timeout, getattr(cb, '__name__', getattr(getattr(cb, 'func', None), '__name__', '?'))))
        return Timer()


class ProfileManager(object):
    def __init__(self):
        self.profiles = {}


class FakeCluster(object):
    allow_beta_protocol_version = False

    def __init__(self):
        self.profile_manager = ProfileManager()
        self.connection_class = ConnClass
        self._prepared_statements = {}
        self._default_load_balancing_policy = Pol(-5)

        class Meta(object):
            dbaas = False
        self.metadata = Meta()


def ks(i):
    return None if i is None else 'ks%d' % i


def ks_id(s):
    return None if s is None else int(s[2:])


def build(case):
    """case: dict (see checks/C46.py).  Returns (fields dict | ('raise', name))"""
    from vf.impl import import_cluster
    cl = import_cluster()
    from cassandra.query import SimpleStatement, BoundStatement, BatchStatement, PreparedStatement, FETCH_SIZE_UNSET
    from cassandra.protocol import ColumnMetadata
    from cassandra.cqltypes import Int32Type
    from cassandra.encoder import Encoder
    pr, se = case['profile'], case['session']
    cluster = FakeCluster()
    cluster._config_mode = cl._ConfigMode.LEGACY if case['mode'] == 'Legacy' else case.get('config_mode_value', cl._ConfigMode.PROFILES)
    cluster.default_retry_policy = Pol(se['retry'])
    cluster.load_balancing_policy = Pol(se['lbp'])
    cluster.timestamp_generator = lambda: se['ts']
    # the profile's level is given to ExecutionProfile only when the user chose one; the session's legacy default is
    # assigned through the real property after connect(); in between runs what Cluster.connect() runs for DBaaS clusters
    pkw = {}
    if case.get('profile_cl_chosen', True):
        pkw['consistency_level'] = pr['cl']
    profile = cl.ExecutionProfile(load_balancing_policy=Pol(pr['lbp']), retry_policy=Pol(pr['retry']),
                                  serial_consistency_level=pr['serial'], request_timeout=pr['timeout'], row_factory=RowF(pr['rowf']),
                                  speculative_execution_policy=Pol(pr['spec']), **pkw)
    profile.speculative_execution_policy.delay = case.get('spec_delay', 0.05)
    if case.get('cont'):
        profile.continuous_paging_options = cl.ContinuousPagingOptions()
    cluster.metadata.dbaas = bool(case.get('dbaas', False))
    cluster.profile_manager.profiles[cl.EXEC_PROFILE_DEFAULT] = profile
    cluster.profile_manager.profiles['named'] = profile
    s = object.__new__(cl.Session)
    s.cluster = cluster
    s._row_factory = RowF(se['rowf'])
    s._default_timeout = se['timeout']
    s._default_consistency_level = cl.Session._default_consistency_level
    s._default_serial_consistency_level = se['serial']
    s.default_fetch_size = se['fetch']
    s._protocol_version = case['pv']
    s.use_client_timestamp = se['use_ts']
    s.encoder = Encoder()
    s._metrics = None
    s.keyspace = ks(se['keyspace'])
    s._pools = {}
    s._monitor_reporter = None
    cl.Cluster._set_default_dbaas_consistency(cluster, s)          # as Cluster.connect() does
    if case.get('session_cl_chosen', True):
        if case['mode'] == 'Legacy':
            s.default_consistency_level = se['cl']                  # the user's assignment (real property setter)
        else:
            s._default_consistency_level = se['cl']                 # unused in profile mode
    if case.get('added_later') and case['mode'] == 'Profiles':     # (legacy mode has no add_execution_profile)
        # Cluster.add_execution_profile() runs the same adjustment again for every session
        cl.Cluster._set_default_dbaas_consistency(cluster, s)

    def stmt_kwargs(o):
        kw = {}
        if o['cl'] is not None:
            kw['consistency_level'] = o['cl']
        if o['serial'] is not None:
            kw['serial_consistency_level'] = o['serial']
        if o['retry'] is not None:
            kw['retry_policy'] = Pol(o['retry'])
        if o['fetch'] != 'unset':
            kw['fetch_size'] = o['fetch']
        return kw
    st = case['stmt']
    params = None
    if case['kind'] == 'Simple':
        q = SimpleStatement('SELECT 1', keyspace=ks(st['keyspace']), is_idempotent=st['idem'], **stmt_kwargs(st))
    elif case['kind'] == 'Batch':
        kw = stmt_kwargs(st)
        kw.pop('fetch_size', None)
        q = BatchStatement(**kw)
        q.keyspace = ks(st['keyspace'])
        q.is_idempotent = st['idem']
        q.add(SimpleStatement('INSERT 1'))
    else:
        pp = case['prepared']
        meta = [ColumnMetadata(ks(case['meta_keyspace']), 't', 'c', Int32Type)] if case['meta_keyspace'] is not None else []
        p = PreparedStatement(meta, b'id', None, 'SELECT 1', None, case['pv'], None, b'mid')
        for k, v in stmt_kwargs(pp).items():
            setattr(p, k, v)
        p.is_idempotent = pp['idem']
        vals = (1,) if meta else ()
        if case['bind_via_session']:
            q, params = p, vals
        else:
            q = BoundStatement(p, keyspace=ks(st['keyspace']), **stmt_kwargs(st)).bind(vals)
    t = case['timeout']
    timeout = cl._NOT_SET if t == NOT_SET else t
    paging = None if case['paging'] is None else ('P%d' % case['paging']).encode()
    ep = cl.EXEC_PROFILE_DEFAULT
    if case['mode'] == 'Profiles' and case.get('profile_ref') == 'name':
        ep = 'named'
    elif case['mode'] == 'Profiles' and case.get('profile_ref') == 'object':
        ep = profile
    del ConnClass.timers[:]
    try:
        f = s._create_response_future(q, params, False, None, timeout, execution_profile=ep, paging_state=paging)
    except cl.UnsupportedOperation:
        return ('raise', 'UnsupportedOperation')
    first_timer = ConnClass.timers[0] if ConnClass.timers else None
    m = f.message
    plan = f._spec_execution_plan
    pg = getattr(m, 'paging_state', None)
    out = {
        'cl': m.consistency_level, 'serial': m.serial_consistency_level, 'fetch': getattr(m, 'fetch_size', None),
        'ts': m.timestamp, 'keyspace': ks_id(getattr(m, 'keyspace', None)), 'paging': None if pg is None else int(pg[1:]),
        'timeout': f.timeout, 'retry': getattr(f._retry_policy, 'ident', -1), 'rowf': getattr(f.row_factory, 'ident', -1),
        'lbp': getattr(f._load_balancer, 'ident', -1),
        'spec': (plan.ident, ks_id(plan.keyspace)) if isinstance(plan, Plan) else None,
        'msg': type(m).__name__,
        'timer': None if first_timer is None else (('spec' if first_timer[1] == '_on_speculative_execute' else 'timeout'), first_timer[0]),
    }
    for k in ('cl', 'serial', 'fetch', 'ts'):
        if out[k] is not None and not isinstance(out[k], int):
            out[k] = -777          # not a value at all (e.g. the FETCH_SIZE_UNSET sentinel leaked into the message)
    if out['timeout'] is not None and not isinstance(out['timeout'], (int, float)):
        out['timeout'] = -777.0
    out['cont'] = bool(getattr(m, 'continuous_paging_options', None))
    out['built_by'] = None
    if case['kind'] != 'Batch':
        # which factory builds the rows?  deliver one ROWS answer through the real _set_result (for a continuous-paging
        # request: the first pushed page, built when the session's generator is consumed)
        from cassandra.protocol import ResultMessage, RESULT_KIND_ROWS
        from vf import pgconc_paging
        r = ResultMessage(RESULT_KIND_ROWS)
        r.column_names, r.column_types, r.parsed_rows, r.paging_state = ['a'], [None], [(1,)], None
        r.stream_id, r.continuous_paging_seq, r.continuous_paging_last = 3, 1, True
        del RowF.calls[:]
        try:
            f._set_result('h1', pgconc_paging.FakeConnection(pgconc_paging.Server([[1]], False)), None, r)
            res = f._final_result
            if out['cont']:
                list(res)
            out['built_by'] = RowF.calls[0] if RowF.calls else -1
        except Exception as e:  # noqa
            out['built_by'] = -2
    try:
        out['wire'] = wire_fields(m, case['pv'])
    except Exception as e:  # noqa
        out['wire'] = {'error': type(e).__name__}
    return out


# ---------------------------------------------------------------- what the encoded request carries
def wire_fields(m, pv):
    """encode the message body with the driver's encoder and read the option fields back with an independent
    reader of the native-protocol layout (QUERY / EXECUTE / BATCH, v2+).  Returns dict or None (v1 / unsupported)."""
    import io, struct
    f = io.BytesIO()
    try:
        m.send_body(f, pv)
    except Exception as e:  # noqa
        return {'error': type(e).__name__}
    if pv < 2 or pv in (65,):
        return {}                # encodable; layout not read back (v1: positional, DSE_V1: not transcribed)
    b = f.getvalue()
    pos = [0]

    def rd(fmt):
        n = struct.calcsize(fmt)
        v = struct.unpack_from(fmt, b, pos[0])[0]
        pos[0] += n
        return v

    def rd_bytes(lenfmt):
        n = rd(lenfmt)
        v = b[pos[0]:pos[0] + max(n, 0)]
        pos[0] += max(n, 0)
        return v
    from cassandra import ProtocolVersion
    name = type(m).__name__
    v5 = ProtocolVersion.uses_int_query_flags(pv)
    out = {}
    if name == 'BatchMessage':
        rd('>B')
        nq = rd('>H')
        for _ in range(nq):
            kind = rd('>B')
            if kind == 0:
                rd_bytes('>i')
            else:
                rd_bytes('>H')
            nv = rd('>H')
            for _ in range(nv):
                rd_bytes('>i')
        out['cl'] = rd('>H')
        if pv < 3:
            return out
        flags = rd('>I') if v5 else rd('>B')
        out['serial'] = rd('>H') if flags & 0x10 else None
        out['ts'] = rd('>q') if flags & 0x20 else None
        out['keyspace'] = ks_id(rd_bytes('>H').decode()) if flags & 0x80 else None
        return out
    if name == 'QueryMessage':
        rd_bytes('>i')
    else:
        rd_bytes('>H')
        if ProtocolVersion.uses_prepared_metadata(pv):
            rd_bytes('>H')
    out['cl'] = rd('>H')
    flags = rd('>I') if v5 else rd('>B')
    if flags & 0x01:
        nv = rd('>H')
        for _ in range(nv):
            rd_bytes('>i')
    out['fetch'] = rd('>i') if flags & 0x04 else None
    pgs = rd_bytes('>i') if flags & 0x08 else None
    out['paging'] = None if pgs is None else int(pgs[1:])
    out['serial'] = rd('>H') if flags & 0x10 else None
    out['ts'] = rd('>q') if flags & 0x20 else None
    out['keyspace'] = ks_id(rd_bytes('>H').decode()) if flags & 0x80 else None
    return out


# ---------------------------------------------------------------- Gallina literals
def zl(v):
    return '(%d)' % v if v < 0 else '%d' % v


def oz(o):
    return 'None' if o is None else '(Some %s)' % zl(int(o))


def g_fetch(v):
    return 'FUnset' if v == 'unset' else '(FSet %s)' % oz(v)


def g_stmt(o):
    return '(mkStmt %s %s %s %s %s %s)' % (oz(o['cl']), oz(o['serial']), oz(o['retry']), g_fetch(o['fetch']), oz(o.get('keyspace')),
                                         'true' if o['idem'] else 'false')


def tz(t):
    """timeouts are floats/ints in seconds: compare as integer milliseconds"""
    return None if t is None else int(round(t * 1000))


def g_case(case, res):
    pr, se = case['profile'], case['session']
    if case['kind'] == 'Bound':
        expl = case['stmt'] if not case['bind_via_session'] else {'cl': None, 'serial': None, 'retry': None, 'fetch': 'unset', 'keyspace': None, 'idem': False}
        st = '(bound_of %s %s %s)' % (g_stmt(case['prepared']), g_stmt(expl), oz(case['meta_keyspace']))
    else:
        st = g_stmt(case['stmt'])
    db = 'true' if case.get('dbaas') else 'false'
    pcl = '(configured_cl %s %s)' % (db, oz(pr['cl']) if case.get('profile_cl_chosen', True) else 'None')
    scl = '(configured_cl %s %s)' % (db, oz(se['cl']) if case.get('session_cl_chosen', True) else 'None')
    prof = '(mkProf %s %s %d %s %d %d %d)' % (pcl, oz(pr['serial']), pr['retry'], oz(tz(pr['timeout'])), pr['rowf'], pr['lbp'], pr['spec'])
    sess = '(mkSess %s %s %d %s %d %d %s %s %d %s)' % (scl, oz(se['serial']), se['retry'], oz(tz(se['timeout'])), se['rowf'], se['lbp'],
                                                      oz(se['fetch']), 'true' if se['use_ts'] else 'false', se['ts'], oz(se['keyspace']))
    t = 'TNotSet' if case['timeout'] == NOT_SET else '(TSet %s)' % oz(tz(case['timeout']))
    if isinstance(res, tuple):
        got = 'None'
    else:
        spec = 'None' if res['spec'] is None else '(Some (%s, %s))' % (zl(res['spec'][0]), oz(res['spec'][1]))
        got = '(Some (mkFields %s %s %s %s %s %s %s %s %s %s %s))' % (
            zl(res['cl']), oz(res['serial']), oz(res['fetch']), oz(res['ts']), oz(res['keyspace']), oz(res['paging']),
            oz(tz(res['timeout'])), zl(res['retry']), zl(res['rowf']), zl(res['lbp']), spec)
    eff = '(effective %s %s %s %s %s %s %s %d)' % (case['mode'], case['kind'], st, prof, sess, t, oz(case['paging']), case['pv'])
    enc = 'true' if isinstance(res, tuple) or 'error' not in (res.get('wire') or {}) else 'false'
    out = 'ofields_eqb %s %s && Bool.eqb (encodes_opt %s %s %d) %s' % (eff, got, case['kind'], eff, case['pv'], enc)
    if not isinstance(res, tuple) and res.get('built_by') is not None:
        out += ' && oz_eqb (built_by_opt %s %s) (Some %s)' % (eff, 'true' if res['cont'] else 'false', zl(res['built_by']))
        want_cont = bool(case.get('cont'))
        out += ' && Bool.eqb (continuous_in_effect %s %s) %s' % (case['mode'], 'true' if want_cont else 'false', 'true' if res['cont'] else 'false')
    if not isinstance(res, tuple):
        out += ' && timer_eqb (first_timer_opt %s %d) %s' % (eff, tz(case.get('spec_delay', 0.05)), g_timer(res['timer'], res['timeout']))
    return out


def g_timer(t, timeout):
    """the timer armed at creation; a timeout timer is armed with the time remaining (just below the timeout)"""
    if t is None:
        return 'TNoTimer'
    if t[0] == 'spec':
        return '(TSpec %d)' % tz(t[1])
    if timeout is not None and 0 <= timeout - t[1] < 0.2:
        return '(TTimeout %d)' % tz(timeout)
    return '(TTimeout %d)' % tz(t[1])


# ---------------------------------------------------------------- configuration history on a real Cluster
LEGACY_OPS = ('cluster.default_retry_policy', 'cluster.load_balancing_policy', 'session.default_timeout',
              'session.default_consistency_level', 'session.default_serial_consistency_level', 'session.row_factory')


def run_history(hist):
    """hist: {'ctor': subset of ('lbp', 'retry', 'profiles'), 'ops': [op names]}.  A REAL Cluster is constructed and configured
    through its real constructor / property setters / add_execution_profile; the session is object.__new__(Session) on it.
    Returns the per-op (accepted, mode) trace and the options in effect for a plain SimpleStatement."""
    from vf.impl import import_cluster
    cl = import_cluster()
    from cassandra.query import SimpleStatement
    from cassandra.encoder import Encoder
    names = {0: 'Uncommitted', 1: 'CLegacy', 2: 'CProfiles'}
    assigned = {}
    trace = []
    kw = {}
    if 'lbp' in hist['ctor']:
        kw['load_balancing_policy'] = Pol(301)
        assigned['lbp'] = 301
    if 'retry' in hist['ctor']:
        kw['default_retry_policy'] = Pol(302)
        assigned['retry'] = 302
    prof = cl.ExecutionProfile(load_balancing_policy=Pol(401), retry_policy=Pol(402), consistency_level=4, request_timeout=33.0,
                               row_factory=RowF(403), speculative_execution_policy=Pol(404))
    if 'profiles' in hist['ctor']:
        kw['execution_profiles'] = {cl.EXEC_PROFILE_DEFAULT: prof}
    try:
        cluster = cl.Cluster(**kw)
    except ValueError:
        return {'ctor': 'ValueError', 'trace': [], 'assigned': assigned, 'fields': None, 'mode': None}
    try:
        cluster.connection_class = ConnClass
        s = object.__new__(cl.Session)
        s.cluster = cluster
        s._protocol_version = 4
        s.use_client_timestamp = False
        s.encoder = Encoder()
        s._metrics = None
        s.keyspace = None
        s._pools = {}
        s.default_fetch_size = 5000
        n = 500
        for op in hist['ops']:
            n += 1
            try:
                if op == 'cluster.default_retry_policy':
                    cluster.default_retry_policy = Pol(n)
                    assigned['retry'] = n
                elif op == 'cluster.load_balancing_policy':
                    cluster.load_balancing_policy = Pol(n)
                    assigned['lbp'] = n
                elif op == 'session.default_timeout':
                    s.default_timeout = float(n)
                    assigned['timeout'] = float(n)
                elif op == 'session.default_consistency_level':
                    s.default_consistency_level = 2
                    assigned['cl'] = 2
                elif op == 'session.default_serial_consistency_level':
                    s.default_serial_consistency_level = 9
                    assigned['serial'] = 9
                elif op == 'session.row_factory':
                    s.row_factory = RowF(n)
                    assigned['rowf'] = n
                elif op == 'add_execution_profile':
                    cluster.add_execution_profile('p%d' % n, cl.ExecutionProfile(load_balancing_policy=Pol(n), retry_policy=Pol(n)))
                ok = True
            except ValueError:
                ok = False
            trace.append((ok, names.get(cluster._config_mode, '?')))
        del ConnClass.timers[:]
        f = s._create_response_future(SimpleStatement('SELECT 1'), None, False, None, cl._NOT_SET)
        m = f.message
        fields = {'cl': m.consistency_level, 'serial': m.serial_consistency_level, 'timeout': f.timeout,
                  'retry': getattr(f._retry_policy, 'ident', -1), 'rowf': getattr(f.row_factory, 'ident', -1),
                  'lbp': getattr(f._load_balancer, 'ident', -1)}
        return {'ctor': 'ok', 'ctor_mode': None, 'trace': trace, 'assigned': assigned, 'fields': fields,
                'mode': names.get(cluster._config_mode, '?')}
    finally:
        cluster.shutdown()


def history_model_ops(hist):
    ops = []
    if 'lbp' in hist['ctor'] or 'retry' in hist['ctor']:
        ops.append('SetLegacy')
    if 'profiles' in hist['ctor']:
        ops.append('UseProfiles')
    n0 = len(ops)
    for op in hist['ops']:
        ops.append('AddProfile' if op == 'add_execution_profile' else 'SetLegacy')
    return ops, n0


def g_history(hist, res):
    ops, n0 = history_model_ops(hist)
    tr = '[' + '; '.join('(%s, %s)' % ('true' if ok else 'false', m) for ok, m in res['trace']) + ']'
    return 'cfg_trace_eqb (skipn %d (cfg_trace Uncommitted [%s])) %s' % (n0, '; '.join(ops), tr)
