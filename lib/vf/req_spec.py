"""C03: translation whitelist (ProtocolVersion feature predicates used by the request encoders)."""
from .py2coq import Fn, Z, B

PREDS = ['uses_int_query_flags', 'uses_prepare_flags', 'uses_prepared_metadata', 'uses_keyspace_flag',
         'has_continuous_paging_support', 'has_continuous_paging_next_pages', 'has_checksumming_support']


def fns():
    return [Fn('cassandra/__init__.py', 'ProtocolVersion.%s' % p, 'pv_%s' % p, [('version', Z)], B) for p in PREDS]

P = 'cassandra/protocol.py'
FLAGS = ['_VALUES_FLAG', '_SKIP_METADATA_FLAG', '_PAGE_SIZE_FLAG', '_WITH_PAGING_STATE_FLAG',
         '_WITH_SERIAL_CONSISTENCY_FLAG', '_PROTOCOL_TIMESTAMP_FLAG', '_WITH_KEYSPACE_FLAG',
         '_PREPARED_WITH_KEYSPACE_FLAG', '_PAGE_SIZE_BYTES_FLAG', '_PAGING_OPTIONS_FLAG',
         'COMPRESSED_FLAG', 'TRACING_FLAG', 'CUSTOM_PAYLOAD_FLAG', 'USE_BETA_FLAG']
OPS = [('STARTUP', 'StartupMessage'), ('CREDENTIALS', 'CredentialsMessage'), ('OPTIONS', 'OptionsMessage'),
       ('QUERY', 'QueryMessage'), ('PREPARE', 'PrepareMessage'), ('EXECUTE', 'ExecuteMessage'),
       ('REGISTER', 'RegisterMessage'), ('BATCH', 'BatchMessage'), ('AUTH_RESPONSE', 'AuthResponseMessage'),
       ('REVISE_REQUEST', 'ReviseRequestMessage')]


def consts():
    out = [('c' + f if f.startswith('_') else 'c_' + f, P, f) for f in FLAGS]
    out += [('op_' + n, P, c + '.opcode') for n, c in OPS]
    return out
