"""Harness shared by C42 / C43: a non-connected Cluster whose threads are stopped, recording listener and load-balancing
policy, a fake control connection returning scripted system.local / system.peers(_v2) results, a virtual clock.

Nothing here opens a socket; the only thread ever started is Cluster.__init__'s task scheduler, which is shut down
(joined) before make_cluster returns.  The executor is replaced by a synchronous one."""
import uuid
from fractions import Fraction


def mods():
    from vf.impl import import_cluster
    C = import_cluster()
    return C


# ---------------------------------------------------------------------------------------------- fakes
class SyncFuture(object):
    def __init__(self, result=None, exc=None):
        self._r, self._e = result, exc

    def result(self, timeout=None):
        if self._e is not None:
            raise self._e
        return self._r

    def exception(self, timeout=None):
        return self._e

    def add_done_callback(self, fn):
        fn(self)

    def done(self):
        return True


class SyncExecutor(object):
    """runs the task in the caller's thread, like a ThreadPoolExecutor whose worker ran it at once"""
    def __init__(self):
        self.log = []

    def submit(self, fn, *a, **kw):
        self.log.append(getattr(fn, '__name__', repr(fn)))
        try:
            return SyncFuture(fn(*a, **kw))
        except Exception as e:       # like a real executor: the exception lives in the future
            return SyncFuture(exc=e)

    def shutdown(self, wait=True):
        pass


class RecScheduler(object):
    is_shutdown = False

    def __init__(self):
        self.log = []

    def schedule(self, delay, fn, *a, **kw):
        self.log.append(('schedule', getattr(fn, '__name__', repr(fn))))

    def schedule_unique(self, delay, fn, *a, **kw):
        self.log.append(('schedule_unique', getattr(fn, '__name__', repr(fn))))

    def shutdown(self):
        self.is_shutdown = True


class FakeResult(object):
    """what ControlConnection reads of a ResultMessage: column_names + parsed_rows"""
    def __init__(self, column_names, parsed_rows):
        self.column_names = list(column_names)
        self.parsed_rows = [tuple(r) for r in parsed_rows]


class ScriptExhausted(Exception):
    pass


class FakeConnection(object):
    """control connection stand-in: `script(conn, msgs, timeout)` answers wait_for_responses"""
    is_defunct = False
    is_closed = False
    last_error = None
    _product_type = None

    def __init__(self, endpoint, script=None):
        self.endpoint = endpoint
        self.script = script
        self.queries = []

    def wait_for_responses(self, *msgs, **kwargs):
        self.queries.append(tuple(getattr(m, 'query', None) for m in msgs))
        return self.script(self, msgs, kwargs.get('timeout'))

    def wait_for_response(self, msg, timeout=None, **kwargs):
        r = self.script(self, (msg,), timeout)
        if kwargs.get('fail_on_error', True):
            return r[0]
        return True, r[0]

    def close(self):
        self.is_closed = True


def make_recording_policy(C, log):
    from cassandra.policies import RoundRobinPolicy

    class RecLBP(RoundRobinPolicy):
        """real RoundRobinPolicy bookkeeping + a log of every notification it receives"""
        def populate(self, cluster, hosts):
            RoundRobinPolicy.populate(self, cluster, hosts)

        def on_up(self, host):
            log.append(('lbp_up', host.endpoint.address, host.endpoint.port, host.datacenter, host.rack))
            RoundRobinPolicy.on_up(self, host)

        def on_down(self, host):
            log.append(('lbp_down', host.endpoint.address, host.endpoint.port, host.datacenter, host.rack))
            RoundRobinPolicy.on_down(self, host)

        def on_add(self, host):
            log.append(('lbp_add', host.endpoint.address, host.endpoint.port, host.datacenter, host.rack))
            RoundRobinPolicy.on_add(self, host)

        def on_remove(self, host):
            log.append(('lbp_remove', host.endpoint.address, host.endpoint.port, host.datacenter, host.rack))
            RoundRobinPolicy.on_remove(self, host)
    return RecLBP()


def make_recording_listener(C, log):
    from cassandra.policies import HostStateListener

    class RecListener(HostStateListener):
        def on_up(self, host):
            log.append(('l_up', host.endpoint.address, host.endpoint.port))

        def on_down(self, host):
            log.append(('l_down', host.endpoint.address, host.endpoint.port))

        def on_add(self, host):
            log.append(('l_add', host.endpoint.address, host.endpoint.port, host.datacenter, host.rack))

        def on_remove(self, host):
            log.append(('l_remove', host.endpoint.address, host.endpoint.port))
    return RecListener()


def make_cluster(control_addr='10.0.0.100', log=None, **kw):
    """A Cluster that never connects: scheduler thread stopped and replaced, executor synchronous,
    recording LBP + listener, identity address translator (the default)."""
    C = mods()
    from cassandra.connection import DefaultEndPoint
    log = [] if log is None else log
    lbp = make_recording_policy(C, log)
    from cassandra.policies import RoundRobinPolicy
    prof = C.ExecutionProfile(load_balancing_policy=lbp)
    # the three built-in graph profiles would otherwise SHARE the default profile's policy object, and the profile manager
    # notifies once per profile: give them their own policies so the recording policy hears each notification once
    profiles = {C.EXEC_PROFILE_DEFAULT: prof,
                C.EXEC_PROFILE_GRAPH_DEFAULT: C.GraphExecutionProfile(load_balancing_policy=RoundRobinPolicy()),
                C.EXEC_PROFILE_GRAPH_SYSTEM_DEFAULT: C.GraphExecutionProfile(load_balancing_policy=RoundRobinPolicy()),
                C.EXEC_PROFILE_GRAPH_ANALYTICS_DEFAULT: C.GraphAnalyticsExecutionProfile(load_balancing_policy=RoundRobinPolicy())}
    cl = C.Cluster(contact_points=[DefaultEndPoint(control_addr)], execution_profiles=profiles, protocol_version=4, **kw)
    cl.scheduler.shutdown()          # joins the only thread Cluster.__init__ started
    cl.scheduler = RecScheduler()
    cl.executor.shutdown(wait=True)  # no worker thread was ever created
    cl.executor = SyncExecutor()
    cl.register_listener(make_recording_listener(C, log))
    cl._vf_log = log
    cl._vf_lbp = lbp
    return cl


def dispose_cluster(cl):
    cl.is_shutdown = True
    cl.control_connection._is_shutdown = True
    cl.control_connection._connection = None


# ---------------------------------------------------------------------------------------------- virtual clock
class VClock(object):
    """stands for the `time` module inside ControlConnection: exact rational seconds, integer milliseconds outside"""
    def __init__(self, start_ms=1000000):
        self.ms = start_ms
        self.sleeps = []

    def time(self):
        return Fraction(self.ms, 1000)

    def sleep(self, secs):
        ms = to_ms(secs)
        self.sleeps.append(ms)
        self.ms += ms

    def advance(self, ms):
        self.ms += ms


def to_ms(secs):
    """seconds (float / Fraction / int) -> integer milliseconds, exact for Fractions, nearest for floats"""
    if isinstance(secs, float):
        return int(round(secs * 1000))
    return int(Fraction(secs) * 1000) if Fraction(secs) * 1000 == int(Fraction(secs) * 1000) else float(Fraction(secs) * 1000)


def version_uuid(n):
    return uuid.UUID(int=0x5c4e0000000000000000000000000000 + n)
