"""Deterministic line-granular thread scheduler (search aid for interleaving failures; never a proof).

Runs a few thread bodies with exactly one of them executing at any time.  Switch points are the 'line' trace events
of frames whose code lives in one of the given source files.  A schedule is a list of thread indexes: at step k the
scheduler lets thread schedule[k] run up to its next switch point; when the list is exhausted the remaining threads
run to completion in index order.  A thread that does not reach a switch point within `block_timeout` (it is
blocked on a lock held by a suspended thread) is set aside and another ready thread is chosen.
"""
import sys, threading, time


class Run(object):
    def __init__(self, bodies, files, schedule, block_timeout=0.05):
        self.bodies, self.files, self.schedule = bodies, tuple(files), list(schedule)
        self.block_timeout = block_timeout
        n = len(bodies)
        self.go = [threading.Semaphore(0) for _ in range(n)]
        self.report = threading.Condition()
        self.state = ['new'] * n          # new | ready | running | done
        self.results = [None] * n
        self.errors = [None] * n
        self.trace = []                   # (tid, lineno) of every step taken
        self.finished_order = []

    def _tracer(self, tid):
        def local(frame, event, arg):
            if event == 'line':
                self._yield(tid, frame.f_lineno)
            return local

        def glob(frame, event, arg):
            if event == 'call' and frame.f_code.co_filename.endswith(self.files):
                return local
            return None
        return glob

    def _yield(self, tid, lineno):
        with self.report:
            self.state[tid] = 'ready'
            self.trace.append((tid, lineno))
            self.report.notify_all()
        self.go[tid].acquire()
        with self.report:
            self.state[tid] = 'running'

    def _worker(self, tid):
        self.go[tid].acquire()
        with self.report:
            self.state[tid] = 'running'
        sys.settrace(self._tracer(tid))
        try:
            self.results[tid] = self.bodies[tid]()
        except BaseException as e:      # noqa
            self.errors[tid] = e
        finally:
            sys.settrace(None)
            with self.report:
                self.state[tid] = 'done'
                self.finished_order.append(tid)
                self.report.notify_all()

    def run(self):
        n = len(self.bodies)
        ths = [threading.Thread(target=self._worker, args=(i,), daemon=True) for i in range(n)]
        for t in ths:
            t.start()
        for i in range(n):
            self.state[i] = 'ready'
        sched = list(self.schedule)
        steps = 0
        while any(s != 'done' for s in self.state) and steps < 10000:
            steps += 1
            with self.report:
                ready = [i for i in range(n) if self.state[i] == 'ready']
                running = [i for i in range(n) if self.state[i] == 'running']
            if not ready:
                if running:
                    with self.report:
                        self.report.wait(self.block_timeout)
                    continue
                break
            want = None
            while sched:
                c = sched.pop(0)
                if c in ready:
                    want = c
                    break
                if self.state[c] == 'done':
                    continue
                # the wanted thread is blocked/running: skip this slot
            if want is None:
                want = ready[0]
            with self.report:
                self.state[want] = 'running'
            self.go[want].release()
            deadline = time.time() + self.block_timeout
            with self.report:
                while self.state[want] == 'running' and time.time() < deadline:
                    self.report.wait(max(0.0, deadline - time.time()))
        for t in ths:
            t.join(2.0)
        return self


def schedules_two_threads(max_steps, max_preempt=2):
    """Schedules for two threads with at most `max_preempt` context switches away from a running thread:
    thread a runs k1 steps, then the other runs k2 steps, then back ...; the tail runs to completion."""
    out = []
    for first in (0, 1):
        out.append([first] * max_steps)
        for k1 in range(0, max_steps + 1):
            out.append([first] * k1 + [1 - first] * max_steps)
            if max_preempt >= 2:
                for k2 in range(1, max_steps + 1):
                    out.append([first] * k1 + [1 - first] * k2 + [first] * max_steps)
    seen, res = set(), []
    for s in out:
        t = tuple(s)
        if t not in seen:
            seen.add(t)
            res.append(s)
    return res
