"""Generators of policy configurations and membership histories for C21/C22 (all randomness from the rng passed in)."""
import itertools


def gen_spec(rng, nhosts=None, ndcs=None, kind=None):
    nhosts = nhosts or rng.randint(1, 6)
    ndcs = ndcs or rng.randint(1, 3)
    kind = kind or rng.choice(['rr', 'wl', 'dca', 'dca', 'dca'])
    style = rng.random()
    if style < 0.25:
        dcs = [0] * nhosts                                   # nothing known yet (contact points before the first refresh)
    elif style < 0.5:
        dcs = [rng.choice([0] + list(range(1, ndcs + 1))) for _ in range(nhosts)]
    else:
        dcs = [rng.randint(1, ndcs) for _ in range(nhosts)]
    spec = {'kind': kind, 'dcs': dcs,
            'pred': {'hosts': sorted(rng.sample(range(nhosts), rng.randint(0, nhosts))), 'dc': rng.choice([0, 0, 1, 2]),
                     'style': rng.randrange(4)}}
    if rng.random() < 0.25 and nhosts > 1:
        # several hosts behind one address (same IP / different ports, SNI-style proxies): address index per host
        spec['addrs'] = [rng.randrange(max(1, nhosts - 1)) for _ in range(nhosts)]
    if kind == 'wl':
        # allowed ADDRESSES, each written canonically or in a spelling that only getaddrinfo maps to the host's address
        spec['allowed'] = sorted(rng.sample(range(nhosts), rng.randint(0, nhosts)))
        spec['wl_names'] = [rng.choice([0, 1]) for _ in spec['allowed']]
    # the token-aware wrapper asked after every event: replica list (any hosts, any order), routed or not, scripted is_up
    spec['ta'] = {'replicas': rng.sample(range(nhosts), rng.randint(0, nhosts)), 'routed': rng.random() < 0.9,
                  'up': [rng.choice([True, True, None, False]) for _ in range(nhosts)]}
    if kind == 'dca':
        spec['local'] = rng.choice([0, 0, 1, 1, 2, 3])
        spec['used'] = rng.choice([0, 1, 1, 2, 3, 7, -1])
        spec['contact'] = sorted(rng.sample(range(nhosts), rng.randint(0, min(3, nhosts))))
    return spec


def gen_history(rng, spec, length, populate=True):
    n = len(spec['dcs'])
    hist = []
    if populate:
        k = rng.randint(0, n)
        hs = rng.sample(range(n), k)
        if rng.random() < 0.15 and hs:
            hs.append(rng.choice(hs))                         # all_hosts() never repeats a host; the policies tolerate it
        hist.append(['P', hs, rng.randint(0, len(hs) - 1) if hs else 0])
        if rng.random() < 0.3:
            # Cluster.connect populates the legacy policy twice (profile manager, then directly) with the same hosts
            hist.append(['P', list(hs), rng.randint(0, len(hs) - 1) if hs else 0])
    dcs = list(spec['dcs'])
    npop = len(hist)
    while len(hist) < length + npop:
        h = rng.randrange(n)
        r = rng.random()
        if r < 0.25:
            hist.append(['U', h])
        elif r < 0.45:
            hist.append(['D', h])
        elif r < 0.6:
            hist.append(['A', h])
        elif r < 0.72:
            hist.append(['R', h])
        else:
            d = rng.choice([x for x in (0, 1, 2, 3) if x != dcs[h]] if rng.random() < 0.9 else [dcs[h]])
            if d == 0 and rng.random() < 0.7:
                d = rng.choice([1, 2, 3])
            dcs[h] = d
            hist.append(['L', h, d, rng.randint(1, 2)])
    return hist


def all_events(nhosts, dcs=(1, 2)):
    evs = []
    for h in range(nhosts):
        evs += [['U', h], ['D', h], ['A', h], ['R', h]]
        for d in dcs:
            evs.append(['L', h, d, 1])
    return evs


def exhaustive_histories(nhosts, length, dcs=(1, 2), kinds=None):
    """every event sequence of exactly `length` over the event alphabet (prefixes are covered by the per-step checks)"""
    evs = all_events(nhosts, dcs)
    if kinds:
        evs = [e for e in evs if e[0] in kinds]
    return itertools.product(evs, repeat=length)
