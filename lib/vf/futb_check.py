"""Common driver of the C16 / C17 / C19 checks: run scenarios on the real ResponseFuture, apply the property's Python
oracle (the statement, checked on the IMPLEMENTATION, independent of the Coq model's control flow), compare every step's
observation with the Coq model (vm_compute), classify differences."""
import glob, itertools, json, os
from . import core
from . import futb_harness as H
from . import futb_model as M

HEALTHY = H.PHEALTHY
# VERIF_FUTB_SCALE < 1 thins the random/sampled part of the three checks (used only by the mutation self-test)
SCALE = float(os.environ.get('VERIF_FUTB_SCALE', '1'))
REASON = {0: [0], 1: [1], 2: [2], 3: [3], 4: [4], 5: [5], 7: [2]}   # pool state -> _errors canonical value


def uses_keyspace_flag(pv):
    # native protocol: PREPARE carries a keyspace from v5 on; DSE_V1 (65) does not, DSE_V2 (66) does
    return pv >= 5 and pv != 65


class Oracle(object):
    """Executable statement of C16/C17/C19 over the implementation's observable behaviour, step by step."""

    def __init__(self, sc, run, which):
        self.sc, self.run, self.which = sc, run, which
        self.plan = H.effective_plan(sc)
        self.nodup = len(set(self.plan)) == len(self.plan)
        self.cursor = 0              # plan positions < cursor have been consumed (sent or skipped)
        self.touched = set()         # hosts that got a message or were skipped with a recorded reason
        self.qexp = []               # expectations parallel to the executor queue
        self.retry_decisions = 0
        self.cl_epoch = 0            # bumped by every retry decision that sets a consistency level (the message is shared)
        self.bad = []                # (key, what, theorem)
        self.nha_seen = False

    def flag(self, key, what, theorem):
        self.bad.append((key, what, theorem))

    # ------------------------------------------------------------------
    def step(self, idx, op):
        run, env, sc = self.run, self.run.env, self.sc
        pre_queue = list(env.queue)
        pre_state = run.state() if idx else None
        pre_exc = run.future._final_exception
        pre_done = self.pre_done = run.completed()     # first outcome wins: a completed request keeps its outcome
        new_page = op[0] == 'page' and bool(run.future._paging_state)
        if new_page:
            # fetching a further page: a fresh plan (the explicit target again, or the load balancer's plan for this fetch)
            # and a request without outcome again
            self.plan = [sc['target']] if sc.get('target') is not None else H.page_plan(sc, op[1])
            self.nodup = len(set(self.plan)) == len(self.plan)
            self.cursor = 0
            pre_done = self.pre_done = False
            pre_exc = None
        pre_cl = getattr(run.future.message, 'consistency_level', None)
        pools = list(env.pool_state)
        n_cons = len(env.consults)
        task_exp = None
        resp_ctx = None
        if op[0] == 'run' and op[1] < len(self.qexp):
            task_exp = self.qexp.pop(op[1])
        if op[0] == 'resp' and op[1] < len(env.sent) and not env.sent[op[1]].get('answered'):
            resp_ctx = dict(env.sent[op[1]])
            if resp_ctx['kind'] == 0 and resp_ctx.get('page', 0) != getattr(run.future, '_page_no', 0):
                resp_ctx = None      # the answer of an execution of an earlier page fetch: dropped by the driver, nothing to expect
        if op[0] == 'pool':
            pools[op[1]] = op[2]
        obs = run.step(op)
        ev, st = run.last_events, run.last_state
        self.timed_out = bool(sc.get('timeout')) and env.clock.now > 1005.0    # client timeout elapsed: a walk may stop early
        sends = [e for e in ev if e[0] == 1]
        consults = [e for e in ev if e[0] == 3]
        new_tasks = st['queue'][len(pre_queue) - (1 if op[0] == 'run' and task_exp is not None else 0):]
        # keep qexp parallel to the queue
        while len(self.qexp) < len(env.queue):
            self.qexp.append(None)

        # ------------------------------------------------ C16: consultation, retry_num, decision obeyed
        expect_consult = bool(resp_ctx and resp_ctx['kind'] == 0 and op[2][0] == 3)
        if self.which == 'C16':
            if len(consults) != (1 if expect_consult else 0):
                self.flag('consult.count', 'retry policy consulted %d times for %r (expected %d)' % (
                    len(consults), op, 1 if expect_consult else 0), 'C16_consulted_once')
            for cns in consults:
                if expect_consult and (cns[1], cns[2]) != (op[2][1], op[2][2]):
                    self.flag('consult.wrong_error', 'policy consulted about %r, failure was %r' % (cns, op[2]), 'C16_consulted_once')
                if cns[3] != self.retry_decisions:
                    self.flag('consult.retry_num', 'retry_num=%d passed to the policy after %d retries (%r)' % (
                        cns[3], self.retry_decisions, op), 'C16_retry_num')
        if expect_consult and len(consults) == 1:
            n = n_cons
            dec, dcl = sc['script'][n] if n < len(sc['script']) else (1, None)
            h = resp_ctx['host']
            want_cl = dcl if dcl is not None else pre_cl
            if dec in (0, 3):
                self.retry_decisions += 1
                if pre_exc is None and dcl is not None:
                    self.cl_epoch += 1
                if pre_exc is None and self.qexp and len(env.queue) == len(pre_queue) + 1:
                    self.qexp[-1] = {'kind': 'retry', 'reuse': dec == 0, 'host': h, 'cl': want_cl, 'epoch': self.cl_epoch}
                inline_now = bool(sc.get('inline')) and pre_exc is None and not env.shut
                if inline_now:
                    # executor-first schedule: the retry task runs inside this very step
                    task_exp = {'kind': 'retry', 'reuse': dec == 0, 'host': h, 'cl': want_cl, 'epoch': self.cl_epoch}
                if self.which == 'C16' and not inline_now:
                    if sends:
                        self.flag('retry.sent_on_event_loop', 'message sent while handling the decision %r' % (op,), 'C16_obeys')
                    if pre_exc is None and not env.shut and len(env.queue) != len(pre_queue) + 1:
                        self.flag('retry.not_scheduled', '%s decided for %r but no retry was scheduled' % (
                            H.DECISION_NAMES[dec], op), 'C16_obeys')
            elif self.which == 'C16':
                if dec == 1 and not pre_done and st['exc'] != [1, op[2][1], op[2][2]]:
                    self.flag('rethrow.wrong_outcome', 'RETHROW decided for %r but final exception is %r' % (op, st['exc']), 'C16_obeys')
                if dec == 2 and not pre_done and st['res'] != 1:
                    self.flag('ignore.wrong_outcome', 'IGNORE decided for %r but result is %r' % (op, st['res']), 'C16_obeys')
                if sends or len(env.queue) != len(pre_queue):
                    self.flag('rethrow_ignore.retried', '%s decided for %r but something was sent/scheduled' % (
                        H.DECISION_NAMES[dec], op), 'C16_obeys')
        if self.which == 'C16' and not sc['idem'] and run.spec_armed():
            self.flag('speculative.non_idempotent', 'speculative timer armed for a non-idempotent statement', 'C16_non_idempotent_never_speculative')

        # ------------------------------------------------ a shut-down session refuses follow-up work
        if env.shut and resp_ctx is not None and not sends and len(env.queue) == len(pre_queue):
            wants_followup = (resp_ctx['kind'] == 1) or (expect_consult and len(consults) == 1 and pre_exc is None and
                                                         (sc['script'][n_cons][0] if n_cons < len(sc['script']) else 1) in (0, 3))
            if wants_followup and not pre_done and st['exc'] != [11]:
                self.flag('shutdown.request_left_pending', 'the shut-down session refused the follow-up of %r but the request did not fail '
                          'with ConnectionShutdown (outcome %r / %r)' % (op, st['res'], st['exc']),
                          {'C16': 'C16_consulted_once_and_obeyed', 'C17': 'C17_other_sends_are_tasks'}.get(self.which, 'C19_reprepare'))
        # ------------------------------------------------ C19: expectations created by responses
        if resp_ctx and resp_ctx['kind'] == 0 and op[2][0] == 4:
            self.unprepared(op, resp_ctx, pre_queue, pre_exc, sends, st)
        if resp_ctx and resp_ctx['kind'] == 1 and len(env.queue) == len(pre_queue) + 1 and self.qexp:
            self.qexp[-1] = {'kind': 'after_prepare', 'host': resp_ctx['host'], 'resp': op[2]}

        # ------------------------------------------------ messages and skips of this step, in the order they happened
        first = True
        task_sent = False
        for e in ev:
            if e[0] == 1:
                justified = False
                if first and task_exp:
                    justified = task_sent = self.task_send(task_exp, e, pools, pre_exc, pre_cl, op)
                elif task_sent:
                    # the executor task's own message went out; the task must not ALSO walk the plan
                    kind = task_exp['kind']
                    self.flag({'retry': 'retry.extra_message', 'reprepare': 'reprepare.extra_message'}.get(kind, 'resend.extra_message'),
                              'the %s task sent its message to host %d and then a second message %r in the same step (%r)' % (
                                  kind, task_exp['host'], e, op),
                              {'C16': 'C16_obeys_retry', 'C17': 'C17_other_sends_are_tasks'}.get(self.which, 'C19_reprepare'))
                first = False
                if not justified:
                    self.plan_send(e, pools, st, op, task_exp, pre_cl)
                self.touched.add(e[1])
            elif e[0] == 2 and e[2:] in ([0], [1], [2], [3], [4], [5]):
                x = e[1]
                self.touched.add(x)
                if self.which == 'C17' and REASON.get(pools[x]) != e[2:]:
                    self.flag('skip.wrong_reason', 'host %d skipped with reason %r while its pool is %s (%r)' % (
                        x, e[2:], H.POOL_NAMES[pools[x]], op), 'C17_order')
                if self.nodup and x in self.plan and self.plan.index(x) >= self.cursor:
                    j = self.plan.index(x)
                    if j != self.cursor and self.which == 'C17':
                        self.flag('order.skip_out_of_order', 'host %d skipped before plan hosts %r were looked at (%r)' % (
                            x, self.plan[self.cursor:j], op), 'C17_order')
                    self.cursor = j + 1
        if task_exp and not sends:
            self.task_nosend(task_exp, pools, pre_exc, st, op)
        timed_out = bool(sc.get('timeout')) and env.clock.now > 1005.0      # the client timeout elapsed: the walk may stop (C15's business)
        if self.which == 'C17' and not sends and not pre_done and not timed_out and not (st['exc'] and st['exc'][0] == 5) and (
                op[0] == 'start' or new_page or (task_exp and task_exp['kind'] == 'retry')):
            # a send_request with error_no_hosts=True ends with a message or with NoHostAvailable
            self.flag('walk.neither_sent_nor_failed', 'after %r no message was sent and the request did not fail with NoHostAvailable '
                      '(plan %r, pools %r)' % (op, self.plan, [H.POOL_NAMES[p] for p in pools]), 'C17_order')
        if task_exp and task_exp['kind'] == 'after_prepare':
            self.after_prepare_outcome(task_exp, pre_exc, sends, st, op, pre_queue)
            if self.which == 'C19' and pre_exc is not None and (sends or len(env.queue) > len(pre_queue) - 1):
                # the request had already failed (e.g. id mismatch on a concurrent attempt): whatever the answer to this
                # PREPARE, nothing further is sent or scheduled for it
                self.flag('after_failure.message_sent', 'the request had already failed, yet the answer %r to the PREPARE on host %d '
                          'caused %r to be sent (%r)' % (task_exp['resp'], task_exp['host'], sends, op), 'C19_prepare_error_fails_and_stops')
        # ------------------------------------------------ pool accounting of the connections this request used
        acc = run.accounting()
        if acc and not env.shut and not getattr(self, 'acc_flagged', False):     # (a shut-down session closes its pools anyway)
            self.acc_flagged = True
            ctxname = {'reprepare': 'reprepare', 'after_prepare': 'reprepare'}.get(task_exp['kind'] if task_exp else '', 'request')
            self.flag(ctxname + '.connection_accounting',
                      'after %r: (connection, host, in_flight, unanswered requests on it) = %r: a connection was returned to its pool '
                      'twice / never returned' % (op, acc),
                      {'C16': 'C16_consulted_once_and_obeyed', 'C17': 'C17_other_sends_are_tasks'}.get(self.which, 'C19_resend'))
        # ------------------------------------------------ C17: exhaustion
        if self.which == 'C17' and st['exc'] and st['exc'][0] == 5 and not (pre_state and pre_state['exc'] == st['exc']):
            keys = [st['exc'][2 + i] for i in self.err_offsets(st['exc'])]
            rest = self.plan[self.cursor:] if self.nodup else []
            usable = [x for x in rest if pools[x] == HEALTHY]
            if usable:
                self.flag('exhaustion.premature', 'NoHostAvailable raised while plan hosts %r were still untried and usable (%r)' % (usable, op), 'C17_exhaustion')
            for x in rest:
                self.touched.add(x)
            extra = [k for k in keys if k not in self.touched]
            if extra:
                self.flag('exhaustion.unknown_host', 'NoHostAvailable.errors lists hosts never attempted: %r' % extra, 'C17_exhaustion')
            if not run.open_attempts() and not env.queue and self.nodup and pre_exc is None and st['res'] is None:
                missing = [x for x in self.plan if x not in keys]
                if missing:
                    self.flag('exhaustion.missing_host', 'NoHostAvailable.errors %r does not list attempted/skipped hosts %r (%r)' % (
                        keys, missing, op), 'C17_exhaustion')
            self.cursor = len(self.plan)
        return obs

    @staticmethod
    def err_offsets(exc):
        """offsets (relative to index 2) of the host fields inside the canonical NoHostAvailable value"""
        out, i, n = [], 0, exc[1]
        body = exc[2:]
        for _ in range(n):
            out.append(i)
            i += 1
            i += 3 if body[i] == 6 else (2 if body[i] == 99 else 1)
        return out

    # ------------------------------------------------------------------ C17 plan walk
    def plan_send(self, snd, pools, st, op, task_exp, pre_cl):
        h = snd[1]
        if snd[2] != 0:
            if self.which == 'C19':
                self.flag('prepare.unexpected', 'PREPARE sent to host %d without an UNPREPARED answer from it (%r)' % (h, op), 'C19_reprepare')
            return
        if not self.nodup:
            return
        if h not in self.plan:
            if self.which == 'C17':
                self.flag('order.not_in_plan', 'message sent to host %d which is not in the plan %r' % (h, self.plan), 'C17_target_only' if self.sc.get('target') is not None else 'C17_order')
            return
        j = self.plan.index(h)
        if j < self.cursor:
            if self.which in ('C17', 'C16'):
                tgt = self.sc.get('target') is not None
                self.flag(('target.' if tgt else '') + 'repeat.without_retry_decision',
                          'host %d got the request again (%r) although no RETRY decision named it: plan %r, already consumed up to %d'
                          % (h, op, self.plan, self.cursor), 'C17_no_repeat' if self.which == 'C17' else 'C16_obeys')
            return
        if self.which == 'C17':
            errs = dict((e[0], e[1:]) for e in st['errors'])
            for x in self.plan[self.cursor:j]:
                if pools[x] == HEALTHY:
                    self.flag('order.skipped_usable', 'host %d (usable) skipped: message went to host %d, plan %r (%r)' % (x, h, self.plan, op), 'C17_order')
                elif errs.get(x) != REASON[pools[x]]:
                    self.flag('skip.not_recorded', 'host %d skipped (%s) but _errors has %r for it (%r)' % (
                        x, H.POOL_NAMES[pools[x]], errs.get(x), op), 'C17_order')
                self.touched.add(x)
        if self.which == 'C16' and task_exp and task_exp['kind'] == 'retry' and task_exp['epoch'] == self.cl_epoch:
            # (a later decision of a concurrent attempt may have changed the shared message's level: then not compared)
            if snd[3:] != H.enc_opt(task_exp['cl']):
                self.flag('retry.wrong_consistency', 'retry sent with consistency %r, policy chose %r (%r)' % (snd[3:], task_exp['cl'], op), 'C16_obeys')
        self.cursor = j + 1

    # ------------------------------------------------------------------ messages justified by the executor task run
    def task_send(self, t, snd, pools, pre_exc, pre_cl, op):
        h = snd[1]
        if t['kind'] == 'retry' and t['reuse'] and pools[t['host']] == HEALTHY and pre_exc is None:
            if self.which == 'C16':
                if h != t['host'] or snd[2] != 0:
                    self.flag('retry.wrong_host', 'RETRY decided for host %d but the next message went to host %d (%r)' % (t['host'], h, op), 'C16_obeys')
                elif t['epoch'] == self.cl_epoch and snd[3:] != H.enc_opt(t['cl']):
                    self.flag('retry.wrong_consistency', 'RETRY sent with consistency %r, policy chose %r (%r)' % (snd[3:], t['cl'], op), 'C16_obeys')
            return h == t['host']
        if t['kind'] == 'reprepare' and pools[t['host']] == HEALTHY:
            if self.which == 'C19':
                want = [1, t['host'], 1, t['qs']] + H.enc_opt(t['ks'])
                if snd != want:
                    self.flag('reprepare.wrong_message', 'after UNPREPARED from host %d expected PREPARE %r, sent %r (%r)' % (t['host'], want, snd, op), 'C19_reprepare')
            return h == t['host'] and snd[2] == 1
        if t['kind'] == 'after_prepare' and t['resp'][0] == 2 and pools[t['host']] == HEALTHY and pre_exc is None:
            ps = self.sc['ps']
            if ps is not None and ps[0] != t['resp'][1]:
                return False      # id mismatch: nothing may be sent (checked in after_prepare_outcome)
            if self.which == 'C19' and (h != t['host'] or snd[2] != 0 or snd[3:] != H.enc_opt(pre_cl)):
                self.flag('resend.wrong_message', 'after PREPARED from host %d expected the original request there, sent %r (%r)' % (t['host'], snd, op), 'C19_resend')
            return h == t['host'] and snd[2] == 0
        return False

    def task_nosend(self, t, pools, pre_exc, st, op):
        if pre_exc is not None:
            return
        if self.which == 'C16' and t['kind'] == 'retry' and t['reuse'] and pools[t['host']] == HEALTHY:
            self.flag('retry.not_sent', 'RETRY decided for host %d (healthy) but nothing was sent (%r)' % (t['host'], op), 'C16_obeys')
        if self.which == 'C16' and t['kind'] == 'retry' and not t['reuse'] and self.nodup and not self.timed_out:
            if any(pools[x] == HEALTHY for x in self.plan[self.cursor:]):
                self.flag('next_host.not_sent', 'RETRY_NEXT_HOST decided, usable plan hosts remain, nothing sent (%r)' % (op,), 'C16_obeys')
        if self.which == 'C19' and t['kind'] == 'reprepare' and pools[t['host']] == HEALTHY:
            self.flag('reprepare.not_sent', 'UNPREPARED from host %d (healthy) but no PREPARE was sent (%r)' % (t['host'], op), 'C19_reprepare')
        if self.which == 'C19' and t['kind'] == 'after_prepare' and t['resp'][0] == 2 and pools[t['host']] == HEALTHY:
            ps = self.sc['ps']
            if ps is None or ps[0] == t['resp'][1]:
                self.flag('resend.not_sent', 'PREPARED from host %d (healthy) but the original request was not re-sent (%r)' % (t['host'], op), 'C19_resend')

    # ------------------------------------------------------------------ C19
    def stmt_for(self, rid):
        sc = self.sc
        known = dict((k[0], k) for k in sc.get('known', []))
        if sc['ps'] is not None:
            if sc['ps'][0] != rid:
                return 'assert'
            return known.get(rid, sc['ps'])
        return known.get(rid)

    def unprepared(self, op, resp_ctx, pre_queue, pre_exc, sends, st):
        env, sc = self.run.env, self.sc
        stmt = self.stmt_for(op[2][1])
        if stmt is None or stmt == 'assert':
            return      # the driver has no record of that statement / got a foreign id: outside the statement
        flag = uses_keyspace_flag(sc['pv'])
        ks_now = env.keyspace
        mismatch = (not flag) and stmt[2] is not None and ks_now != stmt[2]
        h = resp_ctx['host']
        if mismatch:
            if self.which == 'C19':
                if not self.pre_done and st['exc'] != [7]:
                    self.flag('keyspace_mismatch.wrong_outcome', 'session keyspace %r != statement keyspace %r but final exception is %r (%r)' % (ks_now, stmt[2], st['exc'], op), 'C19_mismatch_fails_and_stops')
                if sends or len(env.queue) != len(pre_queue):
                    self.flag('keyspace_mismatch.continues', 'keyspace mismatch but something was sent/scheduled (%r)' % (op,), 'C19_mismatch_fails_and_stops')
            return
        if len(env.queue) == len(pre_queue) + 1 and self.qexp:
            self.qexp[-1] = {'kind': 'reprepare', 'host': h, 'qs': stmt[1], 'ks': stmt[2] if flag else None}
        elif self.which == 'C19' and not env.shut:
            self.flag('reprepare.not_scheduled', 'UNPREPARED from host %d but no re-prepare was scheduled (%r)' % (h, op), 'C19_reprepare')

    def after_prepare_outcome(self, t, pre_exc, sends, st, op, pre_queue):
        if self.which != 'C19' or pre_exc is not None or self.pre_done:
            return
        ps = self.sc['ps']
        r = t['resp']
        if r[0] == 2 and ps is not None and ps[0] != r[1]:
            if sends:
                self.flag('id_mismatch.message_sent', 're-prepare on host %d returned id %d (expected %d): the request fails but %d further message(s) were sent: %r'
                          % (t['host'], r[1], ps[0], len(sends), sends), 'C19_mismatch_fails_and_stops')
            if st['exc'] != [6]:
                self.flag('id_mismatch.wrong_outcome', 're-prepare id mismatch on host %d but final exception is %r (%r)' % (t['host'], st['exc'], op), 'C19_mismatch_fails_and_stops')
            if len(self.run.env.queue) > len(pre_queue) - 1:
                self.flag('id_mismatch.scheduled', 're-prepare id mismatch but more work was scheduled (%r)' % (op,), 'C19_mismatch_fails_and_stops')
        elif r[0] in (4, 5) or (r[0] == 3 and r[1] <= 6):
            want = {3: [1, r[1], r[2]] if r[0] == 3 else None, 4: [4, r[-1]], 5: [2, r[-1]]}[r[0]]
            if st['exc'] != want:
                self.flag('reprepare_error.wrong_outcome', 'PREPARE on host %d failed with %r but final exception is %r' % (t['host'], r, st['exc']), 'C19_mismatch_fails_and_stops')
            if sends:
                self.flag('reprepare_error.message_sent', 'PREPARE on host %d failed with %r but a message was sent' % (t['host'], r), 'C19_mismatch_fails_and_stops')


# ------------------------------------------------------------------------------------------------- running cases
def replay_scenario(sc, which):
    """run a fixed scenario (with its ops) on the implementation; -> (obs, oracle findings)"""
    run = H.Run(sc)
    orc = Oracle(sc, run, which)
    obs = [orc.step(i, op) for i, op in enumerate(sc['ops'])]
    return obs, orc.bad, run


def grow(sc, rng, which, max_ops=14, weights=None, env_changes=True):
    """random legal history (walks the implementation's enabled operations) with the oracle attached"""
    run = H.Run(sc)
    orc = Oracle(sc, run, which)
    obs = []
    tagc = itertools.count(10)
    started = False
    for i in range(max_ops):
        choices = M.enabled_ops(run, rng, sc, started)
        if started and run.future._paging_state and run.completed() and not run.open_attempts() and not run.env.queue:
            choices = choices + [('page',)] * 3
        if env_changes and started and rng.random() < 0.12:
            op = ['pool', rng.randrange(sc['n']), rng.choice([0, 1, 2, 3, 4, 5, 6, 6, 6])] if rng.random() < 0.8 \
                else (['ks', rng.choice([None, 1, 2])] if rng.random() < 0.7 else ['shutdown'])
        elif not choices:
            break
        else:
            c = rng.choice(choices)
            if c[0] == 'resp':
                op = ['resp', c[1], M.random_resp(rng, sc, run.env.sent[c[1]]['kind'] == 1, weights, lambda: next(tagc))]
            elif c[0] == 'page':
                pl = list(range(sc['n']))
                rng.shuffle(pl)
                op = ['page', pl[:rng.randint(1, sc['n'])]]
            else:
                op = list(c)
        started = True
        sc['ops'].append(op)
        obs.append(orc.step(i, op))
    return obs, orc.bad, run


def drive_sequential(sc, which, responder, max_ops=40):
    """deterministic sequential history: start, then always answer the single open attempt with responder(i, prep)
    and run the single queued task, until nothing is enabled"""
    run = H.Run(sc)
    orc = Oracle(sc, run, which)
    obs = []
    tag = itertools.count(10)
    op = ['start']
    for i in range(max_ops):
        sc['ops'].append(op)
        obs.append(orc.step(i, op))
        if run.env.queue:
            op = ['run', 0]
        elif run.open_attempts():
            a = run.open_attempts()[0]
            op = ['resp', a, responder(len(run.env.sent) - 1, run.env.sent[a]['kind'] == 1, next(tag))]
        else:
            break
    return obs, orc.bad, run


def load_corpus(pid):
    out = []
    for p in sorted(glob.glob(os.path.join(core.VERIF, 'corpus', pid, '*.json'))):
        with open(p) as f:
            out.append((os.path.basename(p), json.load(f)))
    return out


def evaluate(ctx, which, items):
    """items: list of (scenario, obs, oracle findings, tags dict).  Reports violations, compares with the model."""
    cases = []
    for sc, obs, bad, tags in items:
        kinds = set()
        for op in sc['ops']:
            ctx.count('op', op[0])
            if op[0] == 'resp':
                ctx.count('response', ['rows', 'void', 'prepared', 'retryable:' + (H.KIND_NAMES[op[2][1]] if op[2][0] == 3 else ''),
                                       'unprepared', 'other_error', 'other_exception', 'junk', 'rows_more_pages'][op[2][0]])
                kinds.add(op[2][0])
        ctx.count('plan_len', len(sc['plan']))
        ctx.count('target', 'explicit' if sc.get('target') is not None else 'plan')
        for p in sc['pools']:
            ctx.count('pool_state', H.POOL_NAMES[p])
        ctx.count('history_len', min(len(sc['ops']), 20))
        nontrivial = tags.get('nontrivial', len(sc['ops']) >= 2)
        ctx.case(sc, nontrivial=nontrivial, sample={'scenario': sc, 'last_observation': obs[-1] if obs else None} if tags.get('sample') else None)
        for key, what, thm in bad:
            ctx.violation(key, what, case=sc, expected='statement of %s (%s)' % (which, thm), actual=obs[-1] if obs else None,
                          theorem=thm, kind='history')
        cases.append(M.case_term(sc, obs))
    if any(x[0].startswith('translate:') for x in ctx.proof_broken):
        return
    try:
        badidx = ctx.coq_filter(M.REQUIRES, '(fun b : bool => b)', cases, shard=300)
    except RuntimeError as e:
        ctx.proof_broken.append(('correspondence:FutB', str(e)[-800:]))
        return
    for i in badidx[:20]:
        sc, obs, bad, tags = items[i]
        model = None
        try:
            model = ctx.coq_eval(M.REQUIRES, ['map enc_obs (run %s %s %s)' % (M.config_term(sc), M.init_term(sc), M.ops_term(sc))])[0]
        except RuntimeError:
            pass
        ctx.disagreement('model-vs-impl', 'FutB model and ResponseFuture differ on scenario %s' % json.dumps(sc),
                         case=sc, actual=obs, model=model)
    ctx.extra['model_disagreements'] = len(badidx)


def do_replay(ctx, rp, which):
    sc = rp.get('case')
    if not isinstance(sc, dict) or 'ops' not in sc:
        print('nothing to replay: %s' % (rp.get('theorem'),))
        return 1
    run = H.Run(sc)
    orc = Oracle(sc, run, which)
    for i, op in enumerate(sc['ops']):
        orc.step(i, op)
        print('  %-34r events %r' % (op, run.last_events))
        print('  %34s errors=%r retries=%r cl=%r queue=%r result=%r exception=%r' % (
            '', run.last_state['errors'], run.last_state['retries'], run.last_state['cl'], run.last_state['queue'],
            run.last_state['res'], run.last_state['exc']))
    bad = orc.bad
    for key, what, thm in bad:
        print('  oracle: [%s] %s' % (key, what))
    if bad:
        print('VIOLATION property=%s replay=%s' % (which, ctx.replay_path))
        return 1
    print('not reproduced')
    return 0
