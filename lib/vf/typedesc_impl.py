"""C28 helpers: type trees, the statement's oracle in Python (written from Cassandra's formats, independent of the driver),
drivers for the real cassandra.cqltypes functions, and Gallina literals for the correspondence with Model/TypeDesc.v.

Tree forms: ('simple', cqlname) | ('list', t) | ('set', t) | ('map', k, v) | ('tuple', [t..]) |
            ('udt', ks, name, [fieldname..], [t..]) | ('vector', t, 'dim') | ('frozen', t) | ('reversed', t)
"""
import binascii, warnings

P = 'org.apache.cassandra.db.marshal.'
SIMPLE = [('ascii', 'AsciiType', 'SAscii'), ('bigint', 'LongType', 'SBigint'), ('blob', 'BytesType', 'SBlob'),
          ('boolean', 'BooleanType', 'SBoolean'), ('counter', 'CounterColumnType', 'SCounter'), ('date', 'SimpleDateType', 'SDate'),
          ('decimal', 'DecimalType', 'SDecimal'), ('double', 'DoubleType', 'SDouble'), ('duration', 'DurationType', 'SDuration'),
          ('float', 'FloatType', 'SFloat'), ('inet', 'InetAddressType', 'SInet'), ('int', 'Int32Type', 'SInt'),
          ('smallint', 'ShortType', 'SSmallint'), ('text', 'UTF8Type', 'SText'), ('time', 'TimeType', 'STime'),
          ('timestamp', 'TimestampType', 'STimestamp'), ('timeuuid', 'TimeUUIDType', 'STimeuuid'), ('tinyint', 'ByteType', 'STinyint'),
          ('uuid', 'UUIDType', 'SUuid'), ('varint', 'IntegerType', 'SVarint')]
MARSHAL = {c: m for c, m, _ in SIMPLE}
COQSIMPLE = {c: q for c, _, q in SIMPLE}


def hexname(s):
    return binascii.hexlify(s.encode('latin-1')).decode('ascii')


# ---------------------------------------------------------------- oracle: Cassandra's notations
def spec_cass(t):
    k = t[0]
    if k == 'simple':
        return P + MARSHAL[t[1]]
    if k in ('list', 'set', 'frozen', 'reversed'):
        return P + {'list': 'ListType', 'set': 'SetType', 'frozen': 'FrozenType', 'reversed': 'ReversedType'}[k] + '(' + spec_cass(t[1]) + ')'
    if k == 'map':
        return P + 'MapType(' + spec_cass(t[1]) + ',' + spec_cass(t[2]) + ')'
    if k == 'tuple':
        return P + 'TupleType(' + ','.join(spec_cass(x) for x in t[1]) + ')'
    if k == 'udt':
        return P + 'UserType(' + t[1] + ',' + hexname(t[2]) + ''.join(',%s:%s' % (hexname(f), spec_cass(x)) for f, x in zip(t[3], t[4])) + ')'
    if k == 'vector':
        return P + 'VectorType(' + spec_cass(t[1]) + ' , ' + t[2] + ')'
    raise ValueError(k)


def spec_cql(t, vec='vector', sep=', ', fz=True):
    def wrap(x):
        return 'frozen<' + x + '>' if fz else x
    k = t[0]
    r = lambda x: spec_cql(x, vec, sep, fz)
    if k == 'simple':
        return t[1]
    if k in ('list', 'set'):
        return k + '<' + r(t[1]) + '>'
    if k == 'map':
        return 'map<' + r(t[1]) + sep + r(t[2]) + '>'
    if k == 'tuple':
        return wrap('tuple<' + sep.join(r(x) for x in t[1]) + '>')
    if k == 'udt':
        return wrap(t[2])
    if k == 'vector':
        return vec + '<' + r(t[1]) + sep + t[2] + '>'
    if k == 'frozen':
        return wrap(r(t[1]))
    if k == 'reversed':
        return r(t[1])
    raise ValueError(k)


def kinds(t, acc=None):
    acc = set() if acc is None else acc
    acc.add(t[0])
    if t[0] in ('list', 'set', 'frozen', 'reversed', 'vector'):
        kinds(t[1], acc)
    elif t[0] == 'map':
        kinds(t[1], acc); kinds(t[2], acc)
    elif t[0] == 'tuple':
        for x in t[1]:
            kinds(x, acc)
    elif t[0] == 'udt':
        for x in t[4]:
            kinds(x, acc)
    return acc


def depth(t):
    if t[0] == 'simple':
        return 0
    if t[0] in ('list', 'set', 'frozen', 'reversed', 'vector'):
        return 1 + depth(t[1])
    if t[0] == 'map':
        return 1 + max(depth(t[1]), depth(t[2]))
    subs = t[1] if t[0] == 'tuple' else t[4]
    return 1 + max([depth(x) for x in subs] or [0])


def codec_matches(C, c, t):
    """same value codec: the parsed class c has the structure of t, frozen/reversed wrappers transparent on both sides"""
    while isinstance(c, type) and issubclass(c, (C.FrozenType, C.ReversedType)) and len(c.subtypes) == 1:
        c = c.subtypes[0]
    while t[0] in ('frozen', 'reversed'):
        t = t[1]
    k = t[0]
    if not isinstance(c, type):
        return False
    if k == 'simple':
        return c is getattr(C, MARSHAL[t[1]])
    if k in ('list', 'set'):
        return issubclass(c, C.ListType if k == 'list' else C.SetType) and len(c.subtypes) == 1 and codec_matches(C, c.subtypes[0], t[1])
    if k == 'map':
        return issubclass(c, C.MapType) and len(c.subtypes) == 2 and codec_matches(C, c.subtypes[0], t[1]) and codec_matches(C, c.subtypes[1], t[2])
    if k == 'tuple':
        return (issubclass(c, C.TupleType) and not issubclass(c, C.UserType) and len(c.subtypes) == len(t[1])
                and all(codec_matches(C, a, b) for a, b in zip(c.subtypes, t[1])))
    if k == 'udt':
        return (issubclass(c, C.UserType) and getattr(c, 'keyspace', None) == t[1] and c.typename == t[2]
                and tuple(getattr(c, 'fieldnames', ())) == tuple(t[3]) and len(c.subtypes) == len(t[4])
                and all(codec_matches(C, a, b) for a, b in zip(c.subtypes, t[4])))
    if k == 'vector':
        return (issubclass(c, C.VectorType) and isinstance(c.vector_size, int) and not isinstance(c.vector_size, bool)
                and c.vector_size == int(t[2]) and c.subtype is not None and codec_matches(C, c.subtype, t[1]))
    return False


# ---------------------------------------------------------------- registry isolation
class Fresh(object):
    """Every evaluated case starts from the registry as it is right after import: lookup_casstype registers every class it
    creates (unrecognised names, UDT names) in module-level dicts, which would make results depend on earlier cases."""

    def __init__(self, C):
        self.C = C
        self.cass = dict(C._casstypes)
        self.cql = dict(C._cqltypes)
        self.attrs = set(vars(C).keys())
        REG.clear(); REG.update(id(c) for c in C._casstypes.values())

    def reset(self):
        C = self.C
        C._casstypes.clear(); C._casstypes.update(self.cass)
        C._cqltypes.clear(); C._cqltypes.update(self.cql)
        C.UserType._cache.clear()
        for k in list(vars(C).keys()):
            if k not in self.attrs:
                delattr(C, k)


def registry_table(C):
    rows = []
    for name in sorted(C._casstypes):
        c = C._casstypes[name]
        kind = 'udt' if c is C.UserType else 'vector' if c is C.VectorType else 'default'
        rows.append((name, c.cassname, c.typename, c.num_subtypes, kind))
    return rows


REG = set()   # ids of the classes registered at import (filled by Fresh)


# ---------------------------------------------------------------- observation of the driver's classes
def obs(C, c):
    """canonical structure of what lookup_casstype returned"""
    if isinstance(c, bool) or not isinstance(c, (int, type)):
        return ('other', repr(type(c)))
    if isinstance(c, int):
        return ('int', str(c))
    d = vars(c)
    if id(c) in REG:
        return ('reg', c.cassname)
    if issubclass(c, C.VectorType) and 'vector_size' in d:
        vs = c.vector_size
        return ('vec', c.cassname, obs(C, c.subtype), obs(C, vs))
    if issubclass(c, C.UserType) and 'keyspace' in d:
        return ('udt', c.keyspace, c.typename, list(c.fieldnames), [obs(C, s) for s in c.subtypes])
    if 'subtypes' in d:
        names = list(d.get('fieldnames') or [])
        if issubclass(c, C._UnrecognizedType):
            return ('unrec', c.cassname, [obs(C, s) for s in c.subtypes], names)
        return ('app', c.cassname, [obs(C, s) for s in c.subtypes], names)
    if issubclass(c, C._UnrecognizedType):
        return ('unrec', c.cassname, [], [])
    return ('reg', c.cassname)


def call(f, *a):
    with warnings.catch_warnings():
        warnings.simplefilter('ignore')
        try:
            return ('ok', f(*a))
        except ValueError as e:
            return ('ValueError', type(e).__name__)
        except Exception as e:
            return ('escapes', type(e).__name__)


def printed(f, *a, **kw):
    """result of a printer method (None = raised)"""
    try:
        s = f(*a, **kw)
    except Exception:
        return None
    if not isinstance(s, str):
        return None
    return s


# ---------------------------------------------------------------- Gallina literals
def _ascii_term(i):
    return 'Ascii ' + ' '.join('true' if (i >> k) & 1 else 'false' for k in range(8))


CHAR_PRELUDE = ''.join('Definition k%02x : ascii := %s.\n' % (i, _ascii_term(i)) for i in range(256)) + \
    'Definition PFX : str := [%s].\n' % ';'.join('k%02x' % ord(ch) for ch in P)


def gs(s):
    """str -> Gallina term of type str (list ascii).  Coq string literals are interpreted by kernel reduction (about 2 ms per
    character), so strings are written as lists of the character constants of CHAR_PRELUDE, the marshal prefix factored out."""
    def chunk(x):
        return '[' + ';'.join('k%02x' % min(ord(ch), 255) for ch in x) + ']'
    parts = s.split(P)
    if len(parts) == 1:
        return chunk(s) if s else '(@nil ascii)'
    terms = []
    for i, x in enumerate(parts):
        if i:
            terms.append('PFX')
        if x:
            terms.append(chunk(x))
    return '(' + ' ++ '.join(terms) + ')'


def glist(items):
    return '[' + '; '.join(items) + ']'


def gopt(s):
    return 'None' if s is None else '(Some %s)' % gs(s)


def gty(t):
    k = t[0]
    if k == 'simple':
        return '(TSimple %s)' % COQSIMPLE[t[1]]
    if k in ('list', 'set', 'frozen', 'reversed'):
        return '(%s %s)' % ({'list': 'TList', 'set': 'TSet', 'frozen': 'TFrozen', 'reversed': 'TReversed'}[k], gty(t[1]))
    if k == 'map':
        return '(TMap %s %s)' % (gty(t[1]), gty(t[2]))
    if k == 'tuple':
        return '(TTuple %s)' % glist(gty(x) for x in t[1])
    if k == 'udt':
        return '(TUdt %s %s %s %s)' % (gs(t[1]), gs(t[2]), glist(gs(f) for f in t[3]), glist(gty(x) for x in t[4]))
    if k == 'vector':
        return '(TVector %s %s)' % (gty(t[1]), gs(t[2]))
    raise ValueError(k)


def gcls(o):
    k = o[0]
    if k == 'int':
        return '(CInt %s)' % gs(o[1])
    if k == 'reg':
        return '(CReg %s)' % gs(o[1])
    if k in ('app', 'unrec'):
        return '(%s %s %s %s)' % ('CApp' if k == 'app' else 'CUnrec', gs(o[1]), glist(gcls(s) for s in o[2]),
                                  glist(gopt(n) for n in o[3]))
    if k == 'udt':
        return '(CUdt %s %s %s %s)' % (gs(o[1]), gs(o[2]), glist(gs(f) for f in o[3]), glist(gcls(s) for s in o[4]))
    if k == 'vec':
        return '(CVec %s %s %s)' % (gs(o[1]), gcls(o[2]), gcls(o[3]))
    return '(CReg [k3f])'


def gpres(r, C):
    if r[0] == 'ok':
        return '(POk %s)' % gcls(obs(C, r[1]))
    return '(@PValueError cls)' if r[0] == 'ValueError' else '(@PEscapes cls)'


def gpyt(x):
    if isinstance(x, str):
        return '(PStr %s)' % gs(x)
    if isinstance(x, (list, tuple)):
        return '(PList %s)' % glist(gpyt(y) for y in x)
    return '(PStr [k3f])'


def gpyts(l):
    return glist(gpyt(x) for x in l)


def ascii_only(s):
    return all(ord(ch) < 128 for ch in s)


# ---------------------------------------------------------------- behavioural "same value codec"
def ref_class(C, t):
    """the codec class of the type built directly (no descriptor parsing, no frozen/reversed wrappers at any level)"""
    while t[0] in ('frozen', 'reversed'):
        t = t[1]
    k = t[0]
    if k == 'simple':
        return getattr(C, MARSHAL[t[1]])
    if k == 'list':
        return C.ListType.apply_parameters([ref_class(C, t[1])])
    if k == 'set':
        return C.SetType.apply_parameters([ref_class(C, t[1])])
    if k == 'map':
        return C.MapType.apply_parameters([ref_class(C, t[1]), ref_class(C, t[2])])
    if k == 'tuple':
        return C.TupleType.apply_parameters([ref_class(C, x) for x in t[1]])
    if k == 'udt':
        return C.UserType.make_udt_class(t[1], t[2], tuple(t[3]), tuple(ref_class(C, x) for x in t[4]))
    if k == 'vector':
        return C.VectorType.apply_parameters([ref_class(C, t[1]), int(t[2])], None)
    raise ValueError(k)


def sample_value(t, i=0):
    import datetime, decimal, uuid
    from cassandra import util
    while t[0] in ('frozen', 'reversed'):
        t = t[1]
    k = t[0]
    if k == 'simple':
        return {'ascii': 'abc', 'bigint': 2 ** 40 + 5 + i, 'blob': b'\x00\xff' + bytes([i]), 'boolean': i % 2 == 0, 'counter': 7 + i,
                'date': datetime.date(2020, 1, 2 + i), 'decimal': decimal.Decimal('1.50'), 'double': 1.25 + i,
                'duration': util.Duration(1, 2, 3 + i), 'float': 0.5 + i, 'inet': '10.0.0.%d' % (1 + i), 'int': 100000 + i,
                'smallint': 300 + i, 'text': 'txt%d' % i, 'time': datetime.time(1, 2, 3 + i),
                'timestamp': datetime.datetime(2020, 1, 2, 3, 4, 5 + i), 'timeuuid': uuid.UUID('e23f1e02-8f1c-11ee-b9d1-0242ac12000%d' % i),
                'tinyint': 5 + i, 'uuid': uuid.UUID(int=5 + i), 'varint': 10 ** 20 + i}[t[1]]
    if k in ('list', 'set'):
        return [sample_value(t[1], 0), sample_value(t[1], 1)]
    if k == 'map':
        return util.OrderedMap([(sample_value(t[1], 0), sample_value(t[2], 0)), (sample_value(t[1], 1), sample_value(t[2], 1))])
    if k == 'tuple':
        return tuple(sample_value(x, i) for x in t[1])
    if k == 'udt':
        return tuple(sample_value(x, i) for x in t[4])
    if k == 'vector':
        return [sample_value(t[1], j % 2) for j in range(int(t[2]))]
    raise ValueError(k)


def _canon_result(r):
    return (r[0], r[1] if isinstance(r[1], bytes) else repr(r[1]))


def max_dim(t):
    if t[0] == 'vector':
        return max(int(t[2]), max_dim(t[1]))
    if t[0] in ('list', 'set', 'frozen', 'reversed'):
        return max_dim(t[1])
    if t[0] == 'map':
        return max(max_dim(t[1]), max_dim(t[2]))
    if t[0] in ('tuple', 'udt'):
        return max([max_dim(x) for x in (t[1] if t[0] == 'tuple' else t[4])] or [0])
    return 0


def has_dim0(t):
    if t[0] == 'vector':
        return t[2] == '0' or has_dim0(t[1])
    if t[0] in ('list', 'set', 'frozen', 'reversed'):
        return has_dim0(t[1])
    if t[0] == 'map':
        return has_dim0(t[1]) or has_dim0(t[2])
    if t[0] in ('tuple', 'udt'):
        return any(has_dim0(x) for x in (t[1] if t[0] == 'tuple' else t[4]))
    return False


def codec_behaviour(C, c, t, versions=(2, 4)):
    """the parsed class c must serialise and deserialise exactly like the directly built codec class of the type, at every
    native protocol version.  Returns list of (op, version, parsed-result, reference-result)."""
    out = []
    if max_dim(t) > 16 or "'vector', " in repr(t) and has_dim0(t):
        return out          # large vectors add nothing; dimension 0 is not a Cassandra type (empty encodings decode to None through wrappers)
    ref = ref_class(C, t)
    try:
        v = sample_value(t)
    except Exception:
        return out
    for pv in versions:
        a, b = _canon_result(call(c.to_binary, v, pv)), _canon_result(call(ref.to_binary, v, pv))
        if a != b:
            out.append(('serialize', pv, a, b))
        if b[0] == 'ok':
            da, db = _canon_result(call(c.from_binary, b[1], pv)), _canon_result(call(ref.from_binary, b[1], pv))
            if da != db:
                out.append(('deserialize', pv, da, db))
    return out


def wrapper_routes(C):
    """protocol version that FrozenType / ReversedType hand to their subtype, observed with a recording subtype"""
    rec = {}

    class _Spy(C._CassandraType):          # leading underscore: not registered
        typename = 'spy'

        @classmethod
        def from_binary(cls, byts, protocol_version):
            rec['des'] = protocol_version

        @classmethod
        def to_binary(cls, val, protocol_version):
            rec['ser'] = protocol_version
            return b'x'

        @classmethod
        def serial_size(cls):
            return 17
    out = []
    for W in (C.FrozenType, C.ReversedType):
        w = W.apply_parameters([_Spy])
        for pv in range(1, 7):
            rec.clear()
            w.serialize(1, pv)
            w.deserialize(b'x', pv)
            out.append((W.__name__, pv, rec.get('ser'), rec.get('des'), w.serial_size() == 17))
    return out
