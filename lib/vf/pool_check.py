"""Shared body of checks C12 and C13: correspondence of Model/Pool.v with the real HostConnection + oracles."""
import json, os
from vf import core
from vf import pool_harness as H

CONFIGS = [(4, 2), (4, 2), (5, 2), (3, 1), (6, 3)]     # (max_in_flight, orphaned_threshold) given to the real connections


def corpus_cases(pid):
    d = os.path.join(core.VERIF, 'corpus', pid)
    out = []
    if os.path.isdir(d):
        for fn in sorted(os.listdir(d)):
            if fn.endswith('.json'):
                with open(os.path.join(d, fn)) as f:
                    c = json.load(f)
                c['file'] = fn
                out.append(c)
    return out


def lock_audit(repo):
    """Which lock guards what (DESIGN 2.4).  Returns a list of problems.
    - HostConnection._replace / return_connection: the close-or-trash decision about the OLD connection (`connection.close()`,
      `self._trash.add/remove(connection)`) must sit inside `with connection.lock` (that very object: the function's parameter)
      and `with self._lock`;
    - Connection.process_msg: `self.in_flight -= 1` and `self.orphaned_request_ids.remove(...)` of the orphaned-stream phase must
      sit in the same `with self.lock` block."""
    import ast
    probs = []

    def withs_of(fn):
        """[(node, [unparsed context exprs of the enclosing With statements, outermost first], [With nodes])]"""
        out = []

        def walk(n, stack, nodes):
            for ch in ast.iter_child_nodes(n):
                if isinstance(ch, ast.With):
                    items = [ast.unparse(i.context_expr) for i in ch.items]
                    walk(ch, stack + items, nodes + [ch])
                else:
                    out.append((ch, stack, nodes))
                    walk(ch, stack, nodes)
        walk(fn, [], [])
        return out

    def find_method(tree, cls, name):
        for c in tree.body:
            if isinstance(c, ast.ClassDef) and c.name == cls:
                for m in c.body:
                    if isinstance(m, ast.FunctionDef) and m.name == name:
                        return m
        return None
    try:
        ptree = ast.parse(open(os.path.join(repo, 'cassandra/pool.py')).read())
        ctree = ast.parse(open(os.path.join(repo, 'cassandra/connection.py')).read())
    except (OSError, SyntaxError) as e:
        return ['cannot read source: %s' % e]
    for meth in ('_replace', 'return_connection'):
        fn = find_method(ptree, 'HostConnection', meth)
        if fn is None:
            probs.append('HostConnection.%s not found' % meth)
            continue
        old = fn.args.args[1].arg
        seen = 0
        for node, stack, _ in withs_of(fn):
            if isinstance(node, ast.Call) and isinstance(node.func, ast.Attribute):
                src = ast.unparse(node)
                if src in ('%s.close()' % old, 'self._trash.add(%s)' % old, 'self._trash.remove(%s)' % old):
                    seen += 1
                    if ('%s.lock' % old) not in stack or 'self._lock' not in stack:
                        probs.append('HostConnection.%s: `%s` is guarded by %s, not by `%s.lock` and `self._lock`' % (meth, src, stack or 'no lock', old))
        if seen == 0:
            probs.append('HostConnection.%s: no close-or-trash decision found' % meth)
    fn = find_method(ctree, 'Connection', 'process_msg')
    if fn is None:
        probs.append('Connection.process_msg not found')
    else:
        dec = rem = None
        for node, stack, nodes in withs_of(fn):
            if isinstance(node, ast.AugAssign) and ast.unparse(node.target) == 'self.in_flight' and isinstance(node.op, ast.Sub):
                dec = (stack, nodes)
            if isinstance(node, ast.Call) and ast.unparse(node.func) == 'self.orphaned_request_ids.remove':
                rem = (stack, nodes)
        if dec is None or rem is None:
            probs.append('Connection.process_msg: orphaned-stream decrement/removal not found')
        elif not dec[1] or not rem[1] or dec[1][-1] is not rem[1][-1] or 'self.lock' not in dec[0]:
            probs.append('Connection.process_msg: `self.in_flight -= 1` (under %s) and `self.orphaned_request_ids.remove` (under %s) '
                         'are not in the same `with self.lock` block' % (dec[0] or 'no lock', rem[0] or 'no lock'))
    return probs


def coq_case(with_conn, mif, thr, hist, items):
    mx = min(mif - 1, 2 ** 15 - 1)
    return 'tr_eqb (trace %s %d %d %s) %s' % ('true' if with_conn else 'false', mx, thr, H.hist_coq(hist), H.trace_coq(items))


c13_oracle = H.c13_problems


def run_pool_check(ctx, pid, n_quick, n_thorough, props, theorem_of_key):
    from vf.impl import import_cluster
    import_cluster()
    ok = ctx.prove(props)
    if ctx.tier == 'thorough' and ok:
        ctx.coqchk(props)
    ctx.trust('correspondence harness lib/vf/pool_harness.py: hooking locks, fake session/cluster/executor, socket-less Connection subclass',
              'Connection summary (in_flight, orphaned ids, flags) is read from real cassandra.connection.Connection objects; '
              'ResponseFuture._on_timeout / Connection.process_msg regions are re-enacted by the harness')
    probs = lock_audit(core.REPO)
    ctx.extra['lock_audit'] = probs or 'ok: close-or-trash decisions under the old connection\'s lock and pool._lock; process_msg orphan phase in one locked block'
    ctx.trust('lock audit (lib/vf/pool_check.py:lock_audit): which lock object guards the close-or-trash decision and the orphan phase of process_msg')
    if probs:
        ctx.proof_broken.append(('atomicity-audit', '; '.join(probs)))
    ctx.assume('each `with lock:` region and each unlocked statement group listed in docs/%s.md is one atomic step' % pid,
               'Connection.defunct() sets is_defunct and closes in one step; Condition.wait is "borrow not enabled"',
               'the unlocked `if self._connection: self._connection.close(); self._connection = None` of shutdown() is one step')
    ctx.rule = ('histories of macro operations (borrow/return/orphan/late response/defunct/run replacement task/shutdown/heartbeat flag) '
                'generated by walking the operations enabled in the real pool\'s current state, with other operations injected at '
                'region boundaries (lock acquisitions, factory call, failure signal); every history ends with shutdown + drain. '
                'non-trivial = distinct history in which a second connection was opened or a shutdown raced with another call')
    cases, meta = [], []

    def record(h, with_conn, mif, thr, source):
        hist = h.history
        nontriv = len(h.conns) > 1 or any(any(m[0] == 'shutdown' for sl in ints for m in sl) for _, ints in hist)
        ctx.case([with_conn, mif, thr, hist], nontrivial=nontriv,
                 sample={'with_conn': with_conn, 'max_in_flight': mif, 'threshold': thr, 'history': hist, 'connections_opened': len(h.conns)})
        ctx.count('connections_opened', len(h.conns))
        ctx.count('source', source)
        for m, ints in hist:
            ctx.count('op', m[0])
            for sl in ints:
                for x in sl:
                    ctx.count('interrupt_op', x[0])
        # the property itself, on the implementation
        found = [(k, 'connection %d opened by the pool is still open after shutdown and quiescence' % cid, 'C12_closes_everything')
                 for k, cid in h.leaks()] + list(h.problems) + c13_oracle(h)
        if getattr(h, 'crash', None):
            found.append(('HostConnection.exception', 'the pool raised %s' % h.crash, 'harness'))
        for key, what, thm in found:
            if theorem_of_key(key, thm):
                small = H.shrink(hist, key, with_conn, mif, thr, budget=150) if source != 'corpus' else hist
                ctx.violation(key, what + ' (history: %s)' % json.dumps(small), case={'with_conn': with_conn, 'max_in_flight': mif,
                              'threshold': thr, 'history': small}, expected='property holds', actual=what, theorem=thm, kind='history')
        cases.append(coq_case(with_conn, mif, thr, hist, h.items))
        meta.append((with_conn, mif, thr, hist, h.items))

    for c in [x for x in corpus_cases('C12') if not x.get('legacy')] + (corpus_cases(pid) if pid != 'C12' else []):
        h = H.run_replay(c['history'], c.get('with_conn', True), c.get('max_in_flight', 4), c.get('threshold', 2))
        if h is not None:
            record(h, c.get('with_conn', True), c.get('max_in_flight', 4), c.get('threshold', 2), 'corpus')
    n = n_quick if ctx.tier == 'quick' else n_thorough
    for i in range(n):
        mif, thr = CONFIGS[i % len(CONFIGS)]
        with_conn = ctx.rng.random() < 0.93
        h = H.gen_history(ctx.rng, ctx.rng.randint(3, 18), with_conn, mif, thr, p_int=0.3)
        record(h, with_conn, mif, thr, 'generated')
    try:
        bad = ctx.coq_filter(['Pool'], '(fun b : bool => b)', cases, shard=40)
    except RuntimeError as e:
        ctx.proof_broken.append(('correspondence:Pool', str(e)[-600:]))
        bad = []
    for i in bad[:5]:
        with_conn, mif, thr, hist, items = meta[i]
        model = None
        try:
            mx = min(mif - 1, 2 ** 15 - 1)
            model = ctx.coq_eval(['Pool'], ['tr_diff 0 (trace %s %d %d %s) %s' % ('true' if with_conn else 'false', mx, thr, H.hist_coq(hist), H.trace_coq(items))])
        except RuntimeError:
            pass
        ctx.disagreement('model-vs-impl.HostConnection', 'Model/Pool.v and the real HostConnection differ (first differing trace item %s) on %s'
                         % (model, json.dumps(hist)), case={'with_conn': with_conn, 'max_in_flight': mif, 'threshold': thr, 'history': hist},
                         actual=items[:60], model=model)
    ctx.extra['disagreeing_histories'] = len(bad)


LEGACY_CONFIGS = [(1, 3, 3, 2, 1), (1, 2, 2, 1, 1), (2, 3, 3, 2, 1), (0, 2, 3, 2, 0)]    # core, max conns, max_in_flight, max_reqs, min_reqs


def legacy_audit(repo):
    """HostConnectionPool._maybe_trash_connection: taking the connection out of _connections and recording it in _trash must be
    one `with self._lock` block"""
    import ast
    try:
        tree = ast.parse(open(os.path.join(repo, 'cassandra/pool.py')).read())
    except (OSError, SyntaxError) as e:
        return ['cannot read source: %s' % e]
    for c in tree.body:
        if isinstance(c, ast.ClassDef) and c.name == 'HostConnectionPool':
            for m in c.body:
                if isinstance(m, ast.FunctionDef) and m.name == '_maybe_trash_connection':
                    withs = [w for w in ast.walk(m) if isinstance(w, ast.With) and any(ast.unparse(i.context_expr) == 'self._lock' for i in w.items)]
                    for w in withs:
                        src = ast.unparse(w)
                        if 'self._connections = ' in src and 'self._trash.add(' in src:
                            return []
                    return ['HostConnectionPool._maybe_trash_connection: `self._connections = ...` and `self._trash.add(...)` are not in the same `with self._lock` block']
    return ['HostConnectionPool._maybe_trash_connection not found']


def run_legacy(ctx, n_quick, n_thorough):
    """HostConnectionPool (protocol v1/v2) against Model/PoolV2.v"""
    from vf import pool_harness2 as L
    probs = legacy_audit(core.REPO)
    ctx.extra['legacy_lock_audit'] = probs or 'ok'
    if probs:
        ctx.proof_broken.append(('atomicity-audit', '; '.join(probs)))
    cases, meta = [], []

    def record(h, cfg, source):
        hist = h.history
        ctx.case(['legacy', list(cfg), hist], nontrivial=len(h.conns) > cfg[0],
                 sample={'pool': 'HostConnectionPool', 'config(core,max,max_in_flight,max_reqs,min_reqs)': list(cfg), 'history': hist, 'connections_opened': len(h.conns)})
        ctx.count('legacy_connections_opened', len(h.conns))
        for m, ints in hist:
            ctx.count('legacy_op', m[0])
        found = [(k, 'connection %d opened by the pool is still open after shutdown and quiescence%s' % (cid, ('; ' + h.notes[0]) if h.notes else ''),
                  'C12v2_closes_everything') for k, cid in h.leaks()] + list(h.problems)
        if getattr(h, 'crash', None):
            found.append(('HostConnectionPool.exception', 'the pool raised %s' % h.crash, 'harness'))
        for key, what, thm in found:
            small = L.shrink(hist, key, cfg, budget=120) if source != 'corpus' else hist
            ctx.violation(key, what + ' (history: %s)' % json.dumps(small), case={'legacy': True, 'config': list(cfg), 'history': small},
                          expected='property holds', actual=what, theorem=thm, kind='history')
        cases.append('tr_eqb (%s) %s' % (L.coq_trace(cfg, hist), H.trace_coq(h.items)))
        meta.append((cfg, hist, h.items))

    for c in corpus_cases('C12'):
        if c.get('legacy'):
            h = L.run_replay(c['history'], tuple(c['config']))
            if h is not None:
                record(h, tuple(c['config']), 'corpus')
    n = n_quick if ctx.tier == 'quick' else n_thorough
    for i in range(n):
        cfg = LEGACY_CONFIGS[i % len(LEGACY_CONFIGS)]
        h = L.gen_history(ctx.rng, ctx.rng.randint(3, 16), cfg, p_int=0.3)
        record(h, cfg, 'generated')
    try:
        bad = ctx.coq_filter(['Pool', 'PoolV2'], '(fun b : bool => b)', cases, shard=40)
    except RuntimeError as e:
        ctx.proof_broken.append(('correspondence:PoolV2', str(e)[-600:]))
        bad = []
    for i in bad[:5]:
        cfg, hist, items = meta[i]
        ctx.disagreement('model-vs-impl.HostConnectionPool', 'Model/PoolV2.v and the real HostConnectionPool differ on config %s history %s'
                         % (list(cfg), json.dumps(hist)), case={'legacy': True, 'config': list(cfg), 'history': hist}, actual=items[:60])
    ctx.extra['legacy_disagreeing_histories'] = len(bad)


def replay_legacy(ctx, rp):
    from vf.impl import import_cluster
    import_cluster()
    from vf import pool_harness2 as L
    case = rp['case']
    h = L.run_replay(case['history'], tuple(case['config']))
    if h is None:
        print('history not executable on this tree')
        return 0
    found = [(k, 'connection %d still open' % cid) for k, cid in h.leaks()] + [(k, w) for k, w, _ in h.problems]
    for f in found:
        print('  %s: %s' % f)
    print(('VIOLATION property=%s replay=%s' % (ctx.pid, ctx.replay_path)) if found else 'not reproduced')
    return 1 if found else 0


def replay_pool(ctx, rp, theorem_of_key):
    if (rp.get('case') or {}).get('legacy'):
        return replay_legacy(ctx, rp)
    from vf.impl import import_cluster
    import_cluster()
    case = rp.get('case') or {}
    if not case.get('history'):
        print('nothing to replay: %s' % rp.get('theorem'))
        return 1
    h = H.run_replay(case['history'], case.get('with_conn', True), case.get('max_in_flight', 4), case.get('threshold', 2))
    if h is None:
        print('history not executable on this tree')
        return 0
    found = [(k, 'connection %d still open' % cid, 'C12_closes_everything') for k, cid in h.leaks()] + list(h.problems) + c13_oracle(h)
    found = [f for f in found if theorem_of_key(f[0], f[2])]
    for f in found:
        print('  %s: %s' % (f[0], f[1]))
    print(('VIOLATION property=%s replay=%s' % (ctx.pid, ctx.replay_path)) if found else 'not reproduced')
    return 1 if found else 0
