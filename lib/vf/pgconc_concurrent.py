"""C32 harness: the real cassandra.concurrent functions on a fake session, under a deterministic scheduler.

Every logical thread (the caller, one per delivered completion) is a real Python thread, but only one runs at a time:
threads hand control back to the controller at every *region boundary* of the executor's Condition (acquire at depth 0,
wait()).  An op of the history resumes one thread for exactly one region, which is the step granularity of
Model/Concurrent.v.  cassandra.concurrent.Condition is replaced by FakeCondition for the duration of a run; nothing else
of the driver is touched (two wrappers only record the executor instance and what _results() returned)."""
import sys, threading
from concurrent.futures import InvalidStateError

BEHS = ['BRaise', 'BSyncOk', 'BSyncErr', 'BLaterOk', 'BLaterErr']
# harness-only refinement of BLaterOk: the statement is executed by a REAL ResponseFuture (C18 fakes behind it) whose
# result has three pages; the consumer pages through the ResultSet as soon as it gets it.  Paging through a result must
# not touch the executor, so the model sees a plain BLaterOk.
PAGED = 'BPagedOk'
MODEL_BEH = {PAGED: 'BLaterOk'}
LATER = ('BLaterOk', 'BLaterErr', PAGED)
OK = ('BSyncOk', 'BLaterOk', PAGED)


class StmtError(Exception):
    def __init__(self, idx):
        Exception.__init__(self, 'statement %d failed' % idx)
        self.idx = idx


class HarnessError(Exception):
    pass


class Worker(object):
    def __init__(self, sched, name, fn):
        self.sched, self.name, self.fn = sched, name, fn
        self.sem = threading.Semaphore(0)
        self.status = 'new'          # new | boundary | waiting | yielded | done
        self.notified = False
        self.error = None            # exception that escaped fn
        self.thread = threading.Thread(target=self._body, name=name)
        self.thread.daemon = True

    def _body(self):
        self.sem.acquire()
        try:
            self.fn()
        except BaseException as e:  # noqa
            self.error = e
        self.status = 'done'
        self.sched.ctl.release()


class Sched(object):
    def __init__(self):
        self.ctl = threading.Semaphore(0)
        self.by_thread = {}
        self.executor = None
        self.unlocked_future_access = 0
        self.results_outcome = None   # what _results() returned / raised (async variant: pc MRet)

    def spawn(self, name, fn):
        w = Worker(self, name, fn)
        self.by_thread[w.thread] = w
        w.thread.start()
        return w

    def me(self):
        return self.by_thread.get(threading.current_thread())

    def resume(self, w):
        """controller: let w run until it pauses or finishes"""
        w.sem.release()
        if not self.ctl.acquire(timeout=20):
            raise HarnessError('worker %s did not come back (real blocking call?)' % w.name)

    def pause(self, w, status):
        """worker: hand control back"""
        w.status = status
        self.ctl.release()
        w.sem.acquire()
        w.status = 'running'


class FakeCondition(object):
    """Condition(RLock()) under the deterministic scheduler"""
    sched = None

    def __init__(self, lock=None):
        self.s = FakeCondition.sched
        self.owner = None
        self.depth = 0
        self.waiting = []

    def acquire(self, *a, **kw):
        w = self.s.me()
        if w is None:
            raise HarnessError('condition used outside a scheduled thread')
        if self.owner is w:
            self.depth += 1
            return True
        # region boundary.  (Re-acquiring in a `finally` while an exception propagates does nothing observable: no pause.)
        unwinding = sys.exc_info()[0] is not None and (sys._getframe(1).f_code.co_flags & 0x20)
        if not unwinding:   # Gen variant: `finally: self._condition.acquire()` while `raise res[1]` propagates
            self.s.pause(w, 'boundary')
        if self.owner is not None:
            raise HarnessError('two threads inside a region')
        self.owner, self.depth = w, 1
        return True

    def release(self):
        w = self.s.me()
        if self.owner is not w:
            raise RuntimeError('cannot release un-acquired lock')
        self.depth -= 1
        if self.depth == 0:
            self.owner = None

    def __enter__(self):
        return self.acquire()

    def __exit__(self, *a):
        self.release()

    def wait(self, timeout=None):
        w = self.s.me()
        if self.owner is not w:
            raise RuntimeError('cannot wait on un-acquired lock')
        saved = self.depth
        self.owner, self.depth = None, 0
        w.notified = False
        self.waiting.append(w)
        self.s.pause(w, 'waiting')
        if self.owner is not None:
            raise HarnessError('two threads inside a region')
        self.owner, self.depth = w, saved
        return True

    def notify(self, n=1):
        for w in self.waiting[:n]:
            w.notified = True
        del self.waiting[:n]

    def notify_all(self):
        self.notify(len(self.waiting))


def make_sched_future(C):
    """concurrent.futures.Future whose accesses from a scheduled thread that does NOT hold the executor's condition are
    scheduling points of their own (DESIGN 2.4: an access the source makes outside the lock is a separate atomic step).
    The shipped code touches the future only under the lock, so nothing changes for it."""
    from concurrent.futures import Future

    class SchedFuture(Future):
        def _point(self):
            sched = FakeCondition.sched
            w = sched.me() if sched is not None else None
            if w is None:
                return
            ex = sched.executor
            cond = getattr(ex, '_condition', None)
            if cond is None or cond.owner is not w:
                sched.unlocked_future_access += 1
                sched.pause(w, 'boundary')

        def done(self):
            self._point()
            return Future.done(self)

        def set_result(self, r):
            self._point()
            return Future.set_result(self, r)

        def set_exception(self, e):
            self._point()
            return Future.set_exception(self, e)
    return SchedFuture


def audit_future_lock(src):
    """lock-region audit: every call on self.future inside ConcurrentExecutorFutureResults must be lexically inside a
    `with self._condition:` of the same method.  Returns a list of problems."""
    import ast
    probs = []
    tree = ast.parse(src)
    cls = [n for n in tree.body if isinstance(n, ast.ClassDef) and n.name == 'ConcurrentExecutorFutureResults']
    if not cls:
        return ['class ConcurrentExecutorFutureResults not found']

    def is_self_attr(n, attr):
        return isinstance(n, ast.Attribute) and n.attr == attr and isinstance(n.value, ast.Name) and n.value.id == 'self'

    def walk(node, locked, meth):
        if isinstance(node, ast.With) and any(is_self_attr(i.context_expr, '_condition') for i in node.items):
            locked = True
        if isinstance(node, ast.Call) and isinstance(node.func, ast.Attribute) and is_self_attr(node.func.value, 'future') and not locked:
            probs.append('%s: self.future.%s() outside `with self._condition` (line %d)' % (meth, node.func.attr, node.lineno))
        for ch in ast.iter_child_nodes(node):
            walk(ch, locked, meth)
    for m in cls[0].body:
        if isinstance(m, ast.FunctionDef):
            walk(m, False, m.name)
    # execute_concurrent_async must not touch the future directly either
    for fn in tree.body:
        if isinstance(fn, ast.FunctionDef) and fn.name == 'execute_concurrent_async':
            for n in ast.walk(fn):
                if isinstance(n, ast.Call) and isinstance(n.func, ast.Attribute) and isinstance(n.func.value, ast.Name) \
                        and n.func.value.id == 'future' and n.func.attr in ('set_result', 'set_exception', 'done'):
                    probs.append('execute_concurrent_async: future.%s() outside the executor\'s condition (line %d)' % (n.func.attr, n.lineno))
    return probs


def detsched_search(max_runs=900):
    """Directed search with two REAL threads (real Condition, real Future) switched at source-line granularity of
    cassandra/concurrent.py: the caller runs execute_concurrent_async on one statement, the io thread delivers its result.
    Returns (schedule, what) for the first schedule in which the future is completed twice, else None."""
    import threading
    from vf import detsched
    from vf.impl import import_cluster
    import_cluster()
    import cassandra.concurrent as C

    def one(schedule):
        registered = threading.Event()

        class Sess(object):
            log = []

            def execute_async(self, statement, params, timeout=None, execution_profile=None, **kw):
                self.f = FakeFuture(self, params[0], 'BLaterOk')
                orig = self.f.add_callbacks

                def add(*a, **k):
                    orig(*a, **k)
                    registered.set()
                self.f.add_callbacks = add
                return self.f
        sess = Sess()

        def caller():
            return C.execute_concurrent_async(sess, iter([('stmt', (0,))]), concurrency=1)

        def io():
            registered.wait(5)
            sess.f.fire()
        r = detsched.Run([caller, io], ['cassandra/concurrent.py'], schedule, block_timeout=0.02).run()
        bad = [type(e).__name__ for e in r.errors if e is not None]
        return bad, r
    n = 0
    for k2 in range(4, 30):
        for k3 in range(1, 34):
            sched = [0] * 80 + [1] * k2 + [0] * k3 + [1] * 200 + [0] * 200
            bad, r = one(sched)
            n += 1
            if 'InvalidStateError' in bad:
                who = 'execute_concurrent_async (the caller gets an exception instead of the future)' if isinstance(r.errors[0], InvalidStateError) else 'the io thread callback'
                return {'k2': k2, 'k3': k3, 'schedule': sched, 'runs': n, 'lines': r.trace[-40:]}, 'InvalidStateError raised in %s' % who
            if n >= max_runs:
                return None
    return None


def detsched_replay(schedule):
    import threading
    from vf import detsched
    from vf.impl import import_cluster
    import_cluster()
    import cassandra.concurrent as C
    registered = threading.Event()

    class Sess(object):
        log = []

        def execute_async(self, statement, params, timeout=None, execution_profile=None, **kw):
            self.f = FakeFuture(self, params[0], 'BLaterOk')
            orig = self.f.add_callbacks

            def add(*a, **k):
                orig(*a, **k)
                registered.set()
            self.f.add_callbacks = add
            return self.f
    sess = Sess()
    r = detsched.Run([lambda: C.execute_concurrent_async(sess, iter([('stmt', (0,))]), concurrency=1),
                      lambda: (registered.wait(5), sess.f.fire())], ['cassandra/concurrent.py'], schedule, block_timeout=0.02).run()
    return [type(e).__name__ if e is not None else None for e in r.errors], r.trace


class FakeFuture(object):
    """what Session.execute_async returns: a ResponseFuture-shaped object completed by the history"""
    _col_names = None
    _col_types = None
    has_more_pages = False
    _continuous_paging_session = None

    def __init__(self, session, idx, beh):
        self.session, self.idx, self.beh = session, idx, beh
        self.cb = self.eb = None
        self.done = beh in ('BSyncOk', 'BSyncErr')
        self.ok = beh in ('BSyncOk', 'BLaterOk')

    def value(self):
        return [('row', self.idx)]

    def add_callbacks(self, callback, errback, callback_args=(), callback_kwargs=None, errback_args=(), errback_kwargs=None):
        self.cb = (callback, callback_args)
        self.eb = (errback, errback_args)
        if self.done:
            self.fire()

    def clear_callbacks(self):
        pass

    def fire(self):
        self.session.log.append(('deliver', self.idx, self.ok))
        if self.ok:
            self.cb[0](self.value(), *self.cb[1])
        else:
            self.eb[0](StmtError(self.idx), *self.eb[1])


class PagedFuture(object):
    """pending-entry for a statement run by a real ResponseFuture over the C18 scripted server (3 pages)"""

    def __init__(self, session, idx):
        from vf.impl import import_cluster
        cl = import_cluster()
        from vf import pgconc_paging as P18
        from cassandra.protocol import QueryMessage
        from cassandra.query import SimpleStatement
        self.session, self.idx, self.ok = session, idx, True

        class Srv(P18.Server):
            def response(srv, carried):
                m = P18.Server.response(srv, carried)
                if getattr(m, 'parsed_rows', None) is not None:
                    m.column_names, m.column_types = ['k', 'v'], [None, None]
                    m.parsed_rows = [('row', r[0]) for r in m.parsed_rows]
                return m
        self.server = Srv([[idx], [idx + 1000], [idx + 2000]], False)
        fs = P18.FakeSession(self.server)
        self.rf = cl.ResponseFuture(fs, QueryMessage('SELECT', 1, fetch_size=1), SimpleStatement('SELECT'), None)
        self.rf._event = P18.FakeEvent(self.server)
        self.rf.send_request()

    def fire(self):
        self.session.log.append(('deliver', self.idx, True))
        self.server.deliver_one()          # first page -> _set_result -> _set_final_result -> the executor's callback


def page_through(er):
    """the consumer reads every page of a paged result; returns the row ids"""
    v = er.result_or_exc
    if er.success and getattr(getattr(v, 'response_future', None), '_paging_state', None) is not None:
        return [r[1] for r in v]
    return None


class FakeSession(object):
    def __init__(self, behs):
        self.behs = behs
        self.pending = {}       # idx -> FakeFuture (later behaviours, not yet completed)
        self.deferred = {}      # idx -> (fn, args) handed to submit()
        self.peak = 0
        self.log = []           # ('raise', idx) | ('deliver', idx, ok) in the order the executor saw them
        self.calls = []

    def execute_async(self, statement, params, timeout=None, execution_profile=None, **kw):
        idx = params[0]
        self.calls.append(idx)
        b = self.behs[idx]
        if b == 'BRaise':
            self.log.append(('raise', idx))
            raise StmtError(idx)
        if b == PAGED:
            pf = PagedFuture(self, idx)
            self.pending[idx] = pf
            self.peak = max(self.peak, len(self.pending))
            return pf.rf
        f = FakeFuture(self, idx, b)
        if b in LATER:
            self.pending[idx] = f
            self.peak = max(self.peak, len(self.pending))
        return f

    def submit(self, fn, *args, **kw):
        self.deferred[args[1]] = (fn, args)


def res_id(er):
    """ExecutionResult -> (idx, success)"""
    v = er.result_or_exc
    if isinstance(v, StmtError):
        return (v.idx, bool(er.success))
    try:
        rows = v.current_rows
        return (rows[0][1], bool(er.success))
    except Exception:
        return (-1, bool(er.success))


def exc_id(e):
    return e.idx if isinstance(e, StmtError) else -1


class Run(object):
    """one execution of execute_concurrent / _with_args / _async under a history chosen op by op"""

    def __init__(self, behs, conc, ff, variant, maxrec=100, with_args=False):
        from vf.impl import import_cluster
        import_cluster()
        import cassandra.concurrent as C
        self.C = C
        self.behs, self.conc, self.ff, self.variant, self.maxrec, self.with_args = behs, conc, ff, variant, maxrec, with_args
        self.sched = Sched()
        self.session = FakeSession(behs)
        self.ops = []
        self.trace = []
        self.yielded = []
        self.future = None
        self.paged_rows = []
        self.main_outcome = None       # ('return', [...]) | ('raise', idx)  as seen by the caller of execute_concurrent*
        self.escaped = []              # exceptions that escaped a completion thread
        self.invalid_state = 0
        self.region2 = {}              # idx -> worker paused between the two regions
        self.workers = []
        self.saved = None

    # -- patching (records only) -------------------------------------------------------------
    def __enter__(self):
        C = self.C
        run = self
        self.saved = (C.Condition, C._ConcurrentExecutor.__init__, C.ConcurrentExecutorListResults._results,
                      C._ConcurrentExecutor.max_error_recursion, C.Future)
        FakeCondition.sched = self.sched
        C.Condition = FakeCondition
        C.Future = make_sched_future(C)
        orig_init, orig_results = self.saved[1], self.saved[2]

        def init(ex, *a, **kw):
            orig_init(ex, *a, **kw)
            run.sched.executor = ex

        def results(ex):
            try:
                r = orig_results(ex)
            except StmtError as e:
                run.sched.results_outcome = ('raise', e.idx)
                raise
            run.sched.results_outcome = ('return', [res_id(x) for x in r])
            return r
        C._ConcurrentExecutor.__init__ = init
        C.ConcurrentExecutorListResults._results = results
        C._ConcurrentExecutor.max_error_recursion = self.maxrec
        return self

    def __exit__(self, *a):
        C = self.C
        C.Condition, C._ConcurrentExecutor.__init__, C.ConcurrentExecutorListResults._results, C._ConcurrentExecutor.max_error_recursion, C.Future = self.saved
        FakeCondition.sched = None
        # let abandoned threads die (daemon threads blocked on their semaphore hold no driver state)

    # -- the caller's thread -----------------------------------------------------------------
    def main_fn(self):
        C = self.C
        n = len(self.behs)
        stmts = [('stmt', (i,)) for i in range(n)]
        try:
            if self.variant == 'VFuture':
                self.future = C.execute_concurrent_async(self.session, iter(stmts), concurrency=self.conc, raise_on_first_error=self.ff)
                self.main_outcome = ('future',)
            elif self.variant == 'VGen':
                if self.with_args:
                    g = C.execute_concurrent_with_args(self.session, 'stmt', iter([(i,) for i in range(n)]), concurrency=self.conc,
                                                       raise_on_first_error=self.ff, results_generator=True)
                else:
                    g = C.execute_concurrent(self.session, iter(stmts), concurrency=self.conc, raise_on_first_error=self.ff, results_generator=True)
                for r in g:
                    self.yielded.append(res_id(r))
                    self.main_w.just_yielded = True
                    rows = page_through(r)          # the consumer pages through the result while execution goes on
                    if rows is not None:
                        self.paged_rows.append(rows)
                self.main_outcome = ('return', list(self.yielded))
            else:
                if self.with_args:
                    r = C.execute_concurrent_with_args(self.session, 'stmt', iter([(i,) for i in range(n)]), concurrency=self.conc,
                                                       raise_on_first_error=self.ff)
                else:
                    r = C.execute_concurrent(self.session, iter(stmts), concurrency=self.conc, raise_on_first_error=self.ff)
                self.main_outcome = ('return', [res_id(x) for x in r])
        except StmtError as e:
            self.main_outcome = ('raise', e.idx)
        except InvalidStateError:
            self.invalid_state += 1
            self.main_outcome = ('escaped', 'InvalidStateError')
        except Exception as e:  # noqa
            self.main_outcome = ('escaped', type(e).__name__)

    def start(self):
        self.main_w = self.sched.spawn('main', self.main_fn)
        self.main_w.just_yielded = False
        self.sched.resume(self.main_w)       # runs to the first region boundary (execute()'s `with`)
        return self

    # -- enabled ops -------------------------------------------------------------------------
    def enabled(self):
        out = []
        w = self.main_w
        if w.status == 'boundary' or (w.status == 'waiting' and w.notified):
            out.append(('MainStep',))
        for i in sorted(set(self.session.pending) | set(self.session.deferred)):
            out.append(('Complete', i))
        for i in sorted(self.region2):
            out.append(('Finish2', i))
        return out

    def blocked_forever(self):
        return self.main_w.status == 'waiting' and not self.main_w.notified and not self.enabled()

    def completion_fn(self, i):
        def fn():
            try:
                if i in self.session.deferred:
                    f, args = self.session.deferred.pop(i)
                    self.session.log.append(('deliver', i, False))
                    f(*args)
                else:
                    fut = self.session.pending.pop(i)
                    fut.fire()
            except InvalidStateError as e:
                self.invalid_state += 1
                self.escaped.append(('InvalidStateError', i))
            except Exception as e:  # noqa
                self.escaped.append((type(e).__name__, i))
        return fn

    def do(self, op):
        self.ops.append(op)
        if op[0] == 'MainStep':
            w = self.main_w
            if w.status == 'boundary' or (w.status == 'waiting' and w.notified):
                w.just_yielded = False
                self.sched.resume(w)
        elif op[0] == 'Complete':
            i = op[1]
            if i in self.session.pending or i in self.session.deferred:
                w = self.sched.spawn('c%d' % i, self.completion_fn(i))
                self.workers.append(w)
                self.sched.resume(w)          # up to the first region boundary (the queue append of the List variant included)
                if w.status == 'boundary':
                    self.sched.resume(w)      # region 1
                if w.status == 'boundary':
                    self.region2[i] = w       # async variant: paused before region 2
        elif op[0] == 'Finish2':
            w = self.region2.pop(op[1], None)
            if w is not None:
                self.sched.resume(w)
                if w.status == 'boundary':
                    raise HarnessError('completion thread has a third region')
        self.trace.append(self.observe())

    # -- observation ---------------------------------------------------------------------------
    def pc(self):
        w = self.main_w
        ro = self.sched.results_outcome
        if w.status == 'done':
            if self.variant == 'VFuture':
                return ('MFin', ro)
            return ('MRet', self.main_outcome)
        if w.status == 'waiting':
            return ('MWait',)
        if w.status == 'boundary':
            if self.variant == 'VFuture' and ro is not None:
                return ('MRet', ro)
            if not self.started_loop():
                return ('MInit',)
            if self.variant == 'VGen' and w.just_yielded:
                return ('MYield',)
            return ('MRun',)
        return ('?', w.status)

    def started_loop(self):
        return any(o[0] == 'MainStep' for o in self.ops)

    def fut_state(self):
        f = self.future if self.future is not None else getattr(self.sched.executor, 'future', None)
        if f is None or not f.done():
            return ('FPending',)
        e = f.exception()
        if e is not None:
            return ('FExc', exc_id(e))
        return ('FResult', [res_id(x) for x in f.result()])

    def observe(self):
        ex = self.sched.executor
        if ex is None:
            return None
        q = sorted(res_id(er) for _, er in ex._results_queue)
        e = getattr(ex, '_exception', None)
        return {'started': ex._exec_count, 'current': ex._current, 'results': q, 'exc': None if e is None else exc_id(e),
                'inflight': sorted(self.session.pending), 'fut': self.fut_state() if self.variant == 'VFuture' else ('FPending',),
                'fut_err': self.invalid_state, 'pc': self.pc(), 'yielded': list(self.yielded)}


def run_history(behs, conc, ff, variant, chooser, maxrec=100, with_args=False, max_ops=200):
    """chooser(enabled ops, run) -> op.  Runs until nothing is enabled.  Returns the Run."""
    with Run(behs, conc, ff, variant, maxrec, with_args) as r:
        r.start()
        n = 0
        while True:
            en = r.enabled()
            if not en:
                break
            r.do(chooser(en, r))
            n += 1
            if n > max_ops:
                raise HarnessError('history does not end')
        r.deadlock = r.blocked_forever()
        return r


# ---------------------------------------------------------------- Gallina literals
def g_res(l):
    return '[' + '; '.join('(%d, %s)' % (max(i, 0) if i >= 0 else 999, 'true' if ok else 'false') for i, ok in l) + ']'


def g_outcome(o):
    if o is None:
        return 'RaiseExc 998'
    if o[0] == 'return':
        return 'Return %s' % g_res(o[1])
    if o[0] == 'raise':
        return 'RaiseExc %d' % (o[1] if o[1] >= 0 else 999)
    return 'RaiseExc 997'


def g_pc(p):
    if p[0] in ('MRet', 'MFin'):
        return '%s (%s)' % (p[0], g_outcome(p[1]))
    if p[0] == '?':
        return 'MFin (RaiseExc 996)'
    return p[0]


def g_fut(f):
    if f[0] == 'FPending':
        return 'FPending'
    if f[0] == 'FExc':
        return 'FExc %d' % (f[1] if f[1] >= 0 else 999)
    return 'FResult %s' % g_res(f[1])


def g_obs(o):
    return 'mkObs %d %d %s %s [%s] (%s) %d (%s) %s' % (
        o['started'], o['current'], g_res(o['results']), 'None' if o['exc'] is None else '(Some %d)' % (o['exc'] if o['exc'] >= 0 else 999),
        '; '.join(str(i) for i in o['inflight']), g_fut(o['fut']), o['fut_err'], g_pc(o['pc']), g_res(o['yielded']))


def g_op(op):
    return op[0] if len(op) == 1 else '%s %d' % op


def g_case(r):
    cfg = 'mkCfg [%s] %d %s %s %d' % ('; '.join(MODEL_BEH.get(b, b) for b in r.behs), r.conc, 'true' if r.ff else 'false', r.variant, r.maxrec)
    return 'check_case (%s) [%s] [%s]' % (cfg, '; '.join(g_op(o) for o in r.ops), ';\n '.join(g_obs(o) for o in r.trace))
