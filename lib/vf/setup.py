"""bin/setup: regenerate every Gen/*.v from the working tree, build the whole Coq development."""
import importlib.util, os, sys, time
from . import core


def load_checks():
    mods = {}
    d = os.path.join(core.VERIF, 'checks')
    sys.path.insert(0, d)
    for fn in sorted(os.listdir(d)):
        if fn.startswith('C') and fn.endswith('.py'):
            spec = importlib.util.spec_from_file_location('check_' + fn[:-3], os.path.join(d, fn))
            m = importlib.util.module_from_spec(spec)
            spec.loader.exec_module(m)
            mods[fn[:-3]] = m
    return mods


def main():
    t0 = time.time()
    mods = load_checks()
    failed = []
    for pid, m in mods.items():
        if hasattr(m, 'gen'):
            ctx = core.Ctx(pid, 'quick', 1)
            try:
                m.gen(ctx)
            finally:
                import shutil
                shutil.rmtree(ctx.scratch, ignore_errors=True)
            if ctx.proof_broken:
                failed.append((pid, ctx.proof_broken))
    # the source-translated (T) layer shared by C01/C02/C06/C34 (lib/vf/marshal_validation.py)
    try:
        from . import marshal_validation
        ctx = core.Ctx('Tmarshal', 'quick', 1)
        try:
            marshal_validation.gen(ctx)
        finally:
            import shutil
            shutil.rmtree(ctx.scratch, ignore_errors=True)
        if ctx.proof_broken:
            failed.append(('T-marshal', ctx.proof_broken))
    except ImportError:
        pass
    with core.BuildLock():
        core.ensure_makefile()
        rc, out = core.sh(['timeout', '3000', 'make', '-C', core.COQ, '-j%d' % core.JOBS], timeout=3100)
    print(out[-3000:])
    for pid, pb in failed:
        print('generation failed for %s: %s' % (pid, pb))
    print('setup: make rc=%d, %.1fs' % (rc, time.time() - t0))
    return 1 if (rc or failed) else 0


if __name__ == '__main__':
    sys.exit(main())
