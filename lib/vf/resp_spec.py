"""C04: Python twin of coq/Model/ResponseSpec.v (spec encoder, `exact`, `documented_exception`, `driver_gap`).

Terms are nested tuples ('Ctor', arg, ...) mirroring the Gallina constructors; atoms: int -> Z, bytes -> list Z
(a str is its UTF-8 bytes), list -> list, bool -> bool, None -> None, ('Some', x), ('pair', a, b).
Every generated case is re-checked inside Coq (chk codes 2 and 3): this twin is validated against the Coq definitions
on every run, it is not trusted.
"""
import struct


# ---------------------------------------------------------------------------------------------- Gallina printer
def gal(t, pool=None):
    """pool: dict bytes -> let-bound name; long byte literals are bound by `let` in front of the case because coqc
    elaborates a numeral list ~50x faster when no expected type is pushed into it"""
    if t is None:
        return 'None'
    if t is True:
        return 'true'
    if t is False:
        return 'false'
    if isinstance(t, int):
        return '(%d)' % t if t < 0 else '%d' % t
    if isinstance(t, (bytes, bytearray)):
        t = bytes(t)
        if len(t) == 0:
            return '[]'
        if len(t) <= 24 and all(32 <= c <= 126 and c != 34 for c in t):
            return '(zs "%s")' % t.decode('ascii')
        if pool is not None and len(t) > 6:
            if t not in pool:
                pool[t] = 'b%d_' % len(pool)
            return pool[t]
        return '[' + ';'.join('%d' % c for c in t) + ']'
    if isinstance(t, list):
        return '[' + '; '.join(gal(x, pool) for x in t) + ']'
    if isinstance(t, tuple):
        if t[0] == 'pair':
            return '(%s, %s)' % (gal(t[1], pool), gal(t[2], pool))
        if len(t) == 1:
            return t[0]
        return '(%s %s)' % (t[0], ' '.join(gal(x, pool) for x in t[1:]))
    raise TypeError('cannot print %r' % (t,))


def with_pool(pool, body):
    out = body
    for lit, name in reversed(list(pool.items())):
        out = 'let %s := [%s] in %s' % (name, ';'.join('%d' % c for c in lit), out)
    return '(%s)' % out


def some(x):
    return ('Some', x)


def opt(x):
    return None if x is None else ('Some', x)


def unopt(o):
    return None if o is None else o[1]


# ---------------------------------------------------------------------------------------------- section 3 notations
def enc_short(n):
    return struct.pack('>H', n)


def enc_int(n):
    return struct.pack('>i', n)


def enc_string(s):
    return enc_short(len(s)) + s


def enc_short_bytes(b):
    return enc_short(len(b)) + b


def enc_bytes(o):
    return enc_int(-1) if o is None else enc_int(len(o[1])) + o[1]


def enc_string_list(l):
    return enc_short(len(l)) + b''.join(enc_string(s) for s in l)


def enc_inetaddr(a):
    return bytes([len(a)]) + a


def enc_type(t):
    k = t[0]
    if k == 'TCustom':
        return enc_short(0) + enc_string(t[1])
    if k == 'TPrim':
        return enc_short(t[1])
    if k == 'TList':
        return enc_short(0x20) + enc_type(t[1])
    if k == 'TSet':
        return enc_short(0x22) + enc_type(t[1])
    if k == 'TMap':
        return enc_short(0x21) + enc_type(t[1]) + enc_type(t[2])
    if k == 'TUdt':
        return (enc_short(0x30) + enc_string(t[1]) + enc_string(t[2]) + enc_short(len(t[3])) +
                b''.join(enc_string(p[1]) + enc_type(p[2]) for p in t[3]))
    if k == 'TTuple':
        return enc_short(0x31) + enc_short(len(t[1])) + b''.join(enc_type(x) for x in t[1])
    raise ValueError(k)


def enc_cols(cs):
    if cs[0] == 'ColsGlobal':
        return enc_string(cs[1]) + enc_string(cs[2]) + b''.join(enc_string(c[1]) + enc_type(c[2]) for c in cs[3])
    return b''.join(enc_string(c[1]) + enc_string(c[2]) + enc_string(c[3]) + enc_type(c[4]) for c in cs[1])


def cols_count(cs):
    return len(cs[3]) if cs[0] == 'ColsGlobal' else len(cs[1])


def cols_list(cs):
    if cs[0] == 'ColsGlobal':
        return [('mkcol', cs[1], cs[2], c[1], c[2]) for c in cs[3]]
    return list(cs[1])


def enc_rmeta(m):
    _, paging, new_id, cols = m
    glob = cols[0] == 'McSome' and cols[1][0] == 'ColsGlobal'
    nometa = cols[0] == 'McNone'
    count = cols[1] if nometa else cols_count(cols[1])
    flags = (1 if glob else 0) + (2 if paging is not None else 0) + (4 if nometa else 0) + (8 if new_id is not None else 0)
    out = enc_int(flags) + enc_int(count)
    if paging is not None:
        out += enc_bytes(paging)
    if not nometa:
        if new_id is not None:
            out += enc_short_bytes(new_id[1])
        out += enc_cols(cols[1])
    return out


TARGET = {'TgKeyspace': b'KEYSPACE', 'TgTable': b'TABLE', 'TgType': b'TYPE', 'TgFunction': b'FUNCTION', 'TgAggregate': b'AGGREGATE'}


def enc_schema_change(pv, sc):
    _, change, ks, tg = sc
    if pv >= 3:
        out = enc_string(change) + enc_string(TARGET[tg[0]]) + enc_string(ks)
        if tg[0] in ('TgTable', 'TgType'):
            out += enc_string(tg[1])
        elif tg[0] in ('TgFunction', 'TgAggregate'):
            out += enc_string(tg[1]) + enc_string_list(tg[2])
        return out
    return enc_string(change) + enc_string(ks) + enc_string(tg[1] if tg[0] == 'TgTable' else b'')


def enc_result(pv, r):
    k = r[0]
    if k == 'ResVoid':
        return enc_int(1)
    if k == 'ResRows':
        return (enc_int(2) + enc_rmeta(r[1]) + enc_int(len(r[2])) +
                b''.join(b''.join(enc_bytes(c) for c in row) for row in r[2]))
    if k == 'ResSetKeyspace':
        return enc_int(3) + enc_string(r[1])
    if k == 'ResPrepared':
        _, qid, mid, pk, bind, res = r
        out = enc_int(4) + enc_short_bytes(qid)
        if mid is not None:
            out += enc_short_bytes(mid[1])
        out += enc_int(1 if bind[0] == 'ColsGlobal' else 0) + enc_int(cols_count(bind))
        if pk is not None:
            out += enc_int(len(pk[1])) + b''.join(enc_short(i) for i in pk[1])
        out += enc_cols(bind)
        if res is not None:
            out += enc_rmeta(res[1])
        return out
    if k == 'ResSchemaChange':
        return enc_int(5) + enc_schema_change(pv, r[1])
    raise ValueError(k)


WT_NAMES = [b'SIMPLE', b'BATCH', b'UNLOGGED_BATCH', b'COUNTER', b'BATCH_LOG', b'CAS', b'VIEW', b'CDC']
ERR_CODE = {'ErrUnavailable': 0x1000, 'ErrWriteTimeout': 0x1100, 'ErrReadTimeout': 0x1200, 'ErrReadFailure': 0x1300,
            'ErrFunctionFailure': 0x1400, 'ErrWriteFailure': 0x1500, 'ErrCasWriteUnknown': 0x1700,
            'ErrAlreadyExists': 0x2400, 'ErrUnprepared': 0x2500}
SIMPLE_CODES = [0x0000, 0x000A, 0x0100, 0x1001, 0x1002, 0x1003, 0x1600, 0x2000, 0x2100, 0x2200, 0x2300]


def err_code(e):
    return e[1] if e[0] == 'ErrSimple' else ERR_CODE[e[0]]


def enc_failures(f):
    if f[0] == 'FCount':
        return enc_int(f[1])
    return enc_int(len(f[1])) + b''.join(enc_inetaddr(kv[1]) + enc_short(kv[2]) for kv in f[1])


def enc_err(e):
    k = e[0]
    if k == 'ErrSimple':
        return b''
    if k == 'ErrUnavailable':
        return enc_short(e[1]) + enc_int(e[2]) + enc_int(e[3])
    if k == 'ErrWriteTimeout':
        return (enc_short(e[1]) + enc_int(e[2]) + enc_int(e[3]) + enc_string(WT_NAMES[e[4]]) +
                (enc_short(e[5][1]) if e[5] is not None else b''))
    if k == 'ErrReadTimeout':
        return enc_short(e[1]) + enc_int(e[2]) + enc_int(e[3]) + bytes([e[4]])
    if k == 'ErrReadFailure':
        return enc_short(e[1]) + enc_int(e[2]) + enc_int(e[3]) + enc_failures(e[4]) + bytes([e[5]])
    if k == 'ErrFunctionFailure':
        return enc_string(e[1]) + enc_string(e[2]) + enc_string_list(e[3])
    if k == 'ErrWriteFailure':
        return enc_short(e[1]) + enc_int(e[2]) + enc_int(e[3]) + enc_failures(e[4]) + enc_string(WT_NAMES[e[5]])
    if k == 'ErrCasWriteUnknown':
        return enc_short(e[1]) + enc_int(e[2]) + enc_int(e[3])
    if k == 'ErrAlreadyExists':
        return enc_string(e[1]) + enc_string(e[2])
    if k == 'ErrUnprepared':
        return enc_short_bytes(e[1])
    raise ValueError(k)


EVENT_NAME = {'EvTopologyChange': b'TOPOLOGY_CHANGE', 'EvStatusChange': b'STATUS_CHANGE', 'EvSchemaChange': b'SCHEMA_CHANGE'}


def enc_event(pv, e):
    out = enc_string(EVENT_NAME[e[0]])
    if e[0] == 'EvSchemaChange':
        return out + enc_schema_change(pv, e[1])
    return out + enc_string(e[1]) + enc_inetaddr(e[2]) + enc_int(e[3])


OPCODE = {'RError': 0, 'RReady': 2, 'RAuthenticate': 3, 'RSupported': 6, 'RResult': 8, 'REvent': 12,
          'RAuthChallenge': 14, 'RAuthSuccess': 16}


def enc_rbody(pv, b):
    k = b[0]
    if k == 'RError':
        return enc_int(err_code(b[1])) + enc_string(b[2]) + enc_err(b[1])
    if k == 'RReady':
        return b''
    if k == 'RAuthenticate':
        return enc_string(b[1])
    if k == 'RSupported':
        return enc_short(len(b[1])) + b''.join(enc_string(kv[1]) + enc_string_list(kv[2]) for kv in b[1])
    if k == 'RResult':
        return enc_result(pv, b[1])
    if k == 'REvent':
        return enc_event(pv, b[1])
    if k in ('RAuthChallenge', 'RAuthSuccess'):
        return enc_bytes(b[1])
    raise ValueError(k)


def spec_frame(pv, r):
    """-> (flags, opcode, body) of response term r = ('mkresp', trace, warnings, payload, body)"""
    _, trace, warnings, payload, body = r
    flags = (2 if trace is not None else 0) + (4 if payload is not None else 0) + (8 if warnings is not None else 0)
    out = b''
    if trace is not None:
        out += trace[1]
    if warnings is not None:
        out += enc_string_list(warnings[1])
    if payload is not None:
        out += enc_short(len(payload[1])) + b''.join(enc_string(kv[1]) + enc_bytes(kv[2]) for kv in payload[1])
    return flags, OPCODE[body[0]], out + enc_rbody(pv, body)


# ---------------------------------------------------------------------------------------------- exact / exceptions
def exact_rmeta(m):
    _, paging, new_id, cols = m
    return ('mkmo', paging, None, None, new_id, None if cols[0] == 'McNone' else some(cols_list(cols[1])))


def exact_schema(sc):
    _, change, ks, tg = sc
    extra = {'TgKeyspace': lambda: ('SxNone',), 'TgTable': lambda: ('SxName', b'table', tg[1]),
             'TgType': lambda: ('SxName', b'type', tg[1]), 'TgFunction': lambda: ('SxFunction', tg[1], tg[2]),
             'TgAggregate': lambda: ('SxAggregate', tg[1], tg[2])}[tg[0]]()
    return ('mksch', TARGET[tg[0]], change, ks, extra)


N = None


def exact_result(rm, r):
    k = r[0]
    if k == 'ResVoid':
        return ('mkr', 1, N, N, N, N, N, N, N, N, N, N, N, N, N)
    if k == 'ResRows':
        mo = exact_rmeta(r[1])
        cols = mo[5][1] if mo[5] is not None else (rm[1] if rm is not None else [])
        return ('mkr', 2, mo[1], N, N, mo[4], mo[5], some([c[3] for c in cols]), some([c[4] for c in cols]),
                some(r[2]), N, N, N, N, N)
    if k == 'ResSetKeyspace':
        return ('mkr', 3, N, N, N, N, N, N, N, N, some(r[1]), N, N, N, N)
    if k == 'ResPrepared':
        _, qid, mid, pk, bind, res = r
        mo = exact_rmeta(res[1]) if res is not None else ('mkmo', N, N, N, N, N)
        return ('mkr', 4, mo[1], N, N, mo[4] if mo[4] is not None else mid, mo[5], N, N, N, N, some(qid),
                some(cols_list(bind)), pk, N)
    if k == 'ResSchemaChange':
        return ('mkr', 5, N, N, N, N, N, N, N, N, N, N, N, N, some(exact_schema(r[1])))
    raise ValueError(k)


SPEC_CLASS = {0x0000: 'CServerError', 0x000A: 'CProtocolException', 0x0100: 'CBadCredentials', 0x1000: 'CUnavailable',
              0x1001: 'COverloaded', 0x1002: 'CIsBootstrapping', 0x1003: 'CTruncateError', 0x1100: 'CWriteTimeout',
              0x1200: 'CReadTimeout', 0x1300: 'CReadFailure', 0x1400: 'CFunctionFailure', 0x1500: 'CWriteFailure',
              0x1600: 'CCDCWrite', 0x2000: 'CSyntax', 0x2100: 'CUnauthorized', 0x2200: 'CInvalidRequest',
              0x2300: 'CConfiguration', 0x2400: 'CAlreadyExists', 0x2500: 'CPreparedQueryNotFound'}


def spec_class(code):
    return (SPEC_CLASS.get(code, 'CErrorMessage'),)


def exact_failures(f):
    return (f[1], None) if f[0] == 'FCount' else (len(f[1]), some(f[1]))


def exact_einfo(e):
    k = e[0]
    if k == 'ErrSimple':
        return ('EiNone',)
    if k == 'ErrUnavailable':
        return ('EiUnavailable', e[1], e[2], e[3])
    if k == 'ErrWriteTimeout':
        return ('EiWriteTimeout', e[1], e[2], e[3], e[4], e[5])
    if k == 'ErrReadTimeout':
        return ('EiReadTimeout', e[1], e[2], e[3], e[4] != 0)
    if k == 'ErrReadFailure':
        n, m = exact_failures(e[4])
        return ('EiReadFailure', e[1], e[2], e[3], n, m, e[5] != 0)
    if k == 'ErrFunctionFailure':
        return ('EiFunctionFailure', e[1], e[2], e[3])
    if k == 'ErrWriteFailure':
        n, m = exact_failures(e[4])
        return ('EiWriteFailure', e[1], e[2], e[3], n, m, e[5])
    if k == 'ErrCasWriteUnknown':
        return ('EiCasWriteUnknown', e[1], e[2], e[3])
    if k == 'ErrAlreadyExists':
        return ('EiAlreadyExists', e[1], e[2])
    if k == 'ErrUnprepared':
        return ('EiUnprepared', e[1])
    raise ValueError(k)


def exact_body(pv, rm, b):
    k = b[0]
    if k == 'RError':
        c = err_code(b[1])
        return ('BError', spec_class(c), c, b[2], exact_einfo(b[1]))
    if k == 'RReady':
        return ('BReady',)
    if k == 'RAuthenticate':
        return ('BAuthenticate', b[1])
    if k == 'RSupported':
        v = [kv[2] for kv in b[1] if kv[1] == b'CQL_VERSION']
        return ('BSupported', v[0] if v else [], [kv for kv in b[1] if kv[1] != b'CQL_VERSION'])
    if k == 'RResult':
        return ('BResult', exact_result(rm, b[1]))
    if k == 'REvent':
        e = b[1]
        args = ('EaSchema', exact_schema(e[1])) if e[0] == 'EvSchemaChange' else ('EaNode', e[1], e[2], e[3])
        return ('BEvent', EVENT_NAME[e[0]], args)
    if k == 'RAuthChallenge':
        return ('BAuthChallenge', b[1][1] if b[1] is not None else b'')
    if k == 'RAuthSuccess':
        return ('BAuthSuccess', b[1][1] if b[1] is not None else b'')
    raise ValueError(k)


def exact(pv, rm, stream, r):
    return ('mkmsg', stream, r[1], r[2], r[3], exact_body(pv, rm, r[4]))


def documented_exception(e, m):
    k = e[0]
    if k == 'ErrUnavailable':
        return ('XUnavailable', e[1], e[2], e[3])
    if k == 'ErrWriteTimeout':
        return ('XWriteTimeout', e[1], e[2], e[3], e[4])
    if k == 'ErrReadTimeout':
        return ('XReadTimeout', e[1], e[2], e[3], e[4] != 0)
    if k == 'ErrReadFailure':
        n, mp = exact_failures(e[4])
        return ('XReadFailure', e[1], e[2], e[3], n, mp, e[5] != 0)
    if k == 'ErrFunctionFailure':
        return ('XFunctionFailure', e[1], e[2], e[3])
    if k == 'ErrWriteFailure':
        n, mp = exact_failures(e[4])
        return ('XWriteFailure', e[1], e[2], e[3], n, mp, e[5])
    if k == 'ErrAlreadyExists':
        return ('XAlreadyExists', e[1], e[2])
    if k == 'ErrSimple' and e[1] == 0x2200:
        return ('XInvalidRequest', m)
    if k == 'ErrSimple' and e[1] == 0x2100:
        return ('XUnauthorized', m)
    c = err_code(e)
    return ('XMessage', spec_class(c), c, m, exact_einfo(e))


def utf8_ok(b):
    try:
        b.decode('utf8')
        return True
    except UnicodeDecodeError:
        return False


def driver_gap(r):
    """-> None or the key of the known gap class this response falls into (ResponseSpec.driver_gap)"""
    b = r[4]
    if b[0] == 'RAuthSuccess' and b[1] is not None and not utf8_ok(b[1][1]):
        return 'AuthSuccessMessage.token.not_utf8'
    if b[0] == 'RError' and b[1][0] == 'ErrCasWriteUnknown':
        return 'ErrorMessage.cas_write_unknown.fields_dropped'
    if b[0] == 'RError' and b[1][0] == 'ErrWriteTimeout' and b[1][5] is not None:
        return 'WriteTimeoutErrorMessage.v5_cas.contentions_dropped'
    return None
