"""C39: the REAL Cluster / Session.__init__ / Session.prepare / Session.execute / ResponseFuture with faked pools:
only the network is replaced (a connection whose send_msg encodes with the encoder it is given, lets an in-memory server
answer, decodes with the decoder it is given -- what Connection.process_msg does -- and calls the callback)."""
import io, struct
from concurrent.futures import Future
from threading import Lock
from vf import bind_enc_impl as E

INSERT, SELECT = 'INSERT INTO t (...) VALUES (...)', 'SELECT ... FROM t'


class FakeServer(object):
    def __init__(self, case, meta, pv):
        self.case, self.meta, self.pv = case, meta, pv
        self.rows = []

    def _cols(self):
        out = b''
        for m in self.meta:       # no global table spec: every column carries its own keyspace / table
            out += E._string(m.keyspace_name) + E._string(m.table_name) + E._string(m.name) + E._type(m.type)
        return out

    def handle(self, message):
        from cassandra.protocol import PrepareMessage, ExecuteMessage, QueryMessage
        n = len(self.meta)
        if isinstance(message, PrepareMessage):
            ins = message.query == INSERT
            out = struct.pack('>i', 4) + E._short_bytes(b'insert' if ins else b'select')
            if self.pv >= 5:
                out += E._short_bytes(b'rmid')
            if ins:
                out += struct.pack('>ii', 0, n)
                if self.pv >= 4:
                    pk = list(self.case.get('pk_indexes') or [])
                    out += struct.pack('>i', len(pk)) + b''.join(struct.pack('>H', i) for i in pk)
                out += self._cols() + struct.pack('>ii', 0x0004, 0)
            else:
                out += struct.pack('>ii', 0, 0)
                if self.pv >= 4:
                    out += struct.pack('>i', 0)
                out += struct.pack('>ii', 0, n) + self._cols()
            return out
        if isinstance(message, ExecuteMessage) and message.query_id == b'insert':
            self.rows.append([None if c is None else bytes(c) for c in message.query_params])
            return struct.pack('>i', 1)
        if isinstance(message, (ExecuteMessage, QueryMessage)):
            skip = bool(getattr(message, 'skip_meta', False))
            out = struct.pack('>iii', 2, 0x0004 if skip else 0, n) + (b'' if skip else self._cols())
            out += struct.pack('>i', len(self.rows))
            for row in self.rows:
                for c in row:
                    out += struct.pack('>i', -1) if c is None else struct.pack('>i', len(c)) + c
            return out
        raise AssertionError('unexpected message %r' % (message,))


class FakeConnection(object):
    def __init__(self, server, pv):
        self.server, self.pv = server, pv
        self.lock = Lock()
        self.request_ids = []
        self.keyspace = None
        self.is_defunct = self.is_closed = False

    def send_msg(self, msg, request_id, cb, encoder, decoder, result_metadata):
        wire = encoder(msg, request_id, self.pv, compressor=None, allow_beta_protocol_version=False)
        body = self.server.handle(msg)
        cb(decoder(self.pv, {}, request_id, 0, 0x08, body, None, result_metadata))
        return len(wire)


class _Timer(object):
    def cancel(self):
        pass


class FakePool(object):
    is_shutdown = False

    def __init__(self, server, pv):
        self.conn = FakeConnection(server, pv)
        self._next = 0

    def borrow_connection(self, timeout, routing_key=None):
        self._next += 1
        return self.conn, self._next

    def return_connection(self, connection, *a, **kw):
        pass

    def shutdown(self):
        pass


def connect(policy, server, address, pv):
    from vf.impl import import_cluster
    import_cluster()
    from cassandra.cluster import Cluster, Session, ExecutionProfile, EXEC_PROFILE_DEFAULT
    from cassandra.policies import RoundRobinPolicy
    from cassandra.pool import Host
    from cassandra.connection import DefaultEndPoint
    from cassandra.query import tuple_factory
    profile = ExecutionProfile(load_balancing_policy=RoundRobinPolicy(), row_factory=tuple_factory, request_timeout=None)
    cluster = Cluster(contact_points=[address], protocol_version=pv, column_encryption_policy=policy,
                      execution_profiles={EXEC_PROFILE_DEFAULT: profile}, prepare_on_all_hosts=False)
    # the stub reactor of vf.impl has no timers; requests here complete synchronously, a timer that never fires is enough
    cluster.connection_class.create_timer = classmethod(lambda cls, timeout, callback: _Timer())
    host = Host(DefaultEndPoint(address), cluster.conviction_policy_factory)
    host.set_up()
    cluster.profile_manager.populate(cluster, [host])

    def add_or_renew_pool(self, host, is_host_addition):
        self._pools[host] = FakePool(server, pv)
        fut = Future()
        fut.set_result(True)
        return fut
    orig = Session.add_or_renew_pool
    Session.add_or_renew_pool = add_or_renew_pool
    try:
        session = Session(cluster, [host])
    finally:
        Session.add_or_renew_pool = orig
    return cluster, session


def other_policy(case, kind):
    """the policy of ANOTHER cluster in the same process"""
    from cassandra.policies import ColDesc
    from cassandra.column_encryption.policies import AES256ColumnEncryptionPolicy
    pol = AES256ColumnEncryptionPolicy(iv=bytes.fromhex(case['iv2']))
    if kind == 'otherkeys':
        for i, c in enumerate(case['cols']):
            if c['key'] is not None:
                pol.add_column(ColDesc(*E.col_desc(case, i)), bytes(b ^ 0x5a for b in bytes.fromhex(c['key'])), c['type'])
    return pol


def run_session(case):
    """case['session'] = {'order': ['main', 'other'] | ['other', 'main'] | ['main'], 'other': 'empty' | 'otherkeys'}
    -> same shape as bind_enc_impl.run_impl (wire = what the server stored), + 'decoded_simple' (unprepared SELECT)"""
    from cassandra.protocol import ColumnMetadata
    from cassandra import cqltypes as T
    pv = case['pv']
    types = [E.cqltype(c['type']) for c in case['cols']]
    meta = [ColumnMetadata(*(E.col_desc(case, i) + (T.BytesType if c['key'] is not None else types[i],))) for i, c in enumerate(case['cols'])]
    main_pol = E.make_policy(case, bytes.fromhex(case['iv']))
    server, other_server = FakeServer(case, meta, pv), FakeServer(case, meta, pv)
    res = {'wire': [], 'bind_err': None, 'ser': [], 'pre': None, 'decoded': None, 'decode_err': None, 'decoded_ser': None}
    made = []
    try:
        session = None
        for k, who in enumerate(case['session']['order']):
            if who == 'main':
                cl, session = connect(main_pol, server, '127.0.0.1', pv)
            else:
                cl, s2 = connect(other_policy(case, case['session'].get('other', 'empty')), other_server, '127.0.0.2', pv)
            made.append(cl)
        try:
            ins = session.prepare(INSERT)
            for row in case['rows']:
                vals = [E.pyval(v) for v in row['vals']]
                session.execute(ins, vals)
                res['ser'].append([None if v is None else bytes(types[i].serialize(v, pv)) for i, v in enumerate(vals)])
            res['wire'] = [list(r) for r in server.rows]
        except Exception as e:
            res['bind_err'] = '%s: %s' % (type(e).__name__, str(e)[:200])
            return res
        try:
            rows = [tuple(r) for r in session.execute(session.prepare(SELECT))]
            rows2 = [tuple(r) for r in session.execute(SELECT)]
            res['decoded'] = [[E.canon(x) for x in r] for r in rows]
            res['decoded_simple'] = [[E.canon(x) for x in r] for r in rows2]
            try:
                res['decoded_ser'] = [[None if x is None else bytes(types[i].serialize(x, pv)) for i, x in enumerate(r)] for r in rows]
            except Exception:
                res['decoded_ser'] = None
        except Exception as e:
            res['decode_err'] = '%s: %s' % (type(e).__name__, str(e)[:300])
        return res
    finally:
        for cl in made:
            try:
                cl.shutdown()
            except Exception:
                pass
