"""Harness for C25 / C45: a REAL cassandra.cluster.Cluster (real Host, _HostReconnectionHandler, Session methods,
HostConnection, ControlConnection) built without connecting.  Only collaborators outside the properties are fakes:
the connection class (no socket), the executor (queue, tasks run when the history says so), the scheduler (list of
timers, fired when the history says so), the load-balancing policy / listener (recording), and for C25 the control
connection (no-op notifications).  Everything is single-threaded; no thread, socket or atexit hook survives.
"""
import warnings
from concurrent.futures import Future
import threading
from threading import RLock

from vf.impl import import_cluster

import logging
logging.getLogger("concurrent.futures").setLevel(logging.CRITICAL + 1)
_CURRENT = [None]      # harness that receives newly created reconnectors (tracking subclass below)


def _mods():
    cl = import_cluster()
    import cassandra.pool as pool
    import cassandra.policies as policies
    import cassandra.connection as connection
    import cassandra
    return cl, pool, policies, connection, cassandra


def _install_tracker(cl):
    """tracking subclass: records reconnectors in creation order (all behaviour inherited from the real class)"""
    base = cl._HostReconnectionHandler
    if getattr(base, '_vf_tracking', False):
        return

    class Tracked(base):
        _vf_tracking = True

        def __init__(self, *a, **k):
            base.__init__(self, *a, **k)
            if _CURRENT[0] is not None:
                _CURRENT[0].recons.append(self)
    cl._HostReconnectionHandler = Tracked


class ManualExecutor(object):
    """submit() queues; run(k) executes the k-th queued task in the calling thread (done-callbacks included).
    Like ThreadPoolExecutor: submit after shutdown raises RuntimeError; tasks queued before shutdown still run."""

    def __init__(self):
        self.queue = []
        self.is_shutdown = False
        self.inline = False

    def submit(self, fn, *args, **kwargs):
        if self.is_shutdown:
            raise RuntimeError('cannot schedule new futures after shutdown')
        f = Future()
        if self.inline:
            self.queue.append((f, fn, args, kwargs))
            self.run(len(self.queue) - 1)
            return f
        self.queue.append((f, fn, args, kwargs))
        return f

    def run(self, k):
        f, fn, args, kwargs = self.queue.pop(k)
        if not f.set_running_or_notify_cancel():
            return
        try:
            r = fn(*args, **kwargs)
        except BaseException as e:     # noqa
            f.set_exception(e)
        else:
            f.set_result(r)

    def shutdown(self, wait=True):
        self.is_shutdown = True


class HookLock(object):
    """Wraps a pool/session lock: just before its n-th acquisition the hook runs once (on the acquiring thread), i.e. another
    thread's action is forced into the window right before the locked region."""

    def __init__(self, inner, skip, hook):
        self.inner, self.skip, self.hook = inner, skip, hook

    def _maybe(self):
        if self.hook is not None:
            if self.skip == 0:
                h, self.hook = self.hook, None
                h()
            else:
                self.skip -= 1

    def acquire(self, *a, **k):
        self._maybe()
        return self.inner.acquire(*a, **k)

    def release(self):
        return self.inner.release()

    def __enter__(self):
        self._maybe()
        return self.inner.__enter__()

    def __exit__(self, *a):
        return self.inner.__exit__(*a)

    def __getattr__(self, name):
        return getattr(self.inner, name)


class ManualScheduler(object):
    """Same interface as cluster._Scheduler; timers fire when the history says so."""

    def __init__(self):
        self.timers = []
        self.is_shutdown = False

    def schedule(self, delay, fn, *args, **kwargs):
        if not self.is_shutdown:
            self.timers.append((fn, args, kwargs))

    def schedule_unique(self, delay, fn, *args, **kwargs):
        self.schedule(delay, fn, *args, **kwargs)

    def shutdown(self):
        self.is_shutdown = True


class OrderedSessions(list):
    """stands for the WeakSet Cluster.sessions, with a deterministic iteration order"""

    def add(self, s):
        if s not in self:
            self.append(s)


class FakeControl(object):
    """C25: the control connection is outside the property; it only receives notifications."""
    _connection = None

    def on_up(self, host):
        pass

    def on_down(self, host):
        pass

    def on_add(self, host, refresh_nodes=True):
        pass

    def on_remove(self, host):
        pass

    def shutdown(self):
        pass


class Harness(object):
    """cfg: {'nhosts': n, 'hosts': [init,...] with init in 'up','absent','ign' , 'nsess': k, 'sched': None|int}"""

    def __init__(self, cfg, real_control=False):
        cl, pool, policies, connection, cassandra = _mods()
        self.cl, self.pool_mod, self.cassandra = cl, pool, cassandra
        self.cfg = cfg
        H = self
        self.log = []            # notifications of the current step: (audience, kind, hid)
        self.conns = []          # every fake connection ever opened
        self.attempts = []       # (hid, kind, outcome) of every connection attempt
        self.outcome = {}        # hid -> 'ok' | 'fail' | 'auth'
        self.recons = []         # reconnectors in creation order
        self.ignored = set()
        self.endpoints = [connection.DefaultEndPoint('10.0.0.%d' % (i + 1), 9042) for i in range(cfg['nhosts'])]
        self.ep_index = dict((ep, i) for i, ep in enumerate(self.endpoints))
        # Host OBJECTS: slot i and slot i + nhosts share endpoint i (a node removed and a replacement node added under its address)
        self.neps = cfg['nhosts']
        self.nobj = 2 * cfg['nhosts']
        self.hosts = [None] * self.nobj
        self.removed = [False] * self.nobj
        self.adding = None
        self.firing = None
        self.ign_changed = set()      # endpoints whose distance changed during the history

        class FakeConn(object):
            is_closed = False
            is_defunct = False
            in_flight = 0
            max_request_id = 100
            orphaned_threshold_reached = False
            is_control_connection = False
            _product_type = None
            signaled_error = False
            last_error = None

            def __init__(self, hid, control):
                self.hid = hid
                self.control = control
                self.cid = len(H.conns)
                self.lock = RLock()
                self.orphaned_request_ids = set()
                H.conns.append(self)

            @classmethod
            def factory(cls, endpoint, timeout, *args, **kwargs):
                hid = H.ep_index[endpoint]
                control = bool(kwargs.get('is_control_connection'))
                o = H.outcome.get(hid, 'ok')
                pr = H.probe_by_thread.get(threading.get_ident())
                if pr is not None and not pr['entered']:
                    # split reconnection attempt: the connect is now "in flight"; the history decides what happens
                    # meanwhile (main thread), then releases the gate with the outcome.  Strict hand-off: only one
                    # of the two threads ever runs.
                    pr['entered'] = True
                    pobj = H.hid(pr['handler'].host)
                    H.log.append(('A', 'attempt', pobj))
                    H.attempts.append((hid, 'data', 'split', H.removed[pobj]))
                    pr['started'].set()
                    pr['gate'].wait()
                    o = pr['outcome']
                    if o == 'fail':
                        raise connection.ConnectionException('scripted connect failure', endpoint=endpoint)
                    if o == 'auth':
                        raise cassandra.AuthenticationFailed('scripted auth failure')
                    return cls(hid, control)
                fobj = H.hid(H.firing.host) if H.firing is not None else None
                H.attempts.append((hid, 'control' if control else 'data', o, bool(fobj is not None and H.removed[fobj])))
                # did this attempt START after Cluster.shutdown (or, for a session's connection, after Session.shutdown)?
                H.attempt_after_shutdown.append(bool(H.cluster.is_shutdown or (not control and any(x.is_shutdown for x in H.sessions))))
                if H.in_recon:
                    H.log.append(('A', 'attempt', fobj if fobj is not None else hid))
                if o == 'fail':
                    raise connection.ConnectionException('scripted connect failure', endpoint=endpoint)
                if o == 'auth':
                    raise cassandra.AuthenticationFailed('scripted auth failure')
                if o == 'err':
                    if H.after_connect is not None:      # C45: the shutdown arrives while this (failing) connect is in progress
                        cb, H.after_connect = H.after_connect, None
                        cb()
                    raise RuntimeError('scripted connect error')
                c = cls(hid, control)
                if H.after_connect is not None:      # C45: something happens while the connect is in progress
                    cb, H.after_connect = H.after_connect, None
                    cb()
                return c

            @classmethod
            def initialize_reactor(cls):
                pass

            @classmethod
            def handle_fork(cls):
                pass

            def close(self):
                self.is_closed = True

            @classmethod
            def create_timer(cls, timeout, callback):
                t = type('T', (), {'cancel': lambda self: None, 'callback': callback})()
                H.req_timers.append(t)
                return t

            def get_request_id(self):
                self._rid = getattr(self, '_rid', 0) + 1
                return self._rid

            def send_msg(self, msg, request_id, cb, **kwargs):
                self.sent = getattr(self, 'sent', []) + [request_id]
                return 1

            endpoint = property(lambda self: H.endpoints[self.hid])

            def set_keyspace_blocking(self, ks):
                pass

            # control-connection protocol (C45): outside the property, answers are canned
            def register_watchers(self, *a, **k):
                if H.after_handshake is not None:      # C45: something happens after _try_connect's own shutdown check
                    cb, H.after_handshake = H.after_handshake, None
                    cb()

            def wait_for_responses(self, *msgs, **kwargs):
                return [(True, None) for _ in msgs]

            def wait_for_response(self, msg, **kwargs):
                return None

            def control_conn_disposed(self):
                pass

        self.FakeConn = FakeConn
        self.after_connect = None
        self.after_handshake = None
        self.attempt_after_shutdown = []
        self.probes = []            # in-flight split reconnection attempts
        self.probe_by_thread = {}
        self.req_timers = []
        self.in_recon = False
        self.discounted_nonup = set()     # hosts for which an on_down was ignored (open pool) while not marked up

        class RecLBP(policies.LoadBalancingPolicy):
            def distance(self, host):
                return policies.HostDistance.IGNORED if H.ep_index.get(host.endpoint) in H.ignored else policies.HostDistance.LOCAL

            def populate(self, cluster, hosts):
                pass

            def make_query_plan(self, working_keyspace=None, query=None):
                return [h for h in H.cluster.metadata.all_hosts()]

            def on_up(self, host):
                H.log.append(('P', 'up', H.hid(host)))

            def on_down(self, host):
                H.log.append(('P', 'down', H.hid(host)))

            def on_add(self, host):
                H.log.append(('P', 'add', H.hid(host)))

            def on_remove(self, host):
                H.log.append(('P', 'remove', H.hid(host)))

        class RecListener(policies.HostStateListener):
            def on_up(self, host):
                H.log.append(('L', 'up', H.hid(host)))

            def on_down(self, host):
                H.log.append(('L', 'down', H.hid(host)))

            def on_add(self, host):
                H.log.append(('L', 'add', H.hid(host)))

            def on_remove(self, host):
                H.log.append(('L', 'remove', H.hid(host)))

        sched = cfg.get('sched')

        class Recon(policies.ReconnectionPolicy):
            def new_schedule(self):
                if sched is None:
                    def inf():
                        while True:
                            yield 1.0
                    return inf()
                return iter([1.0] * sched)

        _install_tracker(cl)
        _CURRENT[0] = self

        real_sched = cl._Scheduler
        cl._Scheduler = lambda executor: ManualScheduler()      # no scheduler thread is ever started
        try:
            c = self._construct(cl, FakeConn, RecLBP, Recon)
        finally:
            cl._Scheduler = real_sched
        # the real ThreadPoolExecutor has not started any thread yet
        c.executor.shutdown()
        self.executor = c.executor = ManualExecutor()
        self.scheduler = c.scheduler = ManualScheduler()
        c.sessions = OrderedSessions()
        self.real_control = real_control
        if not real_control:
            c.control_connection = FakeControl()
        else:
            cc = c.control_connection
            cc._refresh_node_list_and_token_map = lambda *a, **k: None      # outside C45: metadata queries
            cc._refresh_schema = lambda *a, **k: True
            cc._get_peers_query = lambda *a, **k: 'SELECT * FROM system.peers'
            cc._protocol_version = 4
        c.register_listener(RecListener())
        self.cluster = c
        self.sessions = []
        for i, init in enumerate(cfg['hosts']):
            if init == 'ign':
                self.ignored.add(i)
            if init in ('up', 'ign'):
                h, _ = c.metadata.add_or_return_host(pool.Host(self.endpoints[i], c.conviction_policy_factory))
                self.hosts[i] = h
                if init == 'up':
                    h.set_up()
        for s in range(cfg['nsess']):
            self.new_session()
        self.log = []

    # ------------------------------------------------------------------ construction helpers
    protocol_version = 4

    def _construct(self, cl, FakeConn, RecLBP, Recon):
        with warnings.catch_warnings():
            warnings.simplefilter('ignore')
            return cl.Cluster(contact_points=[self.endpoints[0]], connection_class=FakeConn, load_balancing_policy=RecLBP(),
                              reconnection_policy=Recon(), protocol_version=self.protocol_version, monitor_reporting_enabled=False,
                              idle_heartbeat_interval=0, executor_threads=1)

    def new_session(self):
        cl = self.cl
        s = object.__new__(cl.Session)
        c = self.cluster
        s.cluster = c
        s.hosts = c.metadata.all_hosts()
        s.keyspace = None
        s._lock = RLock()
        s._pools = {}
        s._profile_manager = c.profile_manager
        s._metrics = None
        s._request_init_callbacks = []
        s._protocol_version = 4
        s._initial_connect_futures = set()
        # initial pools for the hosts that are up (what Session.__init__ does, run to completion)
        for i, h in enumerate(self.hosts):
            if h is not None and h.is_up and i not in self.ignored:
                self.outcome[i] = 'ok'
                f = s.add_or_renew_pool(h, False)
                self.executor.run(len(self.executor.queue) - 1)
                assert f.result() is True
        c.sessions.add(s)
        self.sessions.append(s)
        return s

    def hid(self, host):
        """slot of a Host OBJECT (identity, not equality: Host.__eq__ compares endpoints)"""
        for i, h in enumerate(self.hosts):
            if h is host:
                return i
        if self.adding is not None:          # the object being created by add_host right now
            self.hosts[self.adding] = host
            return self.adding
        raise KeyError(host)

    def epi(self, host):
        return self.ep_index[host.endpoint]

    def close(self):
        """leave nothing behind"""
        for pr in list(self.probes):
            pr['handler'].cancel()
            pr['outcome'] = 'fail'
            pr['gate'].set()
            pr['thread'].join()
        self.probes[:] = []
        _CURRENT[0] = None
        for s in self.sessions:
            s.is_shutdown = True       # keeps Session.__del__ from doing anything
        self.executor.queue[:] = []
        self.scheduler.timers[:] = []

    # ------------------------------------------------------------------ describing the implementation's state
    def task_desc(self, item):
        f, fn, args, kwargs = item
        name = getattr(fn, '__name__', '')
        if name == 'on_down':       # Cluster.on_down.__wrapped__(self, host, is_host_addition, expect)
            host = args[1]
            is_add = args[2] if len(args) > 2 else kwargs.get('is_host_addition')
            expect = args[3] if len(args) > 3 else kwargs.get('expect_host_to_be_down', False)
            return ('down', self.hid(host), int(bool(is_add)), int(bool(expect)))
        if name == 'run_add_or_renew_pool':
            cv = dict(zip(fn.__code__.co_freevars, [c.cell_contents for c in fn.__closure__]))
            return ('addpool', self.hid(cv['host']), self.sessions.index(cv['self']), int(bool(cv['is_host_addition'])))
        if name == 'shutdown' and hasattr(fn, '__self__') and isinstance(fn.__self__, self.pool_mod.HostConnection):
            p = fn.__self__
            sid = [i for i, s in enumerate(self.sessions) if p._session.__eq__(s) is True or p._session._pools is s._pools]
            return ('poolshut', self.epi(p.host), sid[0] if sid else -1)
        if name == 'run' and hasattr(fn, '__self__') and fn.__self__ in self.recons:
            return ('reconrun', self.recons.index(fn.__self__))
        return ('other', name)

    def timer_desc(self, t):
        fn, args, kwargs = t
        o = getattr(fn, '__self__', None)
        if o in self.recons:
            return ('recon', self.recons.index(o))
        return ('other', getattr(fn, '__name__', '?'))

    def snapshot(self):
        hs = []
        for i in range(self.nobj):
            h = self.hosts[i]
            if h is None:
                hs.append({'present': 0})
                continue
            r = h._reconnection_handler
            pools = []
            for s in self.sessions:
                p = s._pools.get(h)
                if p is None:
                    pools.append(0)
                else:
                    pools.append(2 if p.get_state()['open_count'] > 0 else 1)
            hs.append({'present': 2 if self.removed[i] else 1,
                       'is_up': {True: 1, False: 0, None: 2}[h.is_up],
                       'reg': self.recons.index(r) if r is not None else -1,
                       'reg_cancelled': (int(bool(r._cancelled)) if r is not None else -1),
                       'handling': int(bool(h._currently_handling_node_up)),
                       'pools': pools})
        return {'hosts': hs,
                'queue': [self.task_desc(t) for t in self.executor.queue],
                'timers': [self.timer_desc(t) for t in self.scheduler.timers],
                'probes': [self.recons.index(pr['handler']) for pr in self.probes],
                'recons': [(self.hid(r.host), int(bool(r._cancelled))) for r in self.recons],
                'log': list(self.log),
                'opened': len(self.conns), 'closed': [c.cid for c in self.conns if c.is_closed]}

    # ------------------------------------------------------------------ events (one call into the real code each)
    def enabled(self):
        ev = []
        for i in range(self.nobj):
            if self.hosts[i] is None:
                if i < self.neps or self.removed[i - self.neps]:
                    ev.append(('add', i))
            elif not self.removed[i]:
                ev += [('fail', i), ('sdown', i), ('sup', i), ('rem', i)]
        for e in range(self.neps):
            ev.append(('setign', e, 0 if e in self.ignored else 1))
        for k, t in enumerate(self.scheduler.timers):
            for o in ('ok', 'fail', 'auth'):
                ev.append(('recon', k, o))
            ev.append(('pstart', k))
        for j, pr in enumerate(self.probes):
            for o in ('ok', 'fail', 'auth'):
                ev.append(('pfinish', j, o))
        for k, t in enumerate(self.executor.queue):
            if self.task_desc(t)[0] == 'addpool':
                for o in ('ok', 'fail', 'auth'):
                    ev.append(('run', k, o))
            else:
                ev.append(('run', k, 'ok'))
        return ev

    def applicable(self, ev):
        kind = ev[0]
        if kind in ('fail', 'sdown', 'sup'):
            return ev[1] < self.nobj and self.hosts[ev[1]] is not None
        if kind == 'add':
            return ev[1] < self.nobj and self.hosts[ev[1]] is None and (ev[1] < self.neps or self.removed[ev[1] - self.neps])
        if kind == 'setign':
            return True
        if kind == 'rem':
            return ev[1] < self.nobj and self.hosts[ev[1]] is not None and not self.removed[ev[1]]
        if kind in ('recon', 'pstart'):
            return ev[1] < len(self.scheduler.timers)
        if kind == 'pfinish':
            return ev[1] < len(self.probes)
        if kind == 'run':
            return ev[1] < len(self.executor.queue)
        return False

    def step(self, ev):
        self.log = []
        if not self.applicable(ev):
            return self.snapshot()          # the model treats these as no-ops
        c = self.cluster
        kind = ev[0]
        if kind == 'fail':
            h = self.hosts[ev[1]]
            # every connection to the host dies, then the failure is signalled (what a pool / the control connection does)
            for cn in self.conns:
                if cn.hid == ev[1] % self.neps and not cn.is_closed:
                    cn.is_defunct = True
            c.signal_connection_failure(h, self.cassandra.connection.ConnectionException('scripted', endpoint=h.endpoint), is_host_addition=False)
        elif kind == 'sdown':
            c.on_down(self.hosts[ev[1]], is_host_addition=False)
        elif kind == 'sup':
            c.on_up(self.hosts[ev[1]])
        elif kind == 'add':
            self.adding = ev[1]
            try:
                h, new = c.add_host(self.endpoints[ev[1] % self.neps], signal=True)
            finally:
                self.adding = None
            self.hosts[ev[1]] = h
        elif kind == 'setign':
            (self.ignored.add if ev[2] else self.ignored.discard)(ev[1])
            self.ign_changed.add(ev[1])
        elif kind == 'rem':
            self.removed[ev[1]] = True
            c.remove_host(self.hosts[ev[1]])
        elif kind == 'recon':
            fn, args, kwargs = self.scheduler.timers.pop(ev[1])
            r = getattr(fn, '__self__', None)
            if r is not None and hasattr(r, 'host'):
                self.outcome[self.epi(r.host)] = ev[2]
            self.in_recon = True
            self.firing = r
            try:
                fn(*args, **kwargs)         # the scheduler hands it to the executor; collapsed into one step
            except Exception:
                pass                        # _Scheduler._log_if_failed
            finally:
                self.in_recon = False
                self.firing = None
        elif kind == 'pstart':
            fn, args, kwargs = self.scheduler.timers.pop(ev[1])
            pr = {'handler': fn.__self__, 'entered': False, 'started': threading.Event(), 'gate': threading.Event(), 'outcome': None}

            def work():
                self.probe_by_thread[threading.get_ident()] = pr
                try:
                    fn(*args, **kwargs)
                except Exception:
                    pass
                finally:
                    pr['done'] = True
                    pr['started'].set()
            pr['thread'] = t = threading.Thread(target=work)
            t.daemon = True
            t.start()
            pr['started'].wait()
            if pr.get('done'):          # cancelled before starting: run() returned at once
                t.join()
            else:
                self.probes.append(pr)
        elif kind == 'pfinish':
            pr = self.probes.pop(ev[1])
            pr['outcome'] = ev[2]
            pr['gate'].set()
            pr['thread'].join()
        elif kind == 'run':
            d = self.task_desc(self.executor.queue[ev[1]])
            if d[0] == 'addpool':
                self.outcome[d[1] % self.neps] = ev[2]
            if d[0] == 'down':
                h = self.hosts[d[1]]
                if h.is_up is not True and (d[1] % self.neps) not in self.ignored and any(
                        s._pools.get(h) is not None and s._pools[h].get_state()['open_count'] > 0 for s in self.sessions):
                    self.discounted_nonup.add(d[1])
            self.executor.run(ev[1])
        else:
            raise ValueError(ev)
        return self.snapshot()
